(* C16 -- the Verilog-string parser model: print/parse round trip, and Const = validate + infer. *)
From Coq Require Import ZArith List Bool Lia ZifyBool.
From PyRTL Require Import Base.PyZ Conv.ConvBase Gen.Conv Conv.Spec Conv.Str Conv.ConvProofs
  Conv.StrProofs Conv.FmtProofs.
Open Scope Z_scope.

(* ---------- characters of digit strings ---------- *)
Definition digitish (c : Z) : Prop := 48 <= c <= 57 \/ 97 <= c.

Lemma digit_char_digitish d : 0 <= d -> digitish (digit_char d).
Proof. intros. unfold digitish, digit_char. destruct (d <? 10) eqn:E; lia. Qed.

Lemma to_digits_digitish base : 2 <= base -> forall f n acc,
  0 <= n -> Forall digitish acc -> Forall digitish (to_digits f base n acc).
Proof.
  intros Hb. induction f as [|f IH]; intros n acc Hn Hacc; cbn [to_digits]; [assumption|].
  destruct (n <? base).
  - constructor; [apply digit_char_digitish; assumption|assumption].
  - apply IH; [apply Z.div_pos; lia|]. constructor; [|assumption].
    apply digit_char_digitish. apply Z.mod_pos_bound. lia.
Qed.

Lemma nat_str_digitish base n : 2 <= base -> 0 <= n -> Forall digitish (nat_str base n).
Proof. intros. unfold nat_str. apply to_digits_digitish; auto. Qed.

Lemma lower_digitish c : digitish c -> lower c = c.
Proof. unfold digitish, lower. intros H. destruct ((65 <=? c) && (c <=? 90)) eqn:E; lia. Qed.

Lemma map_lower_digitish l : Forall digitish l -> map lower l = l.
Proof. induction 1 as [|c t Hc Ht IH]; [reflexivity|]. cbn [map]. rewrite IH, lower_digitish by assumption. reflexivity. Qed.

Lemma filter_digitish k l : ~ digitish k -> Forall digitish l ->
  filter (fun x => negb (x =? k)) l = l.
Proof.
  intros Hk. induction 1 as [|c t Hc Ht IH]; [reflexivity|]. cbn [filter].
  destruct (c =? k) eqn:E; [exfalso; apply Hk; assert (c = k) by lia; subst; assumption|].
  cbn [negb]. rewrite IH. reflexivity.
Qed.

Lemma digitish_notin k l : ~ digitish k -> Forall digitish l -> ~ In k l.
Proof. intros Hk Hl Hin. rewrite Forall_forall in Hl. apply Hk. apply Hl. assumption. Qed.

(* ---------- s.split(sep) ---------- *)
Lemma split_on_nosep sep : forall b cur, ~ In sep b -> split_on sep b cur = [rev cur ++ b].
Proof.
  induction b as [|c t IH]; intros cur Hn; cbn [split_on].
  - rewrite app_nil_r. reflexivity.
  - destruct (c =? sep) eqn:E; [exfalso; apply Hn; left; lia|].
    rewrite IH by (intro; apply Hn; right; assumption). cbn [rev]. rewrite <- app_assoc. reflexivity.
Qed.

Lemma split_on_first sep : forall a cur rest, ~ In sep a ->
  split_on sep (a ++ sep :: rest) cur = (rev cur ++ a) :: split_on sep rest [].
Proof.
  induction a as [|c t IH]; intros cur rest Hn; cbn [app split_on].
  - rewrite Z.eqb_refl, app_nil_r. reflexivity.
  - destruct (c =? sep) eqn:E; [exfalso; apply Hn; left; lia|].
    rewrite IH by (intro; apply Hn; right; assumption). cbn [rev]. rewrite <- app_assoc. reflexivity.
Qed.

Lemma lower_eq_sep x : lower x = 39 -> x = 39.
Proof. unfold lower. destruct ((65 <=? x) && (x <=? 90)) eqn:E; lia. Qed.

Lemma notin_map_lower l : ~ In 39 l -> ~ In 39 (map lower l).
Proof.
  intros Hn Hin. apply in_map_iff in Hin. destruct Hin as [x [Hx Hin]]. apply lower_eq_sep in Hx. subst. contradiction.
Qed.

(* ---------- the radix letters (the generated `bases` table) ---------- *)
Definition radix_letter (c base : Z) : Prop := assocZ (lower c) verilog_bases = Some base.

Lemma radix_letter_facts c base : radix_letter c base ->
  2 <= base <= 36 /\ lower c <> verilog_signed_marker /\ c <> verilog_sep_char /\ 97 <= lower c.
Proof.
  unfold radix_letter, verilog_bases, verilog_signed_marker, verilog_sep_char. cbn [assocZ].
  intros H.
  repeat match type of H with
         | (if ?x =? ?k then _ else _) = _ => destruct (x =? k) eqn:?; [inversion H; subst; clear H|]
         end; try discriminate; unfold lower in *;
  destruct ((65 <=? c) && (c <=? 90)) eqn:?; lia.
Qed.

(* ---------- parse (print ...) ---------- *)
(* what may follow the quote: either a radix letter (any case) and a body, or a body starting with a digit *)
Definition radix_of (letter : option Z) (body : str) (base : Z) : Prop :=
  match letter with
  | Some c => radix_letter c base
  | None => base = verilog_default_base /\ exists c0 t, body = c0 :: t /\ 48 <= c0 <= 57
  end.

Lemma strip_neg (neg : bool) (rest : str) : (forall c t, rest = c :: t -> c <> verilog_neg_char) ->
  (match (if neg then [verilog_neg_char] else []) ++ rest with
   | c :: t => if c =? verilog_neg_char then (true, t) else (false, (if neg then [verilog_neg_char] else []) ++ rest)
   | [] => (false, (if neg then [verilog_neg_char] else []) ++ rest)
   end) = (neg, rest).
Proof.
  intros H. destruct neg; cbn [app].
  - rewrite Z.eqb_refl. reflexivity.
  - destruct rest as [|c t]; [reflexivity|]. specialize (H c t eq_refl).
    replace (c =? verilog_neg_char) with false by lia. reflexivity.
Qed.

Lemma verilog_parse_print neg w letter body base v :
  0 <= w -> radix_of letter body base -> ~ In 39 body ->
  py_int base (filter (fun x => negb (x =? verilog_ignored_char)) (map lower body)) = Some v ->
  verilog_parse (verilog_print neg w letter body) = Ok (neg, w, v).
Proof.
  intros Hw Hrad Hsep Hbody. unfold verilog_parse, verilog_print.
  pose proof (nat_str_digitish 10 w ltac:(lia) Hw) as Hdw.
  assert (N45 : ~ digitish 45) by (unfold digitish; lia).
  assert (N39 : ~ digitish 39) by (unfold digitish; lia).
  rewrite strip_neg.
  2:{ intros c t E. unfold nat_str in E.
      destruct (to_digits_head 10 ltac:(lia) (Z.to_nat (Z.log2 w)) w Hw) as [d [t' [Hd E']]].
      unfold nat_str in *. rewrite E' in E. cbn [app] in E. inversion E; subst.
      pose proof (digit_char_digitish d Hd). unfold verilog_neg_char. intro X. rewrite X in H. contradiction. }
  rewrite map_app. cbn [map]. rewrite (map_lower_digitish _ Hdw).
  replace (lower verilog_sep_char) with verilog_sep_char by reflexivity.
  rewrite split_on_first by (apply digitish_notin; assumption). cbn [rev app].
  destruct letter as [c|]; cbn [radix_of] in Hrad.
  - destruct (radix_letter_facts c base Hrad) as [Hb [Hs [Hq Hl]]].
    rewrite split_on_nosep.
    2:{ rewrite map_app. cbn [map app]. intros [X|X]; [apply lower_eq_sep in X; apply Hq; exact X|].
        revert X. apply notin_map_lower. assumption. }
    cbn [rev app]. rewrite py_int_nat_str by lia.
    cbn [app map]. replace (lower c =? verilog_signed_marker) with false by lia.
    unfold radix_letter in Hrad. rewrite Hrad. rewrite Hbody. reflexivity.
  - destruct Hrad as [-> [c0 [t [-> Hc0]]]].
    rewrite split_on_nosep by (cbn [app]; apply notin_map_lower; assumption).
    cbn [rev app]. rewrite py_int_nat_str by lia.
    cbn [map]. assert (Hl0 : lower c0 = c0) by (apply lower_digitish; left; assumption). rewrite Hl0.
    unfold verilog_signed_marker. replace (c0 =? 115) with false by lia.
    assert (Hnk : assocZ c0 verilog_bases = None).
    { unfold verilog_bases. cbn [assocZ].
      repeat match goal with |- context [c0 =? ?k] => replace (c0 =? k) with false by lia end. reflexivity. }
    rewrite Hnk. cbn [map] in Hbody. rewrite Hl0 in Hbody. rewrite Hbody. reflexivity.
Qed.

(* the plain printer: body = the digits of v in the radix *)
Lemma verilog_parse_print_digits neg w letter base v :
  0 <= w -> 0 <= v ->
  (match letter with Some c => radix_letter c base | None => base = verilog_default_base end) ->
  verilog_parse (verilog_print neg w letter (nat_str base v)) = Ok (neg, w, v).
Proof.
  intros Hw Hv Hrad.
  assert (Hb : 2 <= base <= 36).
  { destruct letter as [c|]; [apply (radix_letter_facts c base Hrad)|subst; unfold verilog_default_base; lia]. }
  pose proof (nat_str_digitish base v ltac:(lia) Hv) as Hd.
  apply verilog_parse_print with (base := base); try assumption.
  - destruct letter as [c|]; cbn [radix_of]; [assumption|]. split; [assumption|]. subst base.
    unfold nat_str, verilog_default_base in *.
    destruct (to_digits_head 10 ltac:(lia) (Z.to_nat (Z.log2 v)) v Hv) as [d [t [Hd0 E]]].
    (* the first digit of a decimal string is a decimal digit *)
    assert (Hfirst : forall f n, 0 <= n -> exists d t, 0 <= d < 10 /\ to_digits (S f) 10 n [] = digit_char d :: t).
    { induction f as [|f IH]; intros n Hn.
      - cbn [to_digits]. destruct (n <? 10) eqn:En.
        + exists n, []. split; [lia|reflexivity].
        + exists (n mod 10), []. split; [apply Z.mod_pos_bound; lia|reflexivity].
      - rewrite to_digits_S. destruct (n <? 10) eqn:En.
        + exists n, []. split; [lia|reflexivity].
        + destruct (IH (n / 10) ltac:(apply Z.div_pos; lia)) as [d' [t' [Hd' E']]]. rewrite E'.
          exists d', (t' ++ [digit_char (n mod 10)]). split; [assumption|reflexivity]. }
    destruct (Hfirst (Z.to_nat (Z.log2 v)) v Hv) as [d' [t' [Hd' E']]].
    exists (digit_char d'), t'. split; [exact E'|]. unfold digit_char. replace (d' <? 10) with true by lia. lia.
  - apply digitish_notin; [unfold digitish; lia|assumption].
  - rewrite (map_lower_digitish _ Hd).
    rewrite filter_digitish by (assumption || (unfold verilog_ignored_char, digitish; lia)).
    apply py_int_nat_str; assumption.
Qed.

(* ---------- the string path characterised on every printed constant ---------- *)
Lemma verilog_str_value neg w letter base v passed :
  1 <= w -> 0 <= v ->
  (match letter with Some c => radix_letter c base | None => base = verilog_default_base end) ->
  passed = None \/ passed = Some w ->
  res_opt (infer (RStr (verilog_print neg w letter (nat_str base v))) passed false)
  = if neg
    then (if v =? 0 then Some (0, w) else if v <? 2 ^ (w - 1) then Some (2 ^ w - v, w) else None)
    else (if v <? 2 ^ w then Some (v, w) else None).
Proof.
  intros Hw Hv Hrad Hp.
  pose proof (verilog_parse_print_digits neg w letter base v ltac:(lia) Hv Hrad) as Hparse.
  cbn [infer]. unfold verilog_str. rewrite Hparse.
  rewrite (verilog_tail_passed_ok _ _ _ _ _ Hp). unfold verilog_tail.
  replace (w <? 1) with false by lia. cbn [andb negb].
  assert (Hpw : 0 < 2 ^ (w - 1)) by (apply pow2_pos; lia). pose proof (pow2_half w Hw) as Hh.
  pose proof (shiftr_0 v (w - 1) ltac:(lia)) as S1. pose proof (shiftr_0 v w ltac:(lia)) as S0.
  destruct neg; cbn [andb].
  - destruct (v =? 0) eqn:E0; cbn [negb].
    + assert (v = 0) by lia. subst v. rewrite Z.shiftr_0_l. reflexivity.
    + destruct (Z.shiftr v (w - 1) =? 0) eqn:E1; cbn [negb].
      * assert (0 <= v < 2 ^ (w - 1)) by (apply S1; lia). replace (v <? 2 ^ (w - 1)) with true by lia.
        rewrite Z.shiftl_1_l. assert (Z.shiftr (2 ^ w - v) w = 0) as -> by (apply shiftr_0; lia). reflexivity.
      * assert (~ (0 <= v < 2 ^ (w - 1))) by (intro Hx; apply S1 in Hx; lia).
        replace (v <? 2 ^ (w - 1)) with false by lia. reflexivity.
  - destruct (Z.shiftr v w =? 0) eqn:E1; cbn [negb].
    + assert (0 <= v < 2 ^ w) by (apply S0; lia). replace (v <? 2 ^ w) with true by lia. reflexivity.
    + assert (~ (0 <= v < 2 ^ w)) by (intro Hx; apply S0 in Hx; lia). replace (v <? 2 ^ w) with false by lia. reflexivity.
Qed.

(* ---------- Const = _validate_bitwidth, then infer_val_and_bitwidth ---------- *)
Lemma infer_ok_range r bw s n w : infer r bw s = Ok (n, w) -> 1 <= w /\ 0 <= n < 2 ^ w.
Proof.
  destruct r as [b|v|str0|]; cbn [infer].
  - rewrite convert_bool_rules. destruct s; [discriminate|].
    destruct bw as [w0|]; [destruct (w0 =? 1)|]; try discriminate; intros H; inversion H; subst;
      destruct b; cbn; lia.
  - intros H. destruct bw as [w0|].
    + rewrite convert_int_some in H. destruct (representableb v w0 s) eqn:E; [|discriminate].
      apply representableb_spec in E. destruct E as [Hw _]. inversion H; subst.
      split; [lia|]. apply Z.mod_pos_bound. apply pow2_pos. lia.
    + destruct (Z.lt_ge_cases v 0) as [Hv|Hv].
      * destruct s.
        -- destruct (convert_int_none_neg_signed v Hv) as [w1 [E [[Hw _] _]]]. rewrite E in H. inversion H; subst.
           split; [lia|]. apply Z.mod_pos_bound. apply pow2_pos. lia.
        -- rewrite convert_int_none_neg_unsigned in H by assumption. discriminate.
      * destruct (convert_int_none_nonneg v s Hv) as [w1 [E [Em [[Hw _] _]]]]. rewrite E in H. inversion H; subst.
        split; [lia|]. rewrite Em. apply Z.mod_pos_bound. apply pow2_pos. lia.
  - unfold verilog_str. destruct s; [discriminate|].
    destruct (verilog_parse str0) as [[[neg w0] num]|k]; [|discriminate].
    unfold verilog_tail. intros H.
    assert (Hx : (w <? 1) = false /\ Z.shiftr n w = 0).
    { revert H.
      repeat match goal with
             | |- context [if ?c then _ else _] => destruct c eqn:?
             end; intros H; inversion H; subst; split; lia. }
    destruct Hx as [Hw Hs]. split; [lia|]. apply shiftr_0 in Hs; [assumption|lia].
  - discriminate.
Qed.

Lemma validate_bitwidth_ok w : 1 <= w -> validate_bitwidth (Some w) = Ok 0.
Proof.
  intros Hw. unfold validate_bitwidth. cbn [negb].
  replace (w =? 0) with false by lia. replace (w <? 0) with false by lia. reflexivity.
Qed.

Lemma const_model_eq r bw s :
  const_model r bw s =
  match validate_bitwidth bw with
  | Err k => Err (100 + k)
  | Ok _ => infer r bw s
  end.
Proof.
  unfold const_model. destruct (validate_bitwidth bw) as [z|k]; [|reflexivity].
  destruct (infer r bw s) as [[n w]|k] eqn:E; [|reflexivity].
  destruct (infer_ok_range r bw s n w E) as [Hw Hn].
  unfold const_postchecks. replace (n <? 0) with false by lia.
  assert (Z.shiftr n w = 0) as -> by (apply shiftr_0; [lia|assumption]). cbn [Z.eqb negb].
  rewrite validate_bitwidth_ok by assumption. reflexivity.
Qed.

(* the bitwidth argument Const accepts: absent or at least 1 *)
Lemma validate_bitwidth_spec bw :
  is_ok (validate_bitwidth bw) = match bw with None => true | Some b => 1 <=? b end.
Proof.
  destruct bw as [b|]; [|reflexivity]. unfold validate_bitwidth. cbn [negb].
  destruct (b =? 0) eqn:E0; [cbn; lia|]. destruct (b <? 0) eqn:E1; cbn; lia.
Qed.
