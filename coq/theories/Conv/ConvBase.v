(* C16 -- base definitions shared by the generated Gen/Conv.v and the hand-written models.
   No proofs here. *)
From PyRTL Require Import Base.PyZ.

(* result of a helper: a value, or the ordinal of the `raise` statement that fired *)
Inductive res (A : Type) : Type :=
| Ok (a : A)
| Err (code : Z).
Arguments Ok {A} a.
Arguments Err {A} code.

Definition is_ok {A} (r : res A) : bool := match r with Ok _ => true | Err _ => false end.
Definition res_opt {A} (r : res A) : option A := match r with Ok a => Some a | Err _ => None end.
Definition res_bind {A B} (r : res A) (f : A -> res B) : res B :=
  match r with Ok a => f a | Err k => Err k end.

(* Python len(bin(x)) - 2, for negative x too ("-0b101") *)
Definition len_bin_signed (x : Z) : Z := len_bin x + (if x <? 0 then 1 else 0).
