(* C16 -- the mathematical definitions the theorems are stated against.  No proofs. *)
From PyRTL Require Import Base.PyZ.

(* (value, bitwidth, signed) is representable:
   signed            : -2^(w-1) <= v < 2^(w-1)
   unsigned, v >= 0  : v < 2^w
   unsigned, v < 0   : the two's-complement pattern fits, -2^(w-1) <= v   (explicit width only) *)
Definition representable (v w : Z) (signed : bool) : Prop :=
  1 <= w /\
  (if signed then - 2 ^ (w - 1) <= v < 2 ^ (w - 1)
   else if 0 <=? v then v < 2 ^ w else - 2 ^ (w - 1) <= v).

Definition representableb (v w : Z) (signed : bool) : bool :=
  (1 <=? w) &&
  (if signed then (- 2 ^ (w - 1) <=? v) && (v <? 2 ^ (w - 1))
   else if 0 <=? v then v <? 2 ^ w else - 2 ^ (w - 1) <=? v).

(* signed reading of the w-bit pattern u *)
Definition signed_value (u w : Z) : Z := if u <? 2 ^ (w - 1) then u else u - 2 ^ w.
