(* C16 -- bitpattern_to_val produces a value that match_bitpattern matches and decodes back. *)
From Coq Require Import ZArith List Bool Lia ZifyBool.
From PyRTL Require Import Base.PyZ Conv.ConvBase Gen.Conv Conv.Spec Conv.Str Conv.ConvProofs.
Open Scope Z_scope.

(* number of occurrences of character c *)
Fixpoint cntZ (c : Z) (l : str) : Z :=
  match l with [] => 0 | x :: t => (if x =? c then 1 else 0) + cntZ c t end.

Lemma cntZ_nonneg c l : 0 <= cntZ c l.
Proof. induction l as [|x t IH]; cbn [cntZ]; [lia|]. destruct (x =? c); lia. Qed.

Lemma cntZ_app c a b : cntZ c (a ++ b) = cntZ c a + cntZ c b.
Proof. induction a as [|x t IH]; cbn [app cntZ]; [lia|]. rewrite IH. lia. Qed.

Lemma cntZ_rev c l : cntZ c (rev l) = cntZ c l.
Proof. induction l as [|x t IH]; [reflexivity|]. cbn [rev]. rewrite cntZ_app, IH. cbn [cntZ]. lia. Qed.

Lemma assoc_upd x c nv fm :
  assocZ x (updZ c nv fm) =
  if x =? c then match assocZ c fm with Some _ => Some nv | None => None end else assocZ x fm.
Proof.
  induction fm as [|[k' v'] t IH]; cbn [updZ assocZ].
  - destruct (x =? c); reflexivity.
  - destruct (c =? k') eqn:Ec; cbn [assocZ].
    + destruct (x =? k') eqn:Ex; destruct (x =? c) eqn:Exc; try reflexivity; lia.
    + destruct (x =? k') eqn:Ex.
      * replace (x =? c) with false by lia. reflexivity.
      * exact IH.
Qed.

Lemma pow2_succ i : 0 <= i -> 2 ^ (i + 1) = 2 * 2 ^ i.
Proof. intros. replace (i + 1) with (Z.succ i) by lia. apply Z.pow_succ_r. assumption. Qed.

Lemma pow2_succ_l i : 0 <= i -> 2 ^ (1 + i) = 2 * 2 ^ i.
Proof. intros. replace (1 + i) with (Z.succ i) by lia. apply Z.pow_succ_r. assumption. Qed.

Lemma bit_of_low v i a b : 0 <= i -> 0 <= a < 2 ^ i -> b = 0 \/ b = 1 ->
  v mod 2 ^ (i + 1) = a + b * 2 ^ i ->
  Z.testbit v i = (b =? 1) /\ v mod 2 ^ i = a.
Proof.
  intros Hi Ha Hb Hm. assert (Hp : 0 < 2 ^ i) by (apply pow2_pos; lia).
  assert (Hh : 2 ^ (i + 1) = 2 * 2 ^ i) by (apply pow2_succ; lia).
  pose proof (Z.div_mod v (2 ^ (i + 1)) ltac:(lia)) as Hd.
  set (q := v / 2 ^ (i + 1)) in *. rewrite Hm, Hh in Hd.
  assert (Hq : v / 2 ^ i = 2 * q + b).
  { symmetry. apply (Z.div_unique v (2 ^ i) (2 * q + b) a); lia. }
  split.
  - rewrite Z.testbit_eqb by lia. rewrite Hq.
    replace ((2 * q + b) mod 2) with b; [reflexivity|].
    apply (Z.mod_unique _ _ q); lia.
  - symmetry. apply (Z.mod_unique v (2 ^ i) (2 * q + b)); lia.
Qed.

Lemma land1 x : Z.land x 1 = x mod 2.
Proof. change 1 with (Z.ones 1) at 1. rewrite Z.land_ones by lia. reflexivity. Qed.

Lemma not01_neq c x : is01 c = false -> is01 x = true -> (x =? c) = false.
Proof. unfold is01. lia. Qed.

Lemma loop_spec : forall prev fm i acc v fm',
  0 <= i -> 0 <= acc < 2 ^ i ->
  b2v_loop prev fm i acc = Ok (v, fm') ->
  v mod 2 ^ i = acc
  /\ match_bits prev v i = true
  /\ ~ In 63 prev
  /\ (forall c fv k, is01 c = false -> assocZ c fm = Some fv -> 0 <= k ->
        field_val prev c v i k = (fv mod 2 ^ cntZ c prev) * 2 ^ k
        /\ assocZ c fm' = Some (Z.shiftr fv (cntZ c prev))).
Proof.
  induction prev as [|x t IH]; intros fm i acc v fm' Hi Hacc H.
  - cbn [b2v_loop] in H. inversion H; subst. repeat split.
    + apply Z.mod_small. assumption.
    + intros [].
    + cbn [field_val cntZ]. rewrite Z.pow_0_r, Z.mod_1_r. lia.
    + cbn [cntZ]. rewrite Z.shiftr_0_r. assumption.
  - cbn [b2v_loop] in H.
    assert (Hp : 0 < 2 ^ i) by (apply pow2_pos; lia).
    assert (Hh : 2 ^ (i + 1) = 2 * 2 ^ i) by (apply pow2_succ; lia).
    destruct (x =? 48) eqn:E0.
    { (* '0' *)
      destruct (IH fm (i + 1) acc v fm' ltac:(lia) ltac:(lia) H) as [Hm [Hb [Hq Hf]]].
      destruct (bit_of_low v i acc 0 Hi Hacc ltac:(lia) ltac:(lia)) as [Hbit Hlow].
      repeat split.
      - exact Hlow.
      - cbn [match_bits]. rewrite E0, Hbit, Hb. reflexivity.
      - intros [Hx|Hx]; [lia|contradiction].
      - cbn [field_val cntZ]. rewrite (not01_neq c x) by (assumption || (unfold is01; lia)).
        rewrite Z.add_0_l. apply Hf; assumption.
      - cbn [cntZ]. rewrite (not01_neq c x) by (assumption || (unfold is01; lia)).
        rewrite Z.add_0_l. apply (Hf c fv k); assumption. }
    destruct (x =? 49) eqn:E1.
    { (* '1' *)
      destruct (IH fm (i + 1) (acc + 2 ^ i) v fm' ltac:(lia) ltac:(lia) H) as [Hm [Hb [Hq Hf]]].
      destruct (bit_of_low v i acc 1 Hi Hacc ltac:(lia) ltac:(lia)) as [Hbit Hlow].
      repeat split.
      - exact Hlow.
      - cbn [match_bits]. rewrite E0, E1, Hbit, Hb. reflexivity.
      - intros [Hx|Hx]; [lia|contradiction].
      - cbn [field_val cntZ]. rewrite (not01_neq c x) by (assumption || (unfold is01; lia)).
        rewrite Z.add_0_l. apply Hf; assumption.
      - cbn [cntZ]. rewrite (not01_neq c x) by (assumption || (unfold is01; lia)).
        rewrite Z.add_0_l. apply (Hf c fv k); assumption. }
    destruct (x =? 63) eqn:E2; [discriminate|].
    destruct (assocZ x fm) as [fx|] eqn:Ex; [|discriminate].
    rewrite land1 in H.
    pose proof (Z.mod_pos_bound fx 2 ltac:(lia)) as Hb2.
    assert (Hbb : fx mod 2 = 0 \/ fx mod 2 = 1) by lia.
    assert (Hacc1 : 0 <= acc + fx mod 2 * 2 ^ i < 2 ^ (i + 1)) by (destruct Hbb as [Hz|Hz]; rewrite Hz; lia).
    destruct (IH _ (i + 1) _ v fm' ltac:(lia) Hacc1 H) as [Hm [Hb [Hq Hf]]].
    destruct (bit_of_low v i acc (fx mod 2) Hi Hacc Hbb Hm) as [Hbit Hlow].
    repeat split.
    + exact Hlow.
    + cbn [match_bits]. rewrite E0, E1, Hb. reflexivity.
    + intros [Hx|Hx]; [lia|contradiction].
    + cbn [field_val cntZ]. destruct (x =? c) eqn:Exc.
      * assert (x = c) by lia. subst c.
        assert (Ha : assocZ x (updZ x (Z.shiftr fx 1) fm) = Some (Z.shiftr fx 1))
          by (rewrite assoc_upd, Z.eqb_refl, Ex; reflexivity).
        rewrite H1 in Ex. inversion Ex; subst fv.
        destruct (Hf x _ (k + 1) H0 Ha ltac:(lia)) as [Hfv _]. rewrite Hfv, Hbit.
        pose proof (cntZ_nonneg x t) as Hn.
        rewrite Z.shiftr_div_pow2 by lia. change (2 ^ 1) with 2.
        rewrite (pow2_succ_l (cntZ x t)) by lia.
        rewrite Z.rem_mul_r by (try lia; apply pow2_pos; lia).
        rewrite (pow2_succ k) by lia.
        destruct Hbb as [Hz|Hz]; rewrite Hz; cbn [Z.eqb Pos.eqb b2z]; lia.
      * rewrite Z.add_0_l. apply Hf; [assumption| |assumption].
        rewrite assoc_upd. replace (c =? x) with false by lia. assumption.
    + cbn [cntZ]. destruct (x =? c) eqn:Exc.
      * assert (x = c) by lia. subst c.
        assert (Ha : assocZ x (updZ x (Z.shiftr fx 1) fm) = Some (Z.shiftr fx 1))
          by (rewrite assoc_upd, Z.eqb_refl, Ex; reflexivity).
        rewrite H1 in Ex. inversion Ex; subst fv.
        destruct (Hf x _ k H0 Ha H2) as [_ Hfm]. rewrite Hfm.
        rewrite Z.shiftr_shiftr by (pose proof (cntZ_nonneg x t); lia). reflexivity.
      * rewrite Z.add_0_l. apply (Hf c fv k); [assumption| |assumption].
        rewrite assoc_upd. replace (c =? x) with false by lia. assumption.
Qed.

(* ---------- letters_in_field_order ---------- *)
Lemma memZ_false c l : memZ c l = false -> ~ In c l.
Proof.
  unfold memZ. induction l as [|x t IH]; cbn [existsb]; intros H; [intros []|].
  apply orb_false_elim in H. destruct H as [Hx Ht]. intros [Hin|Hin]; [lia|]. exact (IH Ht Hin).
Qed.

Lemma field_order_props p : forall seen,
  NoDup seen -> (forall c, In c seen -> is01 c = false) ->
  NoDup (field_order p seen)
  /\ (forall c, In c (field_order p seen) -> is01 c = false /\ (In c p \/ In c seen)).
Proof.
  induction p as [|x t IH]; intros seen Hnd Hs; cbn [field_order].
  - split; [apply NoDup_rev; assumption|]. intros c Hc. apply in_rev in Hc. split; [apply Hs; assumption|right; assumption].
  - destruct (is01 x || memZ x seen) eqn:E.
    + destruct (IH seen Hnd Hs) as [H1 H2]. split; [assumption|].
      intros c Hc. destruct (H2 c Hc) as [Ha [Hb|Hb]]; (split; [assumption|]); [left; right; assumption|right; assumption].
    + apply orb_false_elim in E. destruct E as [E1 E2].
      assert (Hnd' : NoDup (x :: seen)) by (constructor; [apply memZ_false; assumption|assumption]).
      assert (Hs' : forall c, In c (x :: seen) -> is01 c = false) by (intros c [<-|Hc]; [assumption|apply Hs; assumption]).
      destruct (IH (x :: seen) Hnd' Hs') as [H1 H2]. split; [assumption|].
      intros c Hc. destruct (H2 c Hc) as [Ha [Hb|[Hb|Hb]]]; (split; [assumption|]).
      * left; right; assumption.
      * left; left; assumption.
      * right; assumption.
Qed.

Lemma assoc_combine : forall (ks vs : list Z) (c f : Z),
  NoDup ks -> In (c, f) (combine ks vs) -> assocZ c (combine ks vs) = Some f.
Proof.
  induction ks as [|k t IH]; intros [|v vs] c f Hnd Hin; try contradiction.
  cbn [combine assocZ] in *. inversion Hnd as [|? ? Hk Ht]; subst.
  destruct Hin as [Heq|Hin].
  - inversion Heq; subst. rewrite Z.eqb_refl. reflexivity.
  - destruct (c =? k) eqn:E.
    + assert (c = k) by lia. subst c. exfalso. apply Hk. eapply in_combine_l. exact Hin.
    + apply IH; assumption.
Qed.

Lemma map_fst_combine {A B} : forall (a : list A) (b : list B),
  length a = length b -> map fst (combine a b) = a.
Proof.
  induction a as [|x t IH]; intros [|y u] H; try reflexivity; try discriminate.
  cbn [combine map fst]. f_equal. apply IH. cbn [length] in H. lia.
Qed.

Lemma filter_id {A} (f : A -> bool) l : (forall x, In x l -> f x = true) -> filter f l = l.
Proof.
  induction l as [|x t IH]; intros H; [reflexivity|]. cbn [filter].
  rewrite (H x (or_introl eq_refl)). f_equal. apply IH. intros y Hy. apply H. right. assumption.
Qed.

(* ---------- the round trip ---------- *)
(* what match_bitpattern must decode: every field reduced to its number of pattern positions *)
Definition decoded_fields (p : str) (fields : list Z) : list Z :=
  map (fun cf => snd cf mod 2 ^ cntZ (fst cf) p) (combine (field_order p []) fields).

Lemma bitpattern_roundtrip p fields v :
  bitpattern_to_val p fields = Ok v -> nospace p = p ->
  match_bitpattern v p = (true, decoded_fields p fields).
Proof.
  intros H Hns. unfold bitpattern_to_val in H.
  destruct p as [|p0 pt] eqn:Ep; [discriminate|]. rewrite <- Ep in *. clear Ep p0 pt.
  set (lifo := field_order p []) in *.
  destruct (negb (Nat.eqb (length lifo) (length fields))) eqn:El; [discriminate|].
  apply negb_false_iff, Nat.eqb_eq in El.
  destruct (b2v_loop (rev p) (combine lifo fields) 0 0) as [[v0 fm']|k] eqn:Eloop; [|discriminate].
  destruct (forallb _ fm'); [|discriminate]. inversion H; subst v0. clear H.
  destruct (loop_spec _ _ 0 0 v fm' ltac:(lia) ltac:(simpl; lia) Eloop) as [_ [Hmatch [Hq Hf]]].
  destruct (field_order_props p [] (NoDup_nil _) ltac:(intros c [])) as [Hnd Hin]. fold lifo in Hnd, Hin.
  unfold match_bitpattern, decoded_fields. rewrite Hns. rewrite Hmatch. f_equal.
  assert (Hnames : field_names p = lifo).
  { unfold field_names. fold lifo. apply filter_id. intros c Hc.
    destruct (c =? 63) eqn:E; [|reflexivity]. exfalso. assert (c = 63) by lia. subst c.
    destruct (Hin 63 Hc) as [_ [Hp|[]]]. apply Hq. apply in_rev. rewrite rev_involutive. assumption. }
  rewrite Hnames. fold lifo.
  rewrite <- (map_fst_combine lifo fields El) at 1. rewrite map_map.
  apply map_ext_in. intros [c f] Hcf. cbn [fst snd].
  assert (Hc : In c lifo) by (eapply in_combine_l; exact Hcf).
  destruct (Hin c Hc) as [H01 _].
  destruct (Hf c f 0 H01 (assoc_combine _ _ _ _ Hnd Hcf) ltac:(lia)) as [Hv _].
  rewrite Hv, cntZ_rev. rewrite Z.pow_0_r. lia.
Qed.

(* non-negative fields come back unchanged *)
Lemma bitpattern_roundtrip_nonneg p fields v :
  bitpattern_to_val p fields = Ok v -> nospace p = p -> Forall (fun f => 0 <= f) fields ->
  match_bitpattern v p = (true, fields).
Proof.
  intros H Hns Hpos. rewrite (bitpattern_roundtrip p fields v H Hns). f_equal.
  unfold bitpattern_to_val in H.
  destruct p as [|p0 pt] eqn:Ep; [discriminate|]. rewrite <- Ep in *. clear Ep p0 pt.
  set (lifo := field_order p []) in *.
  destruct (negb (Nat.eqb (length lifo) (length fields))) eqn:El; [discriminate|].
  apply negb_false_iff, Nat.eqb_eq in El.
  destruct (b2v_loop (rev p) (combine lifo fields) 0 0) as [[v0 fm']|k] eqn:Eloop; [|discriminate].
  destruct (forallb (fun kv => (snd kv =? 0) || (snd kv =? -1)) fm') eqn:Efa; [|discriminate]. clear H.
  destruct (loop_spec _ _ 0 0 v0 fm' ltac:(lia) ltac:(simpl; lia) Eloop) as [_ [_ [_ Hf]]].
  destruct (field_order_props p [] (NoDup_nil _) ltac:(intros c [])) as [Hnd Hin]. fold lifo in Hnd, Hin.
  unfold decoded_fields. fold lifo.
  assert (Hsnd : map snd (combine lifo fields) = fields).
  { clear -El. revert fields El. induction lifo as [|x t IH]; intros [|y u] H; try reflexivity; try discriminate.
    cbn [combine map snd]. f_equal. apply IH. cbn [length] in H. lia. }
  rewrite <- Hsnd at 2. apply map_ext_in. intros [c f] Hcf. cbn [fst snd].
  assert (Hc : In c lifo) by (eapply in_combine_l; exact Hcf).
  assert (Hfl : In f fields) by (eapply in_combine_r; exact Hcf).
  destruct (Hin c Hc) as [H01 _].
  destruct (Hf c f 0 H01 (assoc_combine _ _ _ _ Hnd Hcf) ltac:(lia)) as [_ Hfm].
  rewrite cntZ_rev in Hfm. rewrite forallb_forall in Efa.
  (* the remaining value of the field is 0 or -1; it is non-negative, hence 0 *)
  assert (Hrem : Z.shiftr f (cntZ c p) = 0 \/ Z.shiftr f (cntZ c p) = -1).
  { assert (Hinfm : In (c, Z.shiftr f (cntZ c p)) fm').
    { clear -Hfm. induction fm' as [|[k' v'] t IH]; [discriminate|]. cbn [assocZ] in Hfm.
      destruct (c =? k') eqn:E; [inversion Hfm; left; f_equal; lia|right; apply IH; assumption]. }
    specialize (Efa _ Hinfm). cbn [snd] in Efa. lia. }
  rewrite Forall_forall in Hpos. specialize (Hpos f Hfl).
  pose proof (cntZ_nonneg c p) as Hn.
  assert (Z.shiftr f (cntZ c p) = 0).
  { destruct Hrem as [|Hm1]; [assumption|]. pose proof (Z.shiftr_nonneg f (cntZ c p)) as [_ Hx]. specialize (Hx Hpos). lia. }
  apply shiftr_0 in H; [|assumption]. apply Z.mod_small. assumption.
Qed.

(* ====================================================================================== *)
(* What the value-level match_bitpattern means, declaratively *)

(* matched = every '0' position holds a 0 bit and every '1' position holds a 1 bit *)
Lemma match_bits_spec v : forall prev i,
  match_bits prev v i = true <->
  (forall j c, nth_error prev j = Some c ->
     (c = 48 -> Z.testbit v (i + Z.of_nat j) = false) /\ (c = 49 -> Z.testbit v (i + Z.of_nat j) = true)).
Proof.
  induction prev as [|x t IH]; intros i; cbn [match_bits].
  - split; [intros _ j c H; destruct j; discriminate|reflexivity].
  - rewrite andb_true_iff, IH. split.
    + intros [Hx Ht] j c Hj. destruct j as [|j]; cbn [nth_error] in Hj.
      * inversion Hj; subst c. rewrite Z.add_0_r. split; intros ->; cbn [Z.eqb Pos.eqb] in Hx.
        -- destruct (Z.testbit v i); [discriminate|reflexivity].
        -- exact Hx.
      * replace (i + Z.of_nat (S j)) with (i + 1 + Z.of_nat j) by lia. apply Ht. assumption.
    + intros H. split.
      * destruct (H 0%nat x eq_refl) as [H0 H1]. rewrite Z.add_0_r in *.
        destruct (x =? 48) eqn:E0; [rewrite H0 by lia; reflexivity|].
        destruct (x =? 49) eqn:E1; [apply H1; lia|reflexivity].
      * intros j c Hj. replace (i + 1 + Z.of_nat j) with (i + Z.of_nat (S j)) by lia. apply H. assumption.
Qed.

(* ====================================================================================== *)
(* The converse round trip: packing the fields match_bitpattern decoded from a matching value
   gives that value back. *)

(* bits i .. i+n-1 of v *)
Definition hi (v i n : Z) : Z := (v / 2 ^ i) mod 2 ^ n.

Lemma hi_0 v i : hi v i 0 = 0.
Proof. unfold hi. rewrite Z.pow_0_r. apply Z.mod_1_r. Qed.

Lemma hi_succ v i n : 0 <= i -> 0 <= n -> hi v i (n + 1) = b2z (Z.testbit v i) + 2 * hi v (i + 1) n.
Proof.
  intros Hi Hn. unfold hi. rewrite (pow2_succ n) by assumption.
  assert (Hp : 0 < 2 ^ n) by (apply pow2_pos; assumption).
  assert (Hq : 0 < 2 ^ i) by (apply pow2_pos; assumption).
  rewrite Z.rem_mul_r by lia.
  rewrite (pow2_succ i) by assumption.
  rewrite (Z.mul_comm 2 (2 ^ i)). rewrite <- Z.div_div by lia.
  rewrite Z.testbit_eqb by assumption.
  pose proof (Z.mod_pos_bound (v / 2 ^ i) 2 ltac:(lia)) as Hb.
  destruct (Z.eqb_spec ((v / 2 ^ i) mod 2) 1) as [E|E]; cbn [b2z]; lia.
Qed.

Lemma field_val_scale c v : forall prev i k, 0 <= k ->
  field_val prev c v i (k + 1) = 2 * field_val prev c v i k.
Proof.
  induction prev as [|x t IH]; intros i k Hk; cbn [field_val]; [lia|].
  destruct (x =? c).
  - rewrite IH by lia. rewrite (pow2_succ k) by assumption. lia.
  - apply IH. assumption.
Qed.

Lemma map_fst_updZ k nv fm : map fst (updZ k nv fm) = map fst fm.
Proof.
  induction fm as [|[k' v'] t IH]; [reflexivity|]. cbn [updZ]. destruct (k =? k'); cbn [map fst]; [reflexivity|].
  rewrite IH. reflexivity.
Qed.

Lemma loop_converse v : forall prev fm i acc,
  0 <= i ->
  match_bits prev v i = true -> ~ In 63 prev ->
  (forall c fv, assocZ c fm = Some fv -> is01 c = false /\ fv = field_val prev c v i 0) ->
  (forall c, In c prev -> is01 c = false -> assocZ c fm <> None) ->
  exists fm', b2v_loop prev fm i acc = Ok (acc + 2 ^ i * hi v i (Z.of_nat (length prev)), fm')
     /\ map fst fm' = map fst fm
     /\ (forall c fv, assocZ c fm' = Some fv -> fv = 0).
Proof.
  induction prev as [|x t IH]; intros fm i acc Hi Hm Hq Hfm Hkeys.
  - exists fm. cbn [b2v_loop length Z.of_nat]. rewrite hi_0. split; [f_equal; f_equal; lia|].
    split; [reflexivity|]. intros c fv H. destruct (Hfm c fv H) as [_ ->]. reflexivity.
  - cbn [match_bits] in Hm. apply andb_true_iff in Hm. destruct Hm as [Hx Hm].
    assert (Hq' : ~ In 63 t) by (intro; apply Hq; right; assumption).
    assert (Hx63 : (x =? 63) = false) by (destruct (x =? 63) eqn:E; [exfalso; apply Hq; left; lia|reflexivity]).
    cbn [b2v_loop length]. rewrite Nat2Z.inj_succ. replace (Z.succ (Z.of_nat (length t))) with (Z.of_nat (length t) + 1) by lia.
    rewrite hi_succ by lia.
    destruct (x =? 48) eqn:E0.
    { assert (Hb : Z.testbit v i = false) by (destruct (Z.testbit v i); [discriminate|reflexivity]).
      destruct (IH fm (i + 1) acc ltac:(lia) Hm Hq') as [fm' [E [Hk Hz]]].
      - intros c fv H. destruct (Hfm c fv H) as [H01 ->]. split; [assumption|].
        cbn [field_val]. rewrite (not01_neq c x) by (assumption || (unfold is01; lia)). reflexivity.
      - intros c Hc. apply Hkeys. right. assumption.
      - exists fm'. rewrite E, Hb. cbn [b2z]. rewrite (pow2_succ i) by assumption. split; [f_equal; f_equal; lia|]. auto. }
    destruct (x =? 49) eqn:E1.
    { assert (Hb : Z.testbit v i = true) by exact Hx.
      destruct (IH fm (i + 1) (acc + 2 ^ i) ltac:(lia) Hm Hq') as [fm' [E [Hk Hz]]].
      - intros c fv H. destruct (Hfm c fv H) as [H01 ->]. split; [assumption|].
        cbn [field_val]. rewrite (not01_neq c x) by (assumption || (unfold is01; lia)). reflexivity.
      - intros c Hc. apply Hkeys. right. assumption.
      - exists fm'. rewrite E, Hb. cbn [b2z]. rewrite (pow2_succ i) by assumption. split; [f_equal; f_equal; lia|]. auto. }
    rewrite Hx63.
    assert (Hx01 : is01 x = false) by (unfold is01; lia).
    destruct (assocZ x fm) as [fx|] eqn:Ex; [|exfalso; apply (Hkeys x (or_introl eq_refl) Hx01); assumption].
    destruct (Hfm x fx Ex) as [_ Hfx]. cbn [field_val] in Hfx. rewrite Z.eqb_refl in Hfx.
    rewrite (field_val_scale x v t (i + 1) 0) in Hfx by lia. rewrite Z.pow_0_r, Z.mul_1_r in Hfx.
    set (F := field_val t x v (i + 1) 0) in *. set (b := b2z (Z.testbit v i)) in *.
    assert (Hb : b = 0 \/ b = 1) by (unfold b; destruct (Z.testbit v i); cbn; lia).
    assert (Hland : Z.land fx 1 = b).
    { rewrite land1, Hfx. symmetry. apply (Z.mod_unique _ _ F); lia. }
    assert (Hshr : Z.shiftr fx 1 = F).
    { rewrite Z.shiftr_div_pow2 by lia. change (2 ^ 1) with 2. rewrite Hfx. symmetry.
      apply (Z.div_unique _ _ F b); lia. }
    rewrite Hland, Hshr.
    destruct (IH (updZ x F fm) (i + 1) (acc + b * 2 ^ i) ltac:(lia) Hm Hq') as [fm' [E [Hk Hz]]].
    + intros c fv H. rewrite assoc_upd in H. destruct (c =? x) eqn:Ecx.
      * assert (c = x) by lia. subst c. rewrite Ex in H. inversion H; subst fv. split; [assumption|reflexivity].
      * destruct (Hfm c fv H) as [H01 ->]. split; [assumption|].
        cbn [field_val]. replace (x =? c) with false by lia. reflexivity.
    + intros c Hc H01. rewrite assoc_upd. destruct (c =? x) eqn:Ecx.
      * rewrite Ex. discriminate.
      * apply Hkeys; [right; assumption|assumption].
    + exists fm'. rewrite E. rewrite (pow2_succ i) by assumption. split; [f_equal; f_equal; lia|].
      split; [rewrite Hk; apply map_fst_updZ|assumption].
Qed.

Lemma memZ_true c l : memZ c l = true -> In c l.
Proof.
  unfold memZ. induction l as [|x t IH]; cbn [existsb]; [discriminate|]. intros H.
  apply orb_true_iff in H. destruct H as [H|H]; [left; lia|right; apply IH; assumption].
Qed.

Lemma field_order_complete : forall p seen c,
  In c p \/ In c seen -> is01 c = false -> In c (field_order p seen).
Proof.
  induction p as [|x t IH]; intros seen c H H01; cbn [field_order].
  - destruct H as [[]|H]. apply in_rev in H. assumption.
  - destruct (is01 x || memZ x seen) eqn:E.
    + apply IH; [|assumption]. destruct H as [[->|H]|H]; auto.
      apply orb_true_iff in E. destruct E as [E|E]; [congruence|]. right. apply memZ_true. assumption.
    + apply IH; [|assumption]. destruct H as [[->|H]|H]; [right; left; reflexivity|left; assumption|right; right; assumption].
Qed.

Lemma assoc_combine_map (f : Z -> Z) : forall l c,
  (In c l -> assocZ c (combine l (map f l)) = Some (f c)) /\
  (forall fv, assocZ c (combine l (map f l)) = Some fv -> In c l /\ fv = f c).
Proof.
  induction l as [|x t IH]; intros c; cbn [map combine assocZ].
  - split; [intros []|discriminate].
  - destruct (c =? x) eqn:E.
    + assert (c = x) by lia. subst. split; [reflexivity|]. intros fv H. inversion H. split; [left; reflexivity|reflexivity].
    + destruct (IH c) as [H1 H2]. split.
      * intros [->|H]; [lia|apply H1; assumption].
      * intros fv H. destruct (H2 fv H). split; [right; assumption|assumption].
Qed.

Lemma assoc_of_in : forall (l : list (Z * Z)) k v, NoDup (map fst l) -> In (k, v) l -> assocZ k l = Some v.
Proof.
  induction l as [|[k' v'] t IH]; intros k v Hnd Hin; [contradiction|].
  cbn [map fst] in Hnd. inversion Hnd as [|? ? Hk Ht]; subst. cbn [assocZ].
  destruct Hin as [Heq|Hin].
  - inversion Heq; subst. rewrite Z.eqb_refl. reflexivity.
  - destruct (k =? k') eqn:E.
    + assert (k = k') by lia. subst. exfalso. apply Hk. apply in_map_iff. exists (k', v). split; [reflexivity|assumption].
    + apply IH; assumption.
Qed.

Lemma match_then_pack p v :
  p <> [] -> nospace p = p -> ~ In 63 p -> 0 <= v < 2 ^ Z.of_nat (length p) ->
  fst (match_bitpattern v p) = true ->
  bitpattern_to_val p (snd (match_bitpattern v p)) = Ok v.
Proof.
  intros Hne Hns Hq Hv Hm. unfold match_bitpattern in *. rewrite Hns in *. cbn [fst snd] in *.
  unfold bitpattern_to_val. destruct p as [|p0 pt] eqn:Ep; [contradiction|]. rewrite <- Ep in *. clear Ep p0 pt Hne.
  destruct (field_order_props p [] (NoDup_nil _) ltac:(intros c [])) as [Hnd Hin].
  set (lifo := field_order p []) in *.
  assert (Hnames : field_names p = lifo).
  { unfold field_names. fold lifo. apply filter_id. intros c Hc.
    destruct (c =? 63) eqn:E; [|reflexivity]. exfalso. assert (c = 63) by lia. subst c.
    destruct (Hin 63 Hc) as [_ [Hp|[]]]. contradiction. }
  rewrite Hnames. set (f := fun c => field_val (rev p) c v 0 0).
  rewrite map_length, Nat.eqb_refl. cbn [negb].
  destruct (loop_converse v (rev p) (combine lifo (map f lifo)) 0 0 ltac:(lia) Hm) as [fm' [E [Hk Hz]]].
  - intro H. apply Hq. apply in_rev. assumption.
  - intros c fv H. destruct (proj2 (assoc_combine_map f lifo c) fv H) as [Hc ->].
    split; [apply (Hin c Hc)|reflexivity].
  - intros c Hc H01. rewrite (proj1 (assoc_combine_map f lifo c)); [discriminate|].
    apply field_order_complete; [left; apply in_rev; assumption|assumption].
  - rewrite E. rewrite rev_length.
    assert (Hall : forallb (fun kv => (snd kv =? 0) || (snd kv =? -1)) fm' = true).
    { apply forallb_forall. intros [k fv] Hkv. cbn [snd].
      assert (Hnd' : NoDup (map fst fm')).
      { rewrite Hk. rewrite map_fst_combine by (rewrite map_length; reflexivity). assumption. }
      rewrite (Hz k fv (assoc_of_in fm' k fv Hnd' Hkv)). reflexivity. }
    rewrite Hall. f_equal. unfold hi. rewrite Z.pow_0_r, Z.div_1_r. rewrite Z.mod_small by assumption. lia.
Qed.
