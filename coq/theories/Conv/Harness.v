(* C16 -- bulk evaluators used by py/checks/C16.py through vm_compute.  No proofs. *)
From PyRTL Require Import Base.PyZ Conv.ConvBase Gen.Conv Conv.Str.

Definition both {A} (f : bool -> res A) : list (option A) := [res_opt (f false); res_opt (f true)].

Definition h_int (vs : list Z) (ws : list (option Z)) :=
  map (fun v => map (fun w => both (convert_int v w)) ws) vs.
Definition h_bool (ws : list (option Z)) :=
  map (fun b => map (fun w => both (convert_bool b w)) ws) [false; true].
Definition h_str (ss : list str) (ws : list (option Z)) :=
  map (fun s => map (fun w => both (verilog_str s w)) ws) ss.
Definition h_const_int (vs : list Z) (ws : list (option Z)) :=
  map (fun v => map (fun w => both (const_model (RInt v) w)) ws) vs.
Definition h_const_str (ss : list str) (ws : list (option Z)) :=
  map (fun s => map (fun w => both (const_model (RStr s) w)) ws) ss.
Definition h_const_bool (ws : list (option Z)) :=
  map (fun b => map (fun w => both (const_model (RBool b) w)) ws) [false; true].
Definition h_vts (vs ws : list Z) :=
  map (fun v => map (fun w => res_opt (val_to_signed_integer v w)) ws) vs.
Definition h_twos (vs ws : list Z) :=
  map (fun v => map (fun w => (res_opt (twos_comp_repr v w), res_opt (rev_twos_comp_repr v w))) ws) vs.
Definition h_to_str (vs : list Z) (fs : list str) (e : list (str * list (str * Z))) :=
  map (fun v => map (fun f => res_opt (val_to_formatted_str v f e)) fs) vs.
Definition h_to_val (ds : list str) (fs : list str) (e : list (str * list (str * Z))) :=
  map (fun d => map (fun f => res_opt (formatted_str_to_val d f e)) fs) ds.
Definition h_b2v (cs : list (str * list (list Z))) :=
  map (fun c => map (fun fl => res_opt (bitpattern_to_val (fst c) fl)) (snd c)) cs.
Definition h_match (cs : list (str * list Z)) :=
  map (fun c => map (fun v => match_bitpattern v (fst c)) (snd c)) cs.
Definition h_pystr (vs : list Z) := map (fun v => (py_str v, py_bin2 v, py_hex2 v)) vs.
Definition h_pyint (base : Z) (ss : list str) := map (py_int base) ss.
