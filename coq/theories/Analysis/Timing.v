(* C17 -- executable model of pyrtl/analysis.py TimingAnalysis
   (_generate_timing_map, max_length, critical_path).  Definitions only: the
   harness evaluates this file, proofs live in TimingProofs.v.

   Delays are integers (Z): the property is graph-theoretic; the float rounding
   of the default log-based delay table is abstracted (the correspondence check
   drives the real code with integer gate_delay_funcs, which floats represent
   exactly).  `dl : net -> Z` is the delay the code computes for a gate,
        gate_delay_funcs[op](len(args[0]))      (op <> 'm')
        gate_delay_funcs['m'](op_param[1])      (op = 'm')
   and a negative delay makes the code `continue` (the gate ends every path). *)
From PyRTL Require Export Netlist.WFDefs.

(* Python dict with insertion order: d[k] = v replaces in place or appends *)
Fixpoint dset (l : list (wid * Z)) (k : wid) (v : Z) : list (wid * Z) :=
  match l with
  | [] => [(k, v)]
  | (k', v') :: r => if k' =? k then (k, v) :: r else (k', v') :: dset r k v
  end.

(* timing_map[w]; a missing key is a KeyError in the code, 0 in the model
   (never reached on a netlist satisfying wfb when only r/@ have negative delay) *)
Definition tval (tm : list (wid * Z)) (w : wid) : Z := assoc_d tm w 0.

(* Python max() of a non-empty sequence *)
Definition maxl (l : list Z) : Z :=
  match l with
  | [] => 0
  | x :: r => fold_left Z.max r x
  end.

Section Timing.
Variable nl : netlist.
Variable dl : net -> Z.

(* cleared = wirevector_subset((Input, Const, Register)); timing_map = {w: 0 ...} *)
Definition tm0 : list (wid * Z) := map (fun w => (w, 0)) (rdy0 nl).

(* body of `for _gate in self.block` *)
Definition tm_step (tm : list (wid * Z)) (n : net) : list (wid * Z) :=
  if dl n <? 0 then tm
  else dset tm (ndest n) (maxl (map (tval tm) (nargs n)) + dl n).

Definition timing_from (tm : list (wid * Z)) (ns : list net) : list (wid * Z) :=
  fold_left tm_step ns tm.

Definition timing_map : list (wid * Z) := timing_from tm0 (nets nl).

(* max(self.timing_map.values()) *)
Definition max_length : Z := maxl (map snd timing_map).

(* wire_src_map[w]: the net with w among its dests ('@' nets have no dests) *)
Definition has_dest (n : net) : bool :=
  match nop n with OpMemWr _ => false | _ => true end.

Fixpoint find_src (ns : list net) (w : wid) : option net :=
  match ns with
  | [] => None
  | n :: r => if has_dest n && (ndest n =? w) then Some n else find_src r w
  end.

(* critical_path_pass; the state is (critical_paths, _TooManyCPsError raised).
   Note that the limit is only tested at non-source wires, exactly as in the
   code, so the result may hold more than cp_limit paths. *)
Section CP.
Variable tm : list (wid * Z).
Variable cp_limit : Z.

Definition cp_state := (list (wid * list net) * bool)%type.

Fixpoint cp_pass (fuel : nat) (st : cp_state) (path : list net) (w : wid) : cp_state :=
  match fuel with
  | O => st
  | S f =>
    if snd st then st
    else if is_base nl w then (fst st ++ [(w, path)], false)
    else if cp_limit <=? Z.of_nat (length (fst st)) then (fst st, true)
    else match find_src (nets nl) w with
         | None => st
         | Some s =>
           let path' := s :: path in
           let m := maxl (map (tval tm) (nargs s)) in
           fold_left (fun st' a => if tval tm a =? m then cp_pass f st' path' a else st')
                     (nargs s) st
         end
  end.

Definition cp_top (fuel : nat) (mx : Z) : cp_state :=
  fold_left (fun st (wt : wid * Z) => if snd wt =? mx then cp_pass fuel st [] (fst wt) else st)
            tm ([], false).
End CP.

(* The same back-tracking without the limit and without the exception: the
   enumeration critical_path performs when cp_limit is never reached.  Used only
   to STATE what the limited version returns (a prefix of this list). *)
Section CPAll.
Variable tm : list (wid * Z).

Fixpoint cp_enum (fuel : nat) (path : list net) (w : wid) : list (wid * list net) :=
  match fuel with
  | O => []
  | S f =>
    if is_base nl w then [(w, path)]
    else match find_src (nets nl) w with
         | None => []
         | Some s =>
           let m := maxl (map (tval tm) (nargs s)) in
           flat_map (fun a => if tval tm a =? m then cp_enum f (s :: path) a else []) (nargs s)
         end
  end.

Definition cp_enum_top (fuel : nat) (mx : Z) : list (wid * list net) :=
  flat_map (fun wt : wid * Z => if snd wt =? mx then cp_enum fuel [] (fst wt) else []) tm.
End CPAll.

Definition cp_fuel : nat := S (length (nets nl)).

Definition critical_paths_all : list (wid * list net) :=
  cp_enum_top timing_map cp_fuel max_length.

Definition critical_path (cp_limit : Z) : list (wid * list net) :=
  fst (cp_top timing_map cp_limit cp_fuel max_length).

End Timing.

(* ---- the integer delay tables the correspondence check uses -------------- *)

Definition opcode (o : op) : Z :=
  match o with
  | OpW => 0 | OpNot => 1 | OpAnd => 2 | OpOr => 3 | OpXor => 4 | OpNand => 5
  | OpAdd => 6 | OpSub => 7 | OpMul => 8 | OpLt => 9 | OpGt => 10 | OpEq => 11
  | OpMux => 12 | OpConcat => 13 | OpSelect _ => 14 | OpReg => 15
  | OpMemRd _ => 16 | OpMemWr _ => 17
  end.

(* what the code passes to the delay function *)
Definition delay_arg (nl : netlist) (n : net) : Z :=
  match nop n with
  | OpMemRd m => m
  | _ => width_of nl (arg n 0)
  end.

Fixpoint tab_get (tab : list (Z * (Z * Z))) (k : Z) : Z * Z :=
  match tab with
  | [] => (0, 0)
  | (k', ab) :: r => if k' =? k then ab else tab_get r k
  end.

(* gate_delay_funcs[op] = lambda x: a + b * x   (x = width of args[0], or memid for 'm') *)
Definition tab_delay (tab : list (Z * (Z * Z))) (nl : netlist) (n : net) : Z :=
  let ab := tab_get tab (opcode (nop n)) in
  fst ab + snd ab * delay_arg nl n.
