(* C17 -- proofs about Analysis/Timing.v against Analysis/PathSpec.v *)
From PyRTL Require Import Analysis.PathSpec.
From Coq Require Import ZifyBool.

(* ---------- small list / dict facts ---------- *)

Lemma mem_in_iff w l : mem_in w l = true <-> In w l.
Proof.
  unfold mem_in. rewrite existsb_exists. split.
  - intros [x [Hx E]]. apply Z.eqb_eq in E. subst. exact Hx.
  - intro H. exists w. split; [exact H | apply Z.eqb_refl].
Qed.

Lemma assoc_dset_same l k v : assoc (dset l k v) k = Some v.
Proof.
  induction l as [|[k' v'] r IH]; cbn [dset assoc].
  - rewrite Z.eqb_refl. reflexivity.
  - destruct (k' =? k) eqn:E; cbn [assoc].
    + rewrite Z.eqb_refl. reflexivity.
    + rewrite E. exact IH.
Qed.

Lemma assoc_dset_other l k k' v : k <> k' -> assoc (dset l k v) k' = assoc l k'.
Proof.
  intro H. induction l as [|[k0 v0] r IH]; cbn [dset assoc].
  - destruct (k =? k') eqn:E; [lia | reflexivity].
  - destruct (k0 =? k) eqn:E; cbn [assoc].
    + apply Z.eqb_eq in E. subst k0.
      destruct (k =? k') eqn:E2; [lia | reflexivity].
    + destruct (k0 =? k'); [reflexivity | exact IH].
Qed.

Lemma dset_fresh l k v : assoc l k = None -> dset l k v = l ++ [(k, v)].
Proof.
  induction l as [|[k0 v0] r IH]; cbn [dset assoc app]; intro H.
  - reflexivity.
  - destruct (k0 =? k) eqn:E; [discriminate|]. rewrite IH by exact H. reflexivity.
Qed.

Lemma fold_max_ge r : forall x, x <= fold_left Z.max r x /\
  forall y, In y r -> y <= fold_left Z.max r x.
Proof.
  induction r as [|z r IH]; intro x; cbn [fold_left].
  - split; [lia | intros y []].
  - destruct (IH (Z.max x z)) as [H1 H2]. split; [lia|].
    intros y [->|Hy]; [lia | apply H2; exact Hy].
Qed.

Lemma fold_max_in r : forall x, In (fold_left Z.max r x) (x :: r).
Proof.
  induction r as [|z r IH]; intro x; cbn [fold_left].
  - left. reflexivity.
  - destruct (IH (Z.max x z)) as [H|H].
    + destruct (Z.max_spec x z) as [[_ E]|[_ E]]; rewrite E in *.
      * right. left. exact H.
      * left. exact H.
    + right. right. exact H.
Qed.

Lemma maxl_ge l x : In x l -> x <= maxl l.
Proof.
  destruct l as [|y r]; [intros []|]. cbn [maxl].
  destruct (fold_max_ge r y) as [H1 H2]. intros [->|H]; [exact H1 | apply H2; exact H].
Qed.

Lemma maxl_in l : l <> [] -> In (maxl l) l.
Proof. destruct l as [|y r]; [congruence|]. intros _. apply fold_max_in. Qed.

Lemma is_base_wire nl w : is_base nl w = true -> In w (map wname (wires nl)).
Proof.
  unfold is_base. generalize (wires nl). intro ws.
  induction ws as [|x r IH]; cbn [find_wire]; [discriminate|].
  destruct (wname x =? w) eqn:E.
  - intros _. left. lia.
  - intro H. right. apply IH. exact H.
Qed.

Lemma rdy0_iff nl w : In w (rdy0 nl) <-> is_base nl w = true.
Proof.
  unfold rdy0. rewrite filter_In. split.
  - intros [_ H]. exact H.
  - intro H. split; [apply is_base_wire; exact H | exact H].
Qed.

(* ---------- the weight-only view of register-free source paths ---------- *)
Section TP.
Variable nl : netlist.
Variable dl : net -> Z.

Inductive rpath_in (S : list net) : wid -> Z -> Prop :=
| ri_src w : is_base nl w = true -> rpath_in S w 0
| ri_step n a t : In n S -> 0 <= dl n -> In a (nargs n) ->
    rpath_in S a t -> rpath_in S (ndest n) (t + dl n).

Lemma rpath_in_mono S S' w t :
  (forall n, In n S -> In n S') -> rpath_in S w t -> rpath_in S' w t.
Proof.
  intros Hs H. induction H as [w Hb | n a t Hn Hd Ha _ IH].
  - apply ri_src. exact Hb.
  - apply ri_step with (a := a); auto.
Qed.

Lemma rpath_in_skip S n w t :
  dl n < 0 -> rpath_in (S ++ [n]) w t -> rpath_in S w t.
Proof.
  intros Hn H. induction H as [w Hb | n' a t Hn' Hd Ha _ IH].
  - apply ri_src. exact Hb.
  - apply in_app_or in Hn'. destruct Hn' as [Hn'|[<-|[]]]; [|lia].
    apply ri_step with (a := a); auto.
Qed.

(* list form <-> weight form *)
Lemma cpath_snoc w0 p a n :
  cpath nl dl w0 p a -> In n (nets nl) -> 0 <= dl n -> In a (nargs n) ->
  cpath nl dl w0 (p ++ [n]) (ndest n).
Proof.
  intros H Hn Hd Ha. induction H as [w | w n' p w' Hn' Hd' Hw _ IH]; cbn [app].
  - apply cp_cons; auto. apply cp_nil.
  - apply cp_cons; auto.
Qed.

Lemma wsum_app p q : wsum dl (p ++ q) = wsum dl p + wsum dl q.
Proof.
  unfold wsum. induction p as [|n p IH]; cbn [app map fold_right]; lia.
Qed.

Lemma rpath_to_cpath w t :
  rpath_in (nets nl) w t ->
  exists w0 p, is_base nl w0 = true /\ cpath nl dl w0 p w /\ wsum dl p = t.
Proof.
  intro H. induction H as [w Hb | n a t Hn Hd Ha _ IH].
  - exists w, []. split; [exact Hb|]. split; [apply cp_nil | reflexivity].
  - destruct IH as [w0 [p [Hb [Hp Hs]]]]. exists w0, (p ++ [n]).
    split; [exact Hb|]. split; [apply cpath_snoc with (a := a); auto|].
    rewrite wsum_app. unfold wsum in *. cbn [map fold_right]. lia.
Qed.

Lemma cpath_to_rpath w p w' :
  cpath nl dl w p w' -> forall t, rpath_in (nets nl) w t ->
  rpath_in (nets nl) w' (t + wsum dl p).
Proof.
  intro H. induction H as [w | w n p w' Hn Hd Hw _ IH]; intros t Ht.
  - unfold wsum. cbn [map fold_right]. replace (t + 0) with t by lia. exact Ht.
  - replace (t + wsum dl (n :: p)) with ((t + dl n) + wsum dl p)
      by (unfold wsum; cbn [map fold_right]; lia).
    apply IH. apply ri_step with (a := w); auto.
Qed.

(* ---------- the invariant of the pass over the topological order ---------- *)
Record Inv (done : list net) (rdy : list wid) (tm : list (wid * Z)) : Prop := {
  inv_dom : forall w, In w rdy <-> exists t, assoc tm w = Some t;
  inv_opt : forall w t, assoc tm w = Some t ->
              rpath_in done w t /\ forall t', rpath_in done w t' -> t' <= t;
  inv_rdy : forall w t, rpath_in done w t -> In w rdy;
  inv_args : forall n, In n done -> 0 <= dl n -> forall a, In a (nargs n) -> In a rdy
}.

Lemma assoc_tm0 (l : list wid) w :
  assoc (map (fun w => (w, 0)) l) w = if mem_in w l then Some 0 else None.
Proof.
  induction l as [|x r IH]; cbn [map assoc mem_in existsb]; [reflexivity|].
  unfold mem_in in IH. rewrite IH. rewrite (Z.eqb_sym w x).
  destruct (x =? w); reflexivity.
Qed.

Lemma inv_init : Inv [] (rdy0 nl) (tm0 nl).
Proof.
  unfold tm0. constructor.
  - intro w. rewrite assoc_tm0. destruct (mem_in w (rdy0 nl)) eqn:E.
    + apply mem_in_iff in E. split; [intros _; exists 0; reflexivity | intros _; exact E].
    + split; [intro H; apply mem_in_iff in H; congruence | intros [t Ht]; discriminate].
  - intros w t. rewrite assoc_tm0. destruct (mem_in w (rdy0 nl)) eqn:E; [|discriminate].
    intro H. injection H as <-. apply mem_in_iff in E. apply rdy0_iff in E. split.
    + apply ri_src. exact E.
    + intros t' Ht'. inversion Ht' as [w' Hb | n a t0 Hn]; [lia | destruct Hn].
  - intros w t H. inversion H as [w' Hb | n a t0 Hn]; [|destruct Hn].
    apply rdy0_iff. exact Hb.
  - intros n [].
Qed.

Lemma tval_some tm a t : assoc tm a = Some t -> tval tm a = t.
Proof. unfold tval, assoc_d. intros ->. reflexivity. Qed.

Lemma inv_step done rdy tm n :
  Inv done rdy tm ->
  net_ok nl rdy n = true ->
  (dl n <? 0) = negb (is_comb (nop n)) ->
  nargs n <> [] ->
  Inv (done ++ [n]) (rdy_next rdy n) (tm_step dl tm n).
Proof.
  intros [Idom Iopt Irdy Iargs] Hok Hdl Hne.
  unfold net_ok, rdy_next, tm_step in *.
  destruct (is_comb (nop n)) eqn:Hc; cbn [negb] in Hdl.
  2:{ (* path-ending gate: skipped *)
    rewrite Hdl. assert (Hlt : dl n < 0) by lia. constructor.
    - exact Idom.
    - intros w t Hw. destruct (Iopt w t Hw) as [H1 H2]. split.
      + eapply rpath_in_mono; [|exact H1]. intros; apply in_or_app; left; assumption.
      + intros t' Ht'. apply H2. eapply rpath_in_skip; eauto.
    - intros w t Ht. eapply Irdy. eapply rpath_in_skip; eauto.
    - intros n' Hn' Hd a Ha. apply in_app_or in Hn'. destruct Hn' as [Hn'|[<-|[]]]; [|lia].
      eapply Iargs; eauto. }
  rewrite Hdl. assert (Hge : 0 <= dl n) by lia.
  apply andb_prop in Hok. destruct Hok as [Hok _].
  apply andb_prop in Hok. destruct Hok as [Hok _].
  apply andb_prop in Hok. destruct Hok as [Hargs Hfresh].
  rewrite forallb_forall in Hargs.
  assert (Hargs' : forall a, In a (nargs n) -> In a rdy).
  { intros a Ha. apply mem_in_iff. apply Hargs. exact Ha. }
  assert (Hd : ~ In (ndest n) rdy).
  { intro H. apply mem_in_iff in H. rewrite H in Hfresh. discriminate. }
  set (d := ndest n) in *.
  set (v := maxl (map (tval tm) (nargs n)) + dl n).
  (* paths not ending at d never use n *)
  assert (Hback : forall w t, rpath_in (done ++ [n]) w t -> w <> d -> rpath_in done w t).
  { intros w t H. induction H as [w Hb | n' a t Hn' Hd' Ha _ IH]; intro Hne'.
    - apply ri_src. exact Hb.
    - apply in_app_or in Hn'. destruct Hn' as [Hn'|[<-|[]]]; [|exfalso; apply Hne'; reflexivity].
      apply ri_step with (a := a); auto. apply IH.
      intro E. apply Hd. rewrite <- E. eapply Iargs; eauto. }
  assert (Hfwd : forall w t, rpath_in done w t -> rpath_in (done ++ [n]) w t).
  { intros w t H. eapply rpath_in_mono; [|exact H]. intros; apply in_or_app; left; assumption. }
  constructor.
  - intro w. destruct (Z.eq_dec d w) as [<-|Hne'].
    + rewrite assoc_dset_same. split; [intros _; exists v; reflexivity | intros _; left; reflexivity].
    + rewrite assoc_dset_other by exact Hne'. rewrite <- Idom. cbn [In]. intuition congruence.
  - intros w t. destruct (Z.eq_dec d w) as [<-|Hne'].
    + rewrite assoc_dset_same. intro H. injection H as <-. split.
      * assert (Hin : In (maxl (map (tval tm) (nargs n))) (map (tval tm) (nargs n))).
        { apply maxl_in. destruct (nargs n); [congruence | discriminate]. }
        apply in_map_iff in Hin. destruct Hin as [a [Ea Ha]].
        destruct (proj1 (Idom a) (Hargs' a Ha)) as [ta Hta].
        rewrite (tval_some _ _ _ Hta) in Ea. unfold v. rewrite <- Ea.
        apply ri_step with (a := a); auto.
        { apply in_or_app. right. left. reflexivity. }
        { apply Hfwd. apply (Iopt a ta Hta). }
      * intros t' Ht'. inversion Ht' as [w' Hb E1 E2 | n' a t0 Hn' Hd' Ha Hr E1 E2].
        -- exfalso. apply Hd. eapply Irdy. apply ri_src. exact Hb.
        -- apply in_app_or in Hn'. destruct Hn' as [Hn'|[<-|[]]].
           ++ exfalso. apply Hd. fold d. rewrite <- E1. eapply Irdy.
              apply ri_step with (a := a); eauto. apply Hback; [exact Hr|].
              intro E. apply Hd. rewrite <- E. eapply Iargs; eauto.
           ++ assert (Hra : rpath_in done a t0).
              { apply Hback; [exact Hr|]. intro E. apply Hd. rewrite <- E. apply Hargs'. exact Ha. }
              destruct (proj1 (Idom a) (Hargs' a Ha)) as [ta Hta].
              pose proof (proj2 (Iopt a ta Hta) t0 Hra) as Hle.
              assert (ta <= maxl (map (tval tm) (nargs n))).
              { apply maxl_ge. apply in_map_iff. exists a. split; [apply tval_some; exact Hta | exact Ha]. }
              unfold v. lia.
    + rewrite assoc_dset_other by exact Hne'. intro Hw.
      destruct (Iopt w t Hw) as [H1 H2]. split; [apply Hfwd; exact H1|].
      intros t' Ht'. apply H2. apply Hback; [exact Ht' | congruence].
  - intros w t Ht. destruct (Z.eq_dec d w) as [<-|Hne']; [left; reflexivity|].
    right. eapply Irdy. apply Hback; [exact Ht | congruence].
  - intros n' Hn' Hd' a Ha. apply in_app_or in Hn'. destruct Hn' as [Hn'|[<-|[]]].
    + right. eapply Iargs; eauto.
    + right. apply Hargs'. exact Ha.
Qed.

Definition delays_ok (ns : list net) : Prop :=
  forall n, In n ns -> (dl n <? 0) = negb (is_comb (nop n)) /\ nargs n <> [].

Lemma inv_run rest : forall done rdy tm,
  Inv done rdy tm -> nets_ok nl rdy rest = true -> delays_ok rest ->
  Inv (done ++ rest) (fold_left (rdy_next) rest rdy) (timing_from dl tm rest).
Proof.
  induction rest as [|n r IH]; intros done rdy tm HI Hok Hdl; cbn [fold_left timing_from nets_ok] in *.
  - rewrite app_nil_r. exact HI.
  - apply andb_prop in Hok. destruct Hok as [Hn Hr].
    replace (done ++ n :: r) with ((done ++ [n]) ++ r) by (rewrite <- app_assoc; reflexivity).
    apply IH.
    + destruct (Hdl n (or_introl eq_refl)) as [H1 H2]. apply inv_step; auto.
    + exact Hr.
    + intros n' Hn'. apply Hdl. right. exact Hn'.
Qed.

(* ---------- second invariant: the map is a consistent fixpoint ---------- *)
Record Inv2 (done : list net) (tm : list (wid * Z)) : Prop := {
  inv_in : forall w t, In (w, t) tm -> assoc tm w = Some t;
  inv_fix : forall n, In n done -> 0 <= dl n ->
              assoc tm (ndest n) = Some (maxl (map (tval tm) (nargs n)) + dl n);
  inv_base : forall w, is_base nl w = true -> assoc tm w = Some 0
}.

Lemma inv2_init : Inv2 [] (tm0 nl).
Proof.
  unfold tm0. constructor.
  - intros w t H. apply in_map_iff in H. destruct H as [x [E Hx]]. injection E as <- <-.
    rewrite assoc_tm0. apply mem_in_iff in Hx. rewrite Hx. reflexivity.
  - intros n [].
  - intros w Hb. rewrite assoc_tm0. apply rdy0_iff in Hb. apply mem_in_iff in Hb. rewrite Hb. reflexivity.
Qed.

Lemma tval_dset_other tm d v a : d <> a -> tval (dset tm d v) a = tval tm a.
Proof. intro H. unfold tval, assoc_d. rewrite assoc_dset_other by exact H. reflexivity. Qed.

Lemma inv2_step done rdy tm n :
  Inv done rdy tm -> Inv2 done tm ->
  net_ok nl rdy n = true ->
  (dl n <? 0) = negb (is_comb (nop n)) ->
  Inv2 (done ++ [n]) (tm_step dl tm n).
Proof.
  intros [Idom Iopt Irdy Iargs] [Iin Ifix Ibase] Hok Hdl.
  unfold net_ok, tm_step in *.
  destruct (is_comb (nop n)) eqn:Hc; cbn [negb] in Hdl.
  2:{ rewrite Hdl. assert (Hlt : dl n < 0) by lia. constructor; auto.
      intros n' Hn' Hd. apply in_app_or in Hn'. destruct Hn' as [Hn'|[<-|[]]]; [auto|lia]. }
  rewrite Hdl. assert (Hge : 0 <= dl n) by lia.
  apply andb_prop in Hok. destruct Hok as [Hok _].
  apply andb_prop in Hok. destruct Hok as [Hok _].
  apply andb_prop in Hok. destruct Hok as [Hargs Hfresh].
  rewrite forallb_forall in Hargs.
  assert (Hargs' : forall a, In a (nargs n) -> In a rdy).
  { intros a Ha. apply mem_in_iff. apply Hargs. exact Ha. }
  assert (Hd : ~ In (ndest n) rdy).
  { intro H. apply mem_in_iff in H. rewrite H in Hfresh. discriminate. }
  assert (Hnone : assoc tm (ndest n) = None).
  { destruct (assoc tm (ndest n)) eqn:E; [|reflexivity]. exfalso. apply Hd. apply Idom. eauto. }
  set (v := maxl (map (tval tm) (nargs n)) + dl n).
  assert (Hmap : forall n', (forall a, In a (nargs n') -> In a rdy) ->
            map (tval (dset tm (ndest n) v)) (nargs n') = map (tval tm) (nargs n')).
  { intros n' H. apply map_ext_in. intros a Ha. apply tval_dset_other.
    intro E. apply Hd. rewrite E. apply H. exact Ha. }
  constructor.
  - intros w t H. rewrite dset_fresh in H by exact Hnone. apply in_app_or in H.
    destruct H as [H|[E|[]]].
    + pose proof (Iin w t H) as Hw. rewrite assoc_dset_other; [exact Hw|].
      intro E. apply Hd. rewrite E. apply Idom. eauto.
    + injection E as <- <-. apply assoc_dset_same.
  - intros n' Hn' Hd'. apply in_app_or in Hn'. destruct Hn' as [Hn'|[<-|[]]].
    + rewrite Hmap by (intros a Ha; eapply Iargs; eauto).
      pose proof (Ifix n' Hn' Hd') as H. rewrite assoc_dset_other; [exact H|].
      intro E. apply Hd. rewrite E. apply Idom. eauto.
    + rewrite Hmap by exact Hargs'. apply assoc_dset_same.
  - intros w Hb. rewrite assoc_dset_other; [apply Ibase; exact Hb|].
    intro E. apply Hd. rewrite E. apply Idom. exists 0. apply Ibase. exact Hb.
Qed.

Lemma inv2_run rest : forall done rdy tm,
  Inv done rdy tm -> Inv2 done tm -> nets_ok nl rdy rest = true -> delays_ok rest ->
  Inv2 (done ++ rest) (timing_from dl tm rest).
Proof.
  induction rest as [|n r IH]; intros done rdy tm HI HI2 Hok Hdl; cbn [timing_from fold_left nets_ok] in *.
  - rewrite app_nil_r. exact HI2.
  - apply andb_prop in Hok. destruct Hok as [Hn Hr].
    destruct (Hdl n (or_introl eq_refl)) as [H1 H2].
    replace (done ++ n :: r) with ((done ++ [n]) ++ r) by (rewrite <- app_assoc; reflexivity).
    apply IH with (rdy := rdy_next rdy n).
    + apply inv_step; auto.
    + eapply inv2_step; eauto.
    + exact Hr.
    + intros n' Hn'. apply Hdl. right. exact Hn'.
Qed.

Theorem inv_final :
  wfb nl = true -> delays_ok (nets nl) ->
  Inv (nets nl) (rdy_final nl) (timing_map nl dl).
Proof.
  intros Hwf Hdl. unfold wfb in Hwf.
  repeat (apply andb_prop in Hwf; destruct Hwf as [Hwf ?]).
  unfold rdy_final, timing_map.
  change (nets nl) with ([] ++ nets nl) at 1. apply inv_run; auto. apply inv_init.
Qed.

Theorem inv2_final :
  wfb nl = true -> delays_ok (nets nl) -> Inv2 (nets nl) (timing_map nl dl).
Proof.
  intros Hwf Hdl. unfold wfb in Hwf.
  repeat (apply andb_prop in Hwf; destruct Hwf as [Hwf ?]).
  unfold timing_map.
  change (nets nl) with ([] ++ nets nl) at 1. eapply inv2_run; eauto.
  - apply inv_init.
  - apply inv2_init.
Qed.

Lemma wfb_all_ready : wfb nl = true ->
  forall w, In w (map wname (wires nl)) -> In w (rdy_final nl).
Proof.
  intros Hwf w Hw. unfold wfb in Hwf. apply andb_prop in Hwf. destruct Hwf as [_ H].
  rewrite forallb_forall in H. apply in_map_iff in Hw. destruct Hw as [x [<- Hx]].
  apply mem_in_iff. apply H. exact Hx.
Qed.

(* MAIN: the timing map holds, for every wire, the maximum over all
   register-free paths from a source of the summed delays. *)
Theorem timing_is_longest_path :
  wfb nl = true -> delays_ok (nets nl) ->
  forall w, In w (map wname (wires nl)) ->
  exists t, assoc (timing_map nl dl) w = Some t /\ is_longest nl dl w t.
Proof.
  intros Hwf Hdl w Hw. pose proof (inv_final Hwf Hdl) as [Idom Iopt _ _].
  destruct (proj1 (Idom w) (wfb_all_ready Hwf w Hw)) as [t Ht].
  exists t. split; [exact Ht|]. destruct (Iopt w t Ht) as [H1 H2]. split.
  - apply rpath_to_cpath. exact H1.
  - intros w0 p Hb Hp. pose proof (cpath_to_rpath _ _ _ Hp 0 (ri_src _ _ Hb)) as H.
    apply H2 in H. lia.
Qed.

(* and nothing else is in the map *)
Theorem timing_map_domain :
  wfb nl = true -> delays_ok (nets nl) ->
  forall w t, assoc (timing_map nl dl) w = Some t -> is_longest nl dl w t.
Proof.
  intros Hwf Hdl w t Ht. pose proof (inv_final Hwf Hdl) as [_ Iopt _ _].
  destruct (Iopt w t Ht) as [H1 H2]. split.
  - apply rpath_to_cpath. exact H1.
  - intros w0 p Hb Hp. pose proof (cpath_to_rpath _ _ _ Hp 0 (ri_src _ _ Hb)) as H.
    apply H2 in H. lia.
Qed.

End TP.

(* independence of the topological order: two dumps of the same design whose
   net lists are permutations of each other give the same timing. *)
Lemma cpath_ext nl1 nl2 dl w p w' :
  (forall n, In n (nets nl1) -> In n (nets nl2)) ->
  cpath nl1 dl w p w' -> cpath nl2 dl w p w'.
Proof.
  intros H Hp. induction Hp as [w | w n p w' Hn Hd Hw _ IH].
  - apply cp_nil.
  - apply cp_cons; auto.
Qed.

Theorem timing_order_independent nl1 nl2 dl :
  wires nl1 = wires nl2 ->
  (forall n, In n (nets nl1) <-> In n (nets nl2)) ->
  wfb nl1 = true -> wfb nl2 = true -> delays_ok dl (nets nl1) ->
  forall w, In w (map wname (wires nl1)) ->
  assoc (timing_map nl1 dl) w = assoc (timing_map nl2 dl) w.
Proof.
  intros Hw Hn Hwf1 Hwf2 Hdl w Hin.
  assert (Hdl2 : delays_ok dl (nets nl2)). { intros n H. apply Hdl. apply Hn. exact H. }
  assert (Hb : forall x, is_base nl1 x = is_base nl2 x). { intro x. unfold is_base. rewrite Hw. reflexivity. }
  destruct (timing_is_longest_path nl1 dl Hwf1 Hdl w Hin) as [t1 [E1 [[a1 [p1 [B1 [P1 S1]]]] U1]]].
  rewrite Hw in Hin.
  destruct (timing_is_longest_path nl2 dl Hwf2 Hdl2 w Hin) as [t2 [E2 [[a2 [p2 [B2 [P2 S2]]]] U2]]].
  rewrite E1, E2. f_equal.
  assert (t1 <= t2).
  { rewrite <- S1. apply (U2 a1 p1). - rewrite <- Hb. exact B1.
    - eapply cpath_ext; [|exact P1]. intros n Hx. apply Hn. exact Hx. }
  assert (t2 <= t1).
  { rewrite <- S2. apply (U1 a2 p2). - rewrite Hb. exact B2.
    - eapply cpath_ext; [|exact P2]. intros n Hx. apply Hn. exact Hx. }
  lia.
Qed.

(* ---------- max_length and critical_path ---------- *)
Section CPP.
Variable nl : netlist.
Variable dl : net -> Z.

Lemma is_longest_unique w t1 t2 :
  is_longest nl dl w t1 -> is_longest nl dl w t2 -> t1 = t2.
Proof.
  intros [[a1 [p1 [B1 [P1 S1]]]] U1] [[a2 [p2 [B2 [P2 S2]]]] U2].
  pose proof (U2 a1 p1 B1 P1). pose proof (U1 a2 p2 B2 P2). lia.
Qed.

Lemma assoc_in (l : list (wid * Z)) w t : assoc l w = Some t -> In (w, t) l.
Proof.
  induction l as [|[k v] r IH]; cbn [assoc]; [discriminate|].
  destruct (k =? w) eqn:E.
  - intro H. injection H as ->. left. f_equal. lia.
  - intro H. right. apply IH. exact H.
Qed.

(* max_length is attained by some wire and bounds every wire *)
Theorem max_length_is_max :
  wfb nl = true -> delays_ok dl (nets nl) -> wires nl <> [] ->
  (exists w, is_longest nl dl w (max_length nl dl))
  /\ (forall w t, In w (map wname (wires nl)) -> is_longest nl dl w t -> t <= max_length nl dl).
Proof.
  intros Hwf Hdl Hne. pose proof (inv2_final nl dl Hwf Hdl) as [Iin _ _].
  unfold max_length. split.
  - assert (Hnn : map snd (timing_map nl dl) <> []).
    { destruct (wires nl) as [|x r] eqn:Ew; [congruence|].
      destruct (timing_is_longest_path nl dl Hwf Hdl (wname x)) as [t [Ht _]].
      { rewrite Ew. left. reflexivity. }
      intro E. destruct (timing_map nl dl); [cbn in Ht; discriminate Ht | cbn in E; discriminate E]. }
    pose proof (maxl_in _ Hnn) as Hin. apply in_map_iff in Hin. destruct Hin as [[w t] [E Hwt]].
    cbn [snd] in E. subst t. exists w. apply (timing_map_domain nl dl Hwf Hdl). apply Iin. exact Hwt.
  - intros w t Hw Hl. destruct (timing_is_longest_path nl dl Hwf Hdl w Hw) as [t0 [Ht0 Hl0]].
    rewrite (is_longest_unique _ _ _ Hl Hl0). apply maxl_ge.
    apply assoc_in in Ht0. apply (in_map snd) in Ht0. exact Ht0.
Qed.

Lemma find_src_some ns w s :
  find_src ns w = Some s -> In s ns /\ has_dest s = true /\ ndest s = w.
Proof.
  induction ns as [|n r IH]; cbn [find_src]; [discriminate|].
  destruct (has_dest n && (ndest n =? w)) eqn:E.
  - intro H. injection H as <-. apply andb_prop in E. destruct E as [E1 E2].
    split; [left; reflexivity|]. split; [exact E1 | lia].
  - intro H. destruct (IH H) as [H1 H2]. split; [right; exact H1 | exact H2].
Qed.

Lemma fold_pres {A S} (P : S -> Prop) (g : S -> A -> S) l :
  (forall st a, In a l -> P st -> P (g st a)) -> forall st, P st -> P (fold_left g l st).
Proof.
  induction l as [|x r IH]; intros Hg st Hst; cbn [fold_left]; [exact Hst|].
  apply IH; [intros; apply Hg; [right|]; assumption|]. apply Hg; [left; reflexivity | exact Hst].
Qed.

(* register nets drive Register wires (part of Block.sanity_check, not of wfb) *)
Definition reg_dests_ok : Prop :=
  forall n, In n (nets nl) -> is_comb (nop n) = false -> has_dest n = true ->
            is_base nl (ndest n) = true.

Section CPInv.
Variable limit : Z.
Hypothesis Hwf : wfb nl = true.
Hypothesis Hdl : delays_ok dl (nets nl).
Hypothesis Hreg : reg_dests_ok.

Let tm := timing_map nl dl.
Let mx := max_length nl dl.

Definition good_path (wp : wid * list net) : Prop :=
  is_base nl (fst wp) = true /\
  exists wend, cpath nl dl (fst wp) (snd wp) wend /\ wsum dl (snd wp) = mx
               /\ assoc tm wend = Some mx.

Definition Good (st : cp_state) : Prop := forall wp, In wp (fst st) -> good_path wp.

Definition Call (path : list net) (w : wid) : Prop :=
  exists wend tw, cpath nl dl w path wend /\ assoc tm wend = Some mx
                  /\ assoc tm w = Some tw /\ tw + wsum dl path = mx.

Lemma cp_pass_good fuel : forall st path w,
  Good st -> Call path w -> Good (cp_pass nl tm limit fuel st path w).
Proof.
  pose proof (inv_final nl dl Hwf Hdl) as [Idom Iopt Irdy Iargs].
  pose proof (inv2_final nl dl Hwf Hdl) as [Iin Ifix Ibase].
  induction fuel as [|f IH]; intros st path w Hg Hc; cbn [cp_pass]; [exact Hg|].
  destruct (snd st); [exact Hg|].
  destruct Hc as [wend [tw [Hp [Hend [Hw Hsum]]]]].
  destruct (is_base nl w) eqn:Hb.
  { intros wp Hin. cbn [fst] in Hin. apply in_app_or in Hin. destruct Hin as [Hin|[<-|[]]].
    - apply Hg. exact Hin.
    - split; [exact Hb|]. exists wend. cbn [fst snd]. split; [exact Hp|]. split; [|exact Hend].
      fold tm in Ibase. rewrite (Ibase w Hb) in Hw. injection Hw as <-. lia. }
  destruct (limit <=? Z.of_nat (length (fst st))); [exact Hg|].
  destruct (find_src (nets nl) w) as [s|] eqn:Hs; [|exact Hg].
  apply find_src_some in Hs. destruct Hs as [Hsn [Hsd Hsw]].
  assert (Hcomb : is_comb (nop s) = true).
  { destruct (is_comb (nop s)) eqn:E; [reflexivity|].
    rewrite <- Hsw, (Hreg s Hsn E Hsd) in Hb. discriminate. }
  destruct (Hdl s Hsn) as [Hneg _]. rewrite Hcomb in Hneg. cbn [negb] in Hneg.
  assert (Hge : 0 <= dl s) by lia.
  pose proof (Ifix s Hsn Hge) as Hfix. fold tm in Hfix. rewrite Hsw, Hw in Hfix.
  injection Hfix as Htw.
  apply fold_pres; [|exact Hg].
  intros st' a Ha Hg'. destruct (tval tm a =? maxl (map (tval tm) (nargs s))) eqn:E; [|exact Hg'].
  apply IH; [exact Hg'|].
  destruct (proj1 (Idom a) (Iargs s Hsn Hge a Ha)) as [ta Hta]. fold tm in Hta.
  exists wend, ta. split.
  - apply cp_cons; auto. rewrite Hsw. exact Hp.
  - split; [exact Hend|]. split; [exact Hta|].
    rewrite (tval_some _ _ _ Hta) in E. unfold wsum in *. cbn [map fold_right]. lia.
Qed.

Theorem critical_paths_good :
  forall wp, In wp (critical_path nl dl limit) -> good_path wp.
Proof.
  pose proof (inv2_final nl dl Hwf Hdl) as [Iin _ _].
  unfold critical_path, cp_top. fold tm. fold mx.
  assert (H : Good (fold_left
     (fun st (wt : wid * Z) => if snd wt =? mx then cp_pass nl tm limit (cp_fuel nl) st [] (fst wt) else st)
     tm ([], false))).
  { apply fold_pres; [|intros wp []].
    intros st [w t] Hin Hg. cbn [fst snd]. destruct (t =? mx) eqn:E; [|exact Hg].
    apply cp_pass_good; [exact Hg|]. exists w, t.
    assert (t = mx) by lia. subst t. fold tm in Iin.
    split; [apply cp_nil|]. split; [apply Iin; exact Hin|]. split; [apply Iin; exact Hin|].
    unfold wsum. cbn [map fold_right]. lia. }
  exact H.
Qed.
End CPInv.

(* every critical path returned (whether or not cp_limit was reached) starts at
   a source, is a register-free path, ends at a wire whose time is max_length,
   and its delays sum to exactly max_length *)
Theorem critical_paths_sum limit :
  wfb nl = true -> delays_ok dl (nets nl) -> reg_dests_ok ->
  forall w0 p, In (w0, p) (critical_path nl dl limit) ->
  is_base nl w0 = true /\
  exists wend, cpath nl dl w0 p wend /\ wsum dl p = max_length nl dl
               /\ assoc (timing_map nl dl) wend = Some (max_length nl dl).
Proof.
  intros Hwf Hdl Hreg w0 p Hin.
  exact (critical_paths_good limit Hwf Hdl Hreg (w0, p) Hin).
Qed.

End CPP.
