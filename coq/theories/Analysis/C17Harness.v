(* C17 -- entry points evaluated by py/checks/C17.py (vm_compute).  Depends on
   definition files only (no proof file, no generated file). *)
From PyRTL Require Export Analysis.Timing Analysis.Paths Analysis.Fanout Analysis.TimingOrd.
From Coq Require Import PrimFloat SpecFloat FloatOps Uint63.

Fixpoint net_index (ns : list net) (n : net) (i : Z) : Z :=
  match ns with
  | [] => -1
  | x :: r => if net_eqb x n then i else net_index r n (i + 1)
  end.

Definition path_ix (nl : netlist) (p : list net) : list Z :=
  map (fun n => net_index (nets nl) n 0) p.

(* boolean forms of the hypotheses of the theorems in Props/C17.v, evaluated on
   every dumped design so the premises are known to hold where the code was run *)
Definition delays_okb (nl : netlist) (dl : net -> Z) : bool :=
  forallb (fun n => Bool.eqb (dl n <? 0) (negb (is_comb (nop n))) && nonempty (nargs n)) (nets nl).
Definition reg_dests_okb (nl : netlist) : bool :=
  forallb (fun n => is_comb (nop n) || negb (has_dest n) || is_base nl (ndest n)) (nets nl).
Definition single_driverb (nl : netlist) : bool :=
  forallb (fun n1 => forallb (fun n2 =>
      negb (has_dest n1 && has_dest n2 && (ndest n1 =? ndest n2)) || net_eqb n1 n2) (nets nl))
    (nets nl).

(* (hypotheses hold, timing_map per wire (wires order), timing_map key order, max_length,
    critical paths, fanout per wire, paths per query, (mid, bits, ports, isrom) per memory,
    paths_multi over the given source and destination lists) *)
Definition c17_case (nl : netlist) (tab : list (Z * (Z * Z))) (cp_limit : Z)
    (queries : list (Z * Z)) (srcs dsts : list Z) :=
  let dl := tab_delay tab nl in
  let tm := timing_map nl dl in
  ( b2z (wfb nl && delays_okb nl dl && reg_dests_okb nl && single_driverb nl),
    map (fun x => assoc tm (wname x)) (wires nl),
    map fst tm,
    max_length nl dl,
    map (fun wp => (fst wp, path_ix nl (snd wp))) (critical_path nl dl cp_limit),
    map (fun x => fanout nl (wname x)) (wires nl),
    map (fun q => map (path_ix nl) (paths nl (fst q) (snd q))) queries,
    map (fun x => (mid x, mem_shape nl x)) (mems nl),
    map (fun row => (fst row, map (fun e => (fst e, map (path_ix nl) (snd e))) (snd row)))
        (paths_multi nl srcs dsts) ).

(* ---- the same analysis in IEEE-754 binary64 (TimingOrd.v at D = float): delays are
   given per net, in `nets` order, as float literals; results as (mantissa, exponent) ---- *)
Definition idx_delay (nl : netlist) (ds : list float) (n : net) : float :=
  nth (Z.to_nat (net_index (nets nl) n 0)) ds 0%float.

Definition c17_float_case (nl : netlist) (ds : list float) (cp_limit : Z) :=
  let dl := idx_delay nl ds in
  let tm := f_timing_map nl dl in
  ( map (fun x => match gassoc float tm (wname x) with
                  | Some f => Some (float_pair f) | None => None end) (wires nl),
    map fst tm,
    float_pair (f_max_length nl dl),
    map (fun wp => (fst wp, path_ix nl (snd wp))) (f_critical_path nl dl cp_limit) ).
