(* C17 -- the model of TimingAnalysis (_generate_timing_map, max_length,
   critical_path) over an ARBITRARY delay domain D instead of Z: what the code
   computes when the delays are Python floats (the default table) is this model
   at D = IEEE-754 binary64.  Definitions only; proofs in TimingOrdProofs.v.

   The code uses of the domain:  0 (initial time), `+` (time + gate_delay),
   `gate_delay < 0`, max() (keeps the first maximal element: `if x > m: m = x`)
   and `==`.  These are the parameters dzero, dadd, dneg, dleb, deqb. *)
From PyRTL Require Export Analysis.Timing.
From Coq Require Import PrimFloat SpecFloat FloatOps Uint63.

Section Ord.
Variable D : Type.
Variable dzero : D.
Variable dadd : D -> D -> D.
Variable dleb : D -> D -> bool.
Variable deqb : D -> D -> bool.
Variable dneg : D -> bool.

Fixpoint gassoc (l : list (wid * D)) (k : wid) : option D :=
  match l with
  | [] => None
  | (k', v) :: r => if k' =? k then Some v else gassoc r k
  end.

Fixpoint gdset (l : list (wid * D)) (k : wid) (v : D) : list (wid * D) :=
  match l with
  | [] => [(k, v)]
  | (k', v') :: r => if k' =? k then (k, v) :: r else (k', v') :: gdset r k v
  end.

Definition gtval (tm : list (wid * D)) (w : wid) : D :=
  match gassoc tm w with Some v => v | None => dzero end.

(* one step of Python's max(): `if x > m: m = x`, with  x > m  read as  not (x <= m) *)
Definition gmax2 (m x : D) : D := if dleb x m then m else x.

Definition gmaxl (l : list D) : D :=
  match l with
  | [] => dzero
  | x :: r => fold_left gmax2 r x
  end.

Variable nl : netlist.
Variable dl : net -> D.

Definition gtm0 : list (wid * D) := map (fun w => (w, dzero)) (rdy0 nl).

Definition gtm_step (tm : list (wid * D)) (n : net) : list (wid * D) :=
  if dneg (dl n) then tm
  else gdset tm (ndest n) (dadd (gmaxl (map (gtval tm) (nargs n))) (dl n)).

Definition gtiming_from (tm : list (wid * D)) (ns : list net) : list (wid * D) :=
  fold_left gtm_step ns tm.

Definition gtiming_map : list (wid * D) := gtiming_from gtm0 (nets nl).

Definition gmax_length : D := gmaxl (map snd gtiming_map).

Section GCP.
Variable tm : list (wid * D).
Variable cp_limit : Z.

Fixpoint gcp_pass (fuel : nat) (st : cp_state) (path : list net) (w : wid) : cp_state :=
  match fuel with
  | O => st
  | S f =>
    if snd st then st
    else if is_base nl w then (fst st ++ [(w, path)], false)
    else if cp_limit <=? Z.of_nat (length (fst st)) then (fst st, true)
    else match find_src (nets nl) w with
         | None => st
         | Some s =>
           let path' := s :: path in
           let m := gmaxl (map (gtval tm) (nargs s)) in
           fold_left (fun st' a => if deqb (gtval tm a) m then gcp_pass f st' path' a else st')
                     (nargs s) st
         end
  end.

Definition gcp_top (fuel : nat) (mx : D) : cp_state :=
  fold_left (fun st (wt : wid * D) => if deqb (snd wt) mx then gcp_pass fuel st [] (fst wt) else st)
            tm ([], false).
End GCP.

Definition gcritical_path (cp_limit : Z) : list (wid * list net) :=
  fst (gcp_top gtiming_map cp_limit (cp_fuel nl) gmax_length).

End Ord.

(* ---- the instance the code runs with float delays: IEEE-754 binary64 ---- *)
Definition f_timing_map (nl : netlist) (dl : net -> float) : list (wid * float) :=
  gtiming_map float 0%float PrimFloat.add PrimFloat.leb (fun x => PrimFloat.ltb x 0%float) nl dl.
Definition f_max_length (nl : netlist) (dl : net -> float) : float :=
  gmax_length float 0%float PrimFloat.add PrimFloat.leb (fun x => PrimFloat.ltb x 0%float) nl dl.
Definition f_critical_path (nl : netlist) (dl : net -> float) (cp_limit : Z) : list (wid * list net) :=
  gcritical_path float 0%float PrimFloat.add PrimFloat.leb PrimFloat.eqb
                 (fun x => PrimFloat.ltb x 0%float) nl dl cp_limit.

(* a float as (signed mantissa, exponent): value = m * 2^e; (_, 99999) = inf / nan *)
Definition float_pair (f : float) : Z * Z :=
  match Prim2SF f with
  | S754_zero _ => (0, 0)
  | S754_finite s m e => ((if s then -1 else 1) * Zpos m, e)
  | S754_infinity s => (if s then -1 else 1, 99999)
  | S754_nan => (0, 99999)
  end.
