(* C17 -- fanout w = number of (net, argument position) pairs reading w *)
From PyRTL Require Import Analysis.PathSpec.
From Coq Require Import ZifyBool.

Fixpoint idxs (w : wid) (args : list wid) (j : nat) : list nat :=
  match args with
  | [] => []
  | a :: r => (if w =? a then [j] else []) ++ idxs w r (S j)
  end.

Lemma idxs_spec w args : forall j0 j,
  In j (idxs w args j0) <-> exists k, j = (j0 + k)%nat /\ nth_error args k = Some w.
Proof.
  induction args as [|a r IH]; intros j0 j; cbn [idxs].
  - split; [intros [] | intros [k [_ H]]; destruct k; discriminate].
  - rewrite in_app_iff, IH. split.
    + intros [H|[k [-> H]]].
      * destruct (w =? a) eqn:E; [|destruct H]. destruct H as [<-|[]].
        exists 0%nat. split; [lia|]. cbn. f_equal. lia.
      * exists (S k). split; [lia | exact H].
    + intros [[|k] [-> H]].
      * left. cbn in H. injection H as ->. rewrite Z.eqb_refl. left. lia.
      * right. exists k. split; [lia | exact H].
Qed.

Lemma idxs_ge w args : forall j0 j, In j (idxs w args j0) -> (j0 <= j)%nat.
Proof. intros j0 j H. apply idxs_spec in H. destruct H as [k [-> _]]. lia. Qed.

Lemma idxs_nodup w args : forall j0, NoDup (idxs w args j0).
Proof.
  induction args as [|a r IH]; intro j0; cbn [idxs]; [constructor|].
  destruct (w =? a); cbn [app]; [|apply IH].
  constructor; [|apply IH]. intro H. apply idxs_ge in H. lia.
Qed.

Lemma idxs_len w args : forall j0, length (idxs w args j0) = length (filter (Z.eqb w) args).
Proof.
  induction args as [|a r IH]; intro j0; cbn [idxs filter]; [reflexivity|].
  rewrite app_length, IH. destruct (w =? a); reflexivity.
Qed.

Fixpoint all_pos (w : wid) (ns : list net) (i : nat) : list (nat * nat) :=
  match ns with
  | [] => []
  | n :: r => map (pair i) (idxs w (nargs n) 0) ++ all_pos w r (S i)
  end.

Lemma all_pos_spec w ns : forall i0 i j,
  In (i, j) (all_pos w ns i0) <->
  exists k n, i = (i0 + k)%nat /\ nth_error ns k = Some n /\ nth_error (nargs n) j = Some w.
Proof.
  induction ns as [|n r IH]; intros i0 i j; cbn [all_pos].
  - split; [intros [] | intros [k [n [_ [H _]]]]; destruct k; discriminate].
  - rewrite in_app_iff, IH, in_map_iff. split.
    + intros [[j' [E H]]|[k [n' [-> [H1 H2]]]]].
      * injection E as <- <-. apply idxs_spec in H. destruct H as [k [-> H]].
        exists 0%nat, n. split; [lia|]. split; [reflexivity | exact H].
      * exists (S k), n'. split; [lia|]. split; assumption.
    + intros [[|k] [n' [-> [H1 H2]]]].
      * left. cbn in H1. injection H1 as <-. exists j. split; [f_equal; lia|].
        apply idxs_spec. exists j. split; [reflexivity | exact H2].
      * right. exists k, n'. split; [lia|]. split; assumption.
Qed.

Lemma all_pos_ge w ns : forall i0 i j, In (i, j) (all_pos w ns i0) -> (i0 <= i)%nat.
Proof. intros i0 i j H. apply all_pos_spec in H. destruct H as [k [n [-> _]]]. lia. Qed.

Lemma NoDup_app_disj {A} (l1 l2 : list A) :
  NoDup l1 -> NoDup l2 -> (forall x, In x l1 -> ~ In x l2) -> NoDup (l1 ++ l2).
Proof.
  induction l1 as [|x r IH]; intros H1 H2 Hd; cbn [app]; [exact H2|].
  inversion H1 as [|x' r' Hx Hr]; subst. constructor.
  - intro H. apply in_app_or in H. destruct H as [H|H]; [contradiction|].
    apply (Hd x); [left; reflexivity | exact H].
  - apply IH; auto. intros y Hy. apply Hd. right. exact Hy.
Qed.

Lemma map_pair_nodup (i : nat) (l : list nat) : NoDup l -> NoDup (map (pair i) l).
Proof.
  induction l as [|x r IH]; intro H; cbn [map]; [constructor|].
  inversion H as [|x' r' Hx Hr]; subst. constructor; [|apply IH; exact Hr].
  intro Hin. apply in_map_iff in Hin. destruct Hin as [y [E Hy]]. injection E as ->. contradiction.
Qed.

Lemma all_pos_nodup w ns : forall i0, NoDup (all_pos w ns i0).
Proof.
  induction ns as [|n r IH]; intro i0; cbn [all_pos]; [constructor|].
  apply NoDup_app_disj.
  - apply map_pair_nodup. apply idxs_nodup.
  - apply IH.
  - intros [i j] H1 H2. apply in_map_iff in H1. destruct H1 as [j' [E _]]. injection E as <- <-.
    apply all_pos_ge in H2. lia.
Qed.

Lemma all_pos_len w ns : forall i0,
  length (all_pos w ns i0) = length (filter (Z.eqb w) (flat_map nargs ns)).
Proof.
  induction ns as [|n r IH]; intro i0; cbn [all_pos flat_map]; [reflexivity|].
  rewrite app_length, map_length, idxs_len, IH, filter_app, app_length. reflexivity.
Qed.

Lemma filter_none w args : mem_in w args = false -> filter (Z.eqb w) args = [].
Proof.
  unfold mem_in. induction args as [|a r IH]; cbn [existsb filter]; [reflexivity|].
  destruct (w =? a); cbn [orb]; [discriminate | exact IH].
Qed.

Lemma flat_filter_cons (P : net -> bool) n r :
  flat_map nargs (filter P (n :: r))
  = if P n then nargs n ++ flat_map nargs (filter P r) else flat_map nargs (filter P r).
Proof. cbn [filter]. destruct (P n); reflexivity. Qed.

Lemma readers_len w ns :
  length (filter (Z.eqb w) (flat_map nargs (filter (fun n => mem_in w (nargs n)) ns)))
  = length (filter (Z.eqb w) (flat_map nargs ns)).
Proof.
  induction ns as [|n r IH]; [reflexivity|].
  rewrite flat_filter_cons.
  change (flat_map nargs (n :: r)) with (nargs n ++ flat_map nargs r).
  rewrite (filter_app _ (nargs n) (flat_map nargs r)), app_length.
  destruct (mem_in w (nargs n)) eqn:E; cbv iota; unfold wid in *.
  - rewrite filter_app, app_length. f_equal. exact IH.
  - rewrite (filter_none _ _ E). exact IH.
Qed.

Theorem fanout_counts_positions nl w : fanout_is nl w (fanout nl w).
Proof.
  exists (all_pos w (nets nl) 0). split; [apply all_pos_nodup|]. split.
  - intros i j. rewrite all_pos_spec. unfold reads. split.
    + intros [k [n [-> [H1 H2]]]]. exists n. split; assumption.
    + intros [n [H1 H2]]. exists i, n. split; [lia|]. split; assumption.
  - unfold fanout, readers. rewrite readers_len, all_pos_len. reflexivity.
Qed.
