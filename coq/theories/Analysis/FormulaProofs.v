(* C17 -- theorems over the fragments regenerated from pyrtl/analysis.py on
   every run (Gen/TimingFormula.v): a changed constant or table entry in the
   source changes the generated definition and breaks these proofs. *)
From Coq Require Import ZArith QArith.
From PyRTL Require Import Netlist.Syntax Gen.TimingFormula.

(* max_freq [MHz] = 10^6 / clock period [ps];
   period = (130/tech) * (max_length + 189 + 194)       (default flip-flop overhead)
          = (130/tech) *  max_length + ffoverhead        (explicit overhead) *)
Lemma max_freq_default (L tech : Q) :
  max_freq_formula L tech None == (1000000 # 1) / ((130 # 1) / tech * (L + (383 # 1))).
Proof.
  unfold max_freq_formula. apply Qdiv_comp; [reflexivity|]. ring.
Qed.

Lemma max_freq_overhead (L tech ff : Q) :
  max_freq_formula L tech (Some ff) == (1000000 # 1) / ((130 # 1) / tech * L + ff).
Proof.
  unfold max_freq_formula. apply Qdiv_comp; [reflexivity|]. ring.
Qed.

(* in the default delay table exactly the register and memory-write entries are
   negative, i.e. exactly the non-combinational nets end paths *)
Lemma default_table_ends_paths (o : op) : default_ends_path o = negb (is_comb o).
Proof. destruct o; reflexivity. Qed.

(* and wires, concats and selects are free *)
Lemma default_table_free_wires :
  default_delay_sign OpW = Some 0%Z /\ default_delay_sign OpConcat = Some 0%Z
  /\ forall i, default_delay_sign (OpSelect i) = Some 0%Z.
Proof. repeat split. Qed.
