(* C17 -- the timing theorems for delays in ANY totally (pre)ordered domain whose
   addition is monotone in its left argument.  IEEE-754 round-to-nearest addition
   on the finite floats is such a domain, so these statements cover what
   TimingAnalysis computes with the default (float) delay table: no rounding is
   abstracted.  The Z development (TimingProofs.v) is the instance D = Z
   (bridging lemmas at the end). *)
From PyRTL Require Import Analysis.PathSpec Analysis.PathSpecOrd Analysis.TimingProofs.
From Coq Require Import ZifyBool.

Section OrdProofs.
Variable D : Type.
Variable dzero : D.
Variable dadd : D -> D -> D.
Variable dleb : D -> D -> bool.
Variable deqb : D -> D -> bool.
Variable dneg : D -> bool.

Hypothesis leb_refl : forall a, dleb a a = true.
Hypothesis leb_trans : forall a b c, dleb a b = true -> dleb b c = true -> dleb a c = true.
Hypothesis leb_total : forall a b, dleb a b = false -> dleb b a = true.
Hypothesis add_mono : forall a b d, dleb a b = true -> dleb (dadd a d) (dadd b d) = true.

Notation gassoc := (gassoc D).
Notation gdset := (gdset D).
Notation gtval := (gtval D dzero).
Notation gmax2 := (gmax2 D dleb).
Notation gmaxl := (gmaxl D dzero dleb).

(* ---------- dict / max facts ---------- *)
Lemma gassoc_dset_same l k v : gassoc (gdset l k v) k = Some v.
Proof.
  induction l as [|[k' v'] r IH]; cbn [TimingOrd.gdset TimingOrd.gassoc].
  - rewrite Z.eqb_refl. reflexivity.
  - destruct (k' =? k) eqn:E; cbn [TimingOrd.gassoc].
    + rewrite Z.eqb_refl. reflexivity.
    + rewrite E. exact IH.
Qed.

Lemma gassoc_dset_other l k k' v : k <> k' -> gassoc (gdset l k v) k' = gassoc l k'.
Proof.
  intro H. induction l as [|[k0 v0] r IH]; cbn [TimingOrd.gdset TimingOrd.gassoc].
  - destruct (k =? k') eqn:E; [lia | reflexivity].
  - destruct (k0 =? k) eqn:E; cbn [TimingOrd.gassoc].
    + apply Z.eqb_eq in E. subst k0. destruct (k =? k') eqn:E2; [lia | reflexivity].
    + destruct (k0 =? k'); [reflexivity | exact IH].
Qed.

Lemma gdset_fresh l k v : gassoc l k = None -> gdset l k v = l ++ [(k, v)].
Proof.
  induction l as [|[k0 v0] r IH]; cbn [TimingOrd.gdset TimingOrd.gassoc app]; intro H.
  - reflexivity.
  - destruct (k0 =? k) eqn:E; [discriminate|]. rewrite IH by exact H. reflexivity.
Qed.

Lemma gassoc_in l w t : gassoc l w = Some t -> In (w, t) l.
Proof.
  induction l as [|[k v] r IH]; cbn [TimingOrd.gassoc]; [discriminate|].
  destruct (k =? w) eqn:E.
  - intro H. injection H as ->. left. f_equal. lia.
  - intro H. right. apply IH. exact H.
Qed.

Lemma fold_gmax_ge r : forall x, dleb x (fold_left gmax2 r x) = true /\
  forall y, In y r -> dleb y (fold_left gmax2 r x) = true.
Proof.
  induction r as [|z r IH]; intro x; cbn [fold_left].
  - split; [apply leb_refl | intros y []].
  - destruct (IH (gmax2 x z)) as [H1 H2].
    assert (Hx : dleb x (gmax2 x z) = true).
    { unfold TimingOrd.gmax2. destruct (dleb z x) eqn:E; [apply leb_refl | apply leb_total; exact E]. }
    assert (Hz : dleb z (gmax2 x z) = true).
    { unfold TimingOrd.gmax2. destruct (dleb z x) eqn:E; [exact E | apply leb_refl]. }
    split; [eapply leb_trans; eauto|].
    intros y [<-|Hy]; [eapply leb_trans; eauto | apply H2; exact Hy].
Qed.

Lemma fold_gmax_in r : forall x, In (fold_left gmax2 r x) (x :: r).
Proof.
  induction r as [|z r IH]; intro x; cbn [fold_left].
  - left. reflexivity.
  - destruct (IH (gmax2 x z)) as [H|H].
    + unfold TimingOrd.gmax2 in H at 1. destruct (dleb z x).
      * left. exact H.
      * right. left. exact H.
    + right. right. exact H.
Qed.

Lemma gmaxl_ge l x : In x l -> dleb x (gmaxl l) = true.
Proof.
  destruct l as [|y r]; [intros []|]. cbn [TimingOrd.gmaxl].
  destruct (fold_gmax_ge r y) as [H1 H2]. intros [<-|H]; [exact H1 | apply H2; exact H].
Qed.

Lemma gmaxl_in l : l <> [] -> In (gmaxl l) l.
Proof. destruct l as [|y r]; [congruence|]. intros _. apply fold_gmax_in. Qed.

Lemma gtval_some tm a t : gassoc tm a = Some t -> gtval tm a = t.
Proof. unfold TimingOrd.gtval. intros ->. reflexivity. Qed.

Lemma gtval_dset_other tm d v a : d <> a -> gtval (gdset tm d v) a = gtval tm a.
Proof. intro H. unfold TimingOrd.gtval. rewrite gassoc_dset_other by exact H. reflexivity. Qed.

(* ---------- weight-only view ---------- *)
Variable nl : netlist.
Variable dl : net -> D.

Notation gcpath := (gcpath D dneg nl dl).
Notation gsum := (gsum D dzero dadd dl).
Notation gtm_step := (gtm_step D dzero dadd dleb dneg dl).
Notation gtiming_from := (gtiming_from D dzero dadd dleb dneg dl).
Notation gtiming_map := (gtiming_map D dzero dadd dleb dneg nl dl).
Notation gmax_length := (gmax_length D dzero dadd dleb dneg nl dl).

Inductive grpath_in (S : list net) : wid -> D -> Prop :=
| gri_src w : is_base nl w = true -> grpath_in S w dzero
| gri_step n a t : In n S -> dneg (dl n) = false -> In a (nargs n) ->
    grpath_in S a t -> grpath_in S (ndest n) (dadd t (dl n)).

Lemma grpath_in_mono S S' w t :
  (forall n, In n S -> In n S') -> grpath_in S w t -> grpath_in S' w t.
Proof.
  intros Hs H. induction H as [w Hb | n a t Hn Hd Ha _ IH].
  - apply gri_src. exact Hb.
  - apply gri_step with (a := a); auto.
Qed.

Lemma grpath_in_skip S n w t :
  dneg (dl n) = true -> grpath_in (S ++ [n]) w t -> grpath_in S w t.
Proof.
  intros Hn H. induction H as [w Hb | n' a t Hn' Hd Ha _ IH].
  - apply gri_src. exact Hb.
  - apply in_app_or in Hn'. destruct Hn' as [Hn'|[<-|[]]]; [|congruence].
    apply gri_step with (a := a); auto.
Qed.

Lemma gcpath_snoc w0 p a n :
  gcpath w0 p a -> In n (nets nl) -> dneg (dl n) = false -> In a (nargs n) ->
  gcpath w0 (p ++ [n]) (ndest n).
Proof.
  intros H Hn Hd Ha. induction H as [w | w n' p w' Hn' Hd' Hw _ IH]; cbn [app].
  - apply gcp_cons; auto. apply gcp_nil.
  - apply gcp_cons; auto.
Qed.

Lemma grpath_to_cpath w t :
  grpath_in (nets nl) w t ->
  exists w0 p, is_base nl w0 = true /\ gcpath w0 p w /\ gsum p = t.
Proof.
  intro H. induction H as [w Hb | n a t Hn Hd Ha _ IH].
  - exists w, []. split; [exact Hb|]. split; [apply gcp_nil | reflexivity].
  - destruct IH as [w0 [p [Hb [Hp Hs]]]]. exists w0, (p ++ [n]).
    split; [exact Hb|]. split; [apply gcpath_snoc with (a := a); auto|].
    unfold PathSpecOrd.gsum in *. rewrite map_app, fold_left_app. cbn [map fold_left]. rewrite Hs. reflexivity.
Qed.

Lemma gcpath_to_rpath w p w' :
  gcpath w p w' -> forall t, grpath_in (nets nl) w t ->
  grpath_in (nets nl) w' (fold_left dadd (map dl p) t).
Proof.
  intro H. induction H as [w | w n p w' Hn Hd Hw _ IH]; intros t Ht; cbn [map fold_left].
  - exact Ht.
  - apply IH. apply gri_step with (a := w); auto.
Qed.

(* ---------- invariant of the pass ---------- *)
Record GInv (done : list net) (rdy : list wid) (tm : list (wid * D)) : Prop := {
  ginv_dom : forall w, In w rdy <-> exists t, gassoc tm w = Some t;
  ginv_opt : forall w t, gassoc tm w = Some t ->
              grpath_in done w t /\ forall t', grpath_in done w t' -> dleb t' t = true;
  ginv_rdy : forall w t, grpath_in done w t -> In w rdy;
  ginv_args : forall n, In n done -> dneg (dl n) = false -> forall a, In a (nargs n) -> In a rdy;
  ginv_in : forall w t, In (w, t) tm -> gassoc tm w = Some t;
  ginv_fix : forall n, In n done -> dneg (dl n) = false ->
              gassoc tm (ndest n) = Some (dadd (gmaxl (map (gtval tm) (nargs n))) (dl n));
  ginv_base : forall w, is_base nl w = true -> gassoc tm w = Some dzero
}.

Lemma gassoc_tm0 (l : list wid) w :
  gassoc (map (fun w => (w, dzero)) l) w = if mem_in w l then Some dzero else None.
Proof.
  induction l as [|x r IH]; cbn [map TimingOrd.gassoc mem_in existsb]; [reflexivity|].
  unfold mem_in in IH. rewrite IH. rewrite (Z.eqb_sym w x).
  destruct (x =? w); reflexivity.
Qed.

Lemma ginv_init : GInv [] (rdy0 nl) (gtm0 D dzero nl).
Proof.
  unfold gtm0. constructor.
  - intro w. rewrite gassoc_tm0. destruct (mem_in w (rdy0 nl)) eqn:E.
    + apply mem_in_iff in E. split; [intros _; exists dzero; reflexivity | intros _; exact E].
    + split; [intro H; apply mem_in_iff in H; congruence | intros [t Ht]; discriminate].
  - intros w t. rewrite gassoc_tm0. destruct (mem_in w (rdy0 nl)) eqn:E; [|discriminate].
    intro H. injection H as <-. apply mem_in_iff in E. apply rdy0_iff in E. split.
    + apply gri_src. exact E.
    + intros t' Ht'. inversion Ht' as [w' Hb | n a t0 Hn]; [apply leb_refl | destruct Hn].
  - intros w t H. inversion H as [w' Hb | n a t0 Hn]; [|destruct Hn].
    apply rdy0_iff. exact Hb.
  - intros n [].
  - intros w t H. apply in_map_iff in H. destruct H as [x [E Hx]]. injection E as <- <-.
    rewrite gassoc_tm0. apply mem_in_iff in Hx. rewrite Hx. reflexivity.
  - intros n [].
  - intros w Hb. rewrite gassoc_tm0. apply rdy0_iff in Hb. apply mem_in_iff in Hb. rewrite Hb. reflexivity.
Qed.

Lemma ginv_step done rdy tm n :
  GInv done rdy tm ->
  net_ok nl rdy n = true ->
  dneg (dl n) = negb (is_comb (nop n)) ->
  nargs n <> [] ->
  GInv (done ++ [n]) (rdy_next rdy n) (gtm_step tm n).
Proof.
  intros [Idom Iopt Irdy Iargs Iin Ifix Ibase] Hok Hdl Hne.
  unfold net_ok, rdy_next, TimingOrd.gtm_step in *.
  destruct (is_comb (nop n)) eqn:Hc; cbn [negb] in Hdl.
  2:{ rewrite Hdl. constructor; auto.
    - intros w t Hw. destruct (Iopt w t Hw) as [H1 H2]. split.
      + eapply grpath_in_mono; [|exact H1]. intros; apply in_or_app; left; assumption.
      + intros t' Ht'. apply H2. eapply grpath_in_skip; eauto.
    - intros w t Ht. eapply Irdy. eapply grpath_in_skip; eauto.
    - intros n' Hn' Hd a Ha. apply in_app_or in Hn'. destruct Hn' as [Hn'|[<-|[]]]; [|congruence].
      eapply Iargs; eauto.
    - intros n' Hn' Hd. apply in_app_or in Hn'. destruct Hn' as [Hn'|[<-|[]]]; [auto|congruence]. }
  rewrite Hdl.
  apply andb_prop in Hok. destruct Hok as [Hok _].
  apply andb_prop in Hok. destruct Hok as [Hok _].
  apply andb_prop in Hok. destruct Hok as [Hargs Hfresh].
  rewrite forallb_forall in Hargs.
  assert (Hargs' : forall a, In a (nargs n) -> In a rdy).
  { intros a Ha. apply mem_in_iff. apply Hargs. exact Ha. }
  assert (Hd : ~ In (ndest n) rdy).
  { intro H. apply mem_in_iff in H. rewrite H in Hfresh. discriminate. }
  assert (Hnone : gassoc tm (ndest n) = None).
  { destruct (gassoc tm (ndest n)) eqn:E; [|reflexivity]. exfalso. apply Hd. apply Idom. eauto. }
  set (d := ndest n) in *.
  set (v := dadd (gmaxl (map (gtval tm) (nargs n))) (dl n)).
  assert (Hback : forall w t, grpath_in (done ++ [n]) w t -> w <> d -> grpath_in done w t).
  { intros w t H. induction H as [w Hb | n' a t Hn' Hd' Ha _ IH]; intro Hne'.
    - apply gri_src. exact Hb.
    - apply in_app_or in Hn'. destruct Hn' as [Hn'|[<-|[]]]; [|exfalso; apply Hne'; reflexivity].
      apply gri_step with (a := a); auto. apply IH.
      intro E. apply Hd. rewrite <- E. eapply Iargs; eauto. }
  assert (Hfwd : forall w t, grpath_in done w t -> grpath_in (done ++ [n]) w t).
  { intros w t H. eapply grpath_in_mono; [|exact H]. intros; apply in_or_app; left; assumption. }
  assert (Hmap : forall n', (forall a, In a (nargs n') -> In a rdy) ->
            map (gtval (gdset tm d v)) (nargs n') = map (gtval tm) (nargs n')).
  { intros n' H. apply map_ext_in. intros a Ha. apply gtval_dset_other.
    intro E. apply Hd. rewrite E. apply H. exact Ha. }
  constructor.
  - intro w. destruct (Z.eq_dec d w) as [<-|Hne'].
    + rewrite gassoc_dset_same. split; [intros _; exists v; reflexivity | intros _; left; reflexivity].
    + rewrite gassoc_dset_other by exact Hne'. rewrite <- Idom. cbn [In]. intuition congruence.
  - intros w t. destruct (Z.eq_dec d w) as [<-|Hne'].
    + rewrite gassoc_dset_same. intro H. injection H as <-. split.
      * assert (Hin : In (gmaxl (map (gtval tm) (nargs n))) (map (gtval tm) (nargs n))).
        { apply gmaxl_in. destruct (nargs n); [congruence | discriminate]. }
        apply in_map_iff in Hin. destruct Hin as [a [Ea Ha]].
        destruct (proj1 (Idom a) (Hargs' a Ha)) as [ta Hta].
        rewrite (gtval_some _ _ _ Hta) in Ea. unfold v. rewrite <- Ea.
        apply gri_step with (a := a); auto.
        { apply in_or_app. right. left. reflexivity. }
        { apply Hfwd. apply (Iopt a ta Hta). }
      * intros t' Ht'. inversion Ht' as [w' Hb E1 E2 | n' a t0 Hn' Hd' Ha Hr E1 E2].
        -- exfalso. apply Hd. eapply Irdy. apply gri_src. exact Hb.
        -- apply in_app_or in Hn'. destruct Hn' as [Hn'|[<-|[]]].
           ++ exfalso. apply Hd. fold d. rewrite <- E1. eapply Irdy.
              apply gri_step with (a := a); eauto. apply Hback; [exact Hr|].
              intro E. apply Hd. rewrite <- E. eapply Iargs; eauto.
           ++ assert (Hra : grpath_in done a t0).
              { apply Hback; [exact Hr|]. intro E. apply Hd. rewrite <- E. apply Hargs'. exact Ha. }
              destruct (proj1 (Idom a) (Hargs' a Ha)) as [ta Hta].
              pose proof (proj2 (Iopt a ta Hta) t0 Hra) as Hle.
              assert (Hm : dleb ta (gmaxl (map (gtval tm) (nargs n))) = true).
              { apply gmaxl_ge. apply in_map_iff. exists a. split; [apply gtval_some; exact Hta | exact Ha]. }
              unfold v. apply add_mono. eapply leb_trans; eauto.
    + rewrite gassoc_dset_other by exact Hne'. intro Hw.
      destruct (Iopt w t Hw) as [H1 H2]. split; [apply Hfwd; exact H1|].
      intros t' Ht'. apply H2. apply Hback; [exact Ht' | congruence].
  - intros w t Ht. destruct (Z.eq_dec d w) as [<-|Hne']; [left; reflexivity|].
    right. eapply Irdy. apply Hback; [exact Ht | congruence].
  - intros n' Hn' Hd' a Ha. apply in_app_or in Hn'. destruct Hn' as [Hn'|[<-|[]]].
    + right. eapply Iargs; eauto.
    + right. apply Hargs'. exact Ha.
  - intros w t H. rewrite gdset_fresh in H by exact Hnone. apply in_app_or in H.
    destruct H as [H|[E|[]]].
    + pose proof (Iin w t H) as Hw. rewrite gassoc_dset_other; [exact Hw|].
      intro E. apply Hd. rewrite E. apply Idom. eauto.
    + injection E as <- <-. apply gassoc_dset_same.
  - intros n' Hn' Hd'. apply in_app_or in Hn'. destruct Hn' as [Hn'|[<-|[]]].
    + rewrite Hmap by (intros a Ha; eapply Iargs; eauto).
      pose proof (Ifix n' Hn' Hd') as H. rewrite gassoc_dset_other; [exact H|].
      intro E. apply Hd. fold d in E. rewrite E. apply Idom. eauto.
    + rewrite Hmap by exact Hargs'. apply gassoc_dset_same.
  - intros w Hb. rewrite gassoc_dset_other; [apply Ibase; exact Hb|].
    intro E. apply Hd. rewrite E. apply Idom. exists dzero. apply Ibase. exact Hb.
Qed.

Definition gdelays_ok (ns : list net) : Prop :=
  forall n, In n ns -> dneg (dl n) = negb (is_comb (nop n)) /\ nargs n <> [].

Lemma ginv_run rest : forall done rdy tm,
  GInv done rdy tm -> nets_ok nl rdy rest = true -> gdelays_ok rest ->
  GInv (done ++ rest) (fold_left (rdy_next) rest rdy) (gtiming_from tm rest).
Proof.
  induction rest as [|n r IH]; intros done rdy tm HI Hok Hdl;
    cbn [fold_left TimingOrd.gtiming_from nets_ok] in *.
  - rewrite app_nil_r. exact HI.
  - apply andb_prop in Hok. destruct Hok as [Hn Hr].
    replace (done ++ n :: r) with ((done ++ [n]) ++ r) by (rewrite <- app_assoc; reflexivity).
    apply IH.
    + destruct (Hdl n (or_introl eq_refl)) as [H1 H2]. apply ginv_step; auto.
    + exact Hr.
    + intros n' Hn'. apply Hdl. right. exact Hn'.
Qed.

Theorem ginv_final :
  wfb nl = true -> gdelays_ok (nets nl) ->
  GInv (nets nl) (rdy_final nl) gtiming_map.
Proof.
  intros Hwf Hdl. unfold wfb in Hwf.
  repeat (apply andb_prop in Hwf; destruct Hwf as [Hwf ?]).
  unfold rdy_final, TimingOrd.gtiming_map.
  change (nets nl) with ([] ++ nets nl) at 1. apply ginv_run; auto. apply ginv_init.
Qed.

Lemma glongest_of_inv w t :
  wfb nl = true -> gdelays_ok (nets nl) -> gassoc gtiming_map w = Some t ->
  g_is_longest D dzero dadd dleb dneg nl dl w t.
Proof.
  intros Hwf Hdl Ht. pose proof (ginv_final Hwf Hdl) as [_ Iopt _ _ _ _ _].
  destruct (Iopt w t Ht) as [H1 H2]. split.
  - apply grpath_to_cpath. exact H1.
  - intros w0 p Hb Hp.
    pose proof (gcpath_to_rpath _ _ _ Hp dzero (gri_src _ _ Hb)) as H. apply H2 in H. exact H.
Qed.

(* MAIN, any ordered delay domain: every wire's entry is attained by a source path
   (summing left to right) and bounds every source path *)
Theorem timing_is_longest_path_ord :
  wfb nl = true -> gdelays_ok (nets nl) ->
  forall w, In w (map wname (wires nl)) ->
  exists t, gassoc gtiming_map w = Some t /\ g_is_longest D dzero dadd dleb dneg nl dl w t.
Proof.
  intros Hwf Hdl w Hw. pose proof (ginv_final Hwf Hdl) as [Idom _ _ _ _ _ _].
  destruct (proj1 (Idom w) (wfb_all_ready nl Hwf w Hw)) as [t Ht].
  exists t. split; [exact Ht | apply glongest_of_inv; assumption].
Qed.

Theorem max_length_is_max_ord :
  wfb nl = true -> gdelays_ok (nets nl) -> wires nl <> [] ->
  (exists w, g_is_longest D dzero dadd dleb dneg nl dl w gmax_length)
  /\ (forall w t, gassoc gtiming_map w = Some t -> dleb t gmax_length = true).
Proof.
  intros Hwf Hdl Hne. pose proof (ginv_final Hwf Hdl) as [_ _ _ _ Iin _ _].
  unfold TimingOrd.gmax_length. split.
  - assert (Hnn : map snd gtiming_map <> []).
    { destruct (wires nl) as [|x r] eqn:Ew; [congruence|].
      destruct (timing_is_longest_path_ord Hwf Hdl (wname x)) as [t [Ht _]].
      { rewrite Ew. left. reflexivity. }
      intro E. destruct gtiming_map; [cbn in Ht; discriminate Ht | cbn in E; discriminate E]. }
    pose proof (gmaxl_in _ Hnn) as Hin. apply in_map_iff in Hin. destruct Hin as [[w t] [E Hwt]].
    cbn [snd] in E. exists w. rewrite <- E. apply glongest_of_inv; auto.
  - intros w t Ht. apply gmaxl_ge. apply gassoc_in in Ht. apply (in_map snd) in Ht. exact Ht.
Qed.

(* ---------- critical_path: every returned path sums, left to right, to max_length ---------- *)
Hypothesis eqb_le : forall a b, deqb a b = true -> dleb a b = true /\ dleb b a = true.

Section GCPInv.
Variable limit : Z.
Hypothesis Hwf : wfb nl = true.
Hypothesis Hdl : gdelays_ok (nets nl).
Hypothesis Hreg : reg_dests_ok nl.

Let tm := gtiming_map.
Let mx := gmax_length.

(* the summed delays of the path are EQUAL (as the code's == sees it) to max_length:
   below and above in the order *)
Definition ggood_path (wp : wid * list net) : Prop :=
  is_base nl (fst wp) = true /\
  exists wend, gcpath (fst wp) (snd wp) wend
    /\ dleb (gsum (snd wp)) mx = true /\ dleb mx (gsum (snd wp)) = true.

Definition GGood (st : cp_state) : Prop := forall wp, In wp (fst st) -> ggood_path wp.

(* invariant of a call: the time of w, continued along `path`, is == max_length *)
Definition GCall (path : list net) (w : wid) : Prop :=
  exists wend tw, gcpath w path wend /\ gassoc tm w = Some tw
    /\ dleb (fold_left dadd (map dl path) tw) mx = true
    /\ dleb mx (fold_left dadd (map dl path) tw) = true.

Lemma fold_add_mono l : forall a b, dleb a b = true ->
  dleb (fold_left dadd l a) (fold_left dadd l b) = true.
Proof. induction l as [|d l IH]; intros a b H; cbn [fold_left]; [exact H | apply IH; apply add_mono; exact H]. Qed.

Lemma gcp_pass_good fuel : forall st path w,
  GGood st -> GCall path w -> GGood (gcp_pass D dzero dleb deqb nl tm limit fuel st path w).
Proof.
  pose proof (ginv_final Hwf Hdl) as [Idom Iopt Irdy Iargs Iin Ifix Ibase].
  fold tm in Idom, Iopt, Iin, Ifix, Ibase.
  induction fuel as [|f IH]; intros st path w Hg Hc; cbn [gcp_pass]; [exact Hg|].
  destruct (snd st); [exact Hg|].
  destruct Hc as [wend [tw [Hp [Hw [Hle Hge]]]]].
  destruct (is_base nl w) eqn:Hb.
  { intros wp Hin. cbn [fst] in Hin. apply in_app_or in Hin. destruct Hin as [Hin|[<-|[]]].
    - apply Hg. exact Hin.
    - split; [exact Hb|]. exists wend. cbn [fst snd]. split; [exact Hp|].
      rewrite (Ibase w Hb) in Hw. injection Hw as <-. split; assumption. }
  destruct (limit <=? Z.of_nat (length (fst st))); [exact Hg|].
  destruct (find_src (nets nl) w) as [s|] eqn:Hs; [|exact Hg].
  apply find_src_some in Hs. destruct Hs as [Hsn [Hsd Hsw]].
  assert (Hcomb : is_comb (nop s) = true).
  { destruct (is_comb (nop s)) eqn:E; [reflexivity|].
    rewrite <- Hsw, (Hreg s Hsn E Hsd) in Hb. discriminate. }
  destruct (Hdl s Hsn) as [Hneg _]. rewrite Hcomb in Hneg. cbn [negb] in Hneg.
  pose proof (Ifix s Hsn Hneg) as Hfix. rewrite Hsw, Hw in Hfix. injection Hfix as Htw.
  apply fold_pres; [|exact Hg].
  intros st' a Ha Hg'.
  destruct (deqb (gtval tm a) (gmaxl (map (gtval tm) (nargs s)))) eqn:E; [|exact Hg'].
  apply IH; [exact Hg'|].
  destruct (proj1 (Idom a) (Iargs s Hsn Hneg a Ha)) as [ta Hta].
  rewrite (gtval_some _ _ _ Hta) in E. apply eqb_le in E. destruct E as [E1 E2].
  exists wend, ta. split; [apply gcp_cons; auto; rewrite Hsw; exact Hp|].
  split; [exact Hta|]. cbn [map fold_left]. rewrite Htw in Hle, Hge. split.
  - eapply leb_trans; [|exact Hle]. apply fold_add_mono. apply add_mono. exact E1.
  - eapply leb_trans; [exact Hge|]. apply fold_add_mono. apply add_mono. exact E2.
Qed.

Theorem gcritical_paths_good :
  forall wp, In wp (gcritical_path D dzero dadd dleb deqb dneg nl dl limit) -> ggood_path wp.
Proof.
  pose proof (ginv_final Hwf Hdl) as [_ _ _ _ Iin _ _]. fold tm in Iin.
  unfold gcritical_path, gcp_top. fold tm. fold mx.
  assert (H : GGood (fold_left
     (fun st (wt : wid * D) => if deqb (snd wt) mx
                               then gcp_pass D dzero dleb deqb nl tm limit (cp_fuel nl) st [] (fst wt) else st)
     tm ([], false))).
  { apply fold_pres; [|intros wp []].
    intros st [w t] Hin Hg. cbn [fst snd]. destruct (deqb t mx) eqn:E; [|exact Hg].
    apply gcp_pass_good; [exact Hg|]. apply eqb_le in E. destruct E as [E1 E2].
    exists w, t. split; [apply gcp_nil|]. split; [apply Iin; exact Hin|].
    cbn [map fold_left]. split; assumption. }
  exact H.
Qed.
End GCPInv.

Theorem critical_paths_sum_ord limit :
  wfb nl = true -> gdelays_ok (nets nl) -> reg_dests_ok nl ->
  forall w0 p, In (w0, p) (gcritical_path D dzero dadd dleb deqb dneg nl dl limit) ->
  is_base nl w0 = true /\
  exists wend, gcpath w0 p wend /\ dleb (gsum p) gmax_length = true /\ dleb gmax_length (gsum p) = true.
Proof.
  intros Hwf Hdl Hreg w0 p Hin. exact (gcritical_paths_good limit Hwf Hdl Hreg (w0, p) Hin).
Qed.

End OrdProofs.

(* ---------- the integer development is the instance D = Z ---------- *)
Definition zneg (x : Z) : bool := x <? 0.

Lemma dset_is_gdset l k v : dset l k v = gdset Z l k v.
Proof.
  induction l as [|[k' v'] r IH].
  - reflexivity.
  - cbn [dset gdset]. rewrite IH. reflexivity.
Qed.

Lemma assoc_is_gassoc (l : list (wid * Z)) k : assoc l k = gassoc Z l k.
Proof.
  induction l as [|[k' v'] r IH].
  - reflexivity.
  - cbn [assoc gassoc]. rewrite IH. reflexivity.
Qed.

Lemma tval_is_gtval l k : tval l k = gtval Z 0 l k.
Proof. unfold tval, assoc_d, gtval. rewrite assoc_is_gassoc. reflexivity. Qed.

Lemma maxl_is_gmaxl l : maxl l = gmaxl Z 0 Z.leb l.
Proof.
  destruct l as [|x r]; [reflexivity|]. cbn [maxl gmaxl]. revert x.
  induction r as [|y r IH]; intro x; cbn [fold_left]; [reflexivity|].
  rewrite IH. f_equal. unfold gmax2. destruct (y <=? x) eqn:E; lia.
Qed.

Lemma tm_step_is_gtm_step dl tm n : tm_step dl tm n = gtm_step Z 0 Z.add Z.leb zneg dl tm n.
Proof.
  unfold tm_step, gtm_step, zneg. destruct (dl n <? 0); [reflexivity|].
  rewrite dset_is_gdset, maxl_is_gmaxl.
  replace (map (tval tm) (nargs n)) with (map (gtval Z 0 tm) (nargs n))
    by (apply map_ext; intro; symmetry; apply tval_is_gtval).
  reflexivity.
Qed.

Theorem timing_map_Z_instance nl dl :
  timing_map nl dl = gtiming_map Z 0 Z.add Z.leb zneg nl dl.
Proof.
  unfold timing_map, gtiming_map, timing_from, gtiming_from, tm0, gtm0.
  generalize (map (fun w : wid => (w, 0)) (rdy0 nl)). generalize (nets nl).
  induction l as [|n r IH]; intro tm; cbn [fold_left]; [reflexivity|].
  rewrite tm_step_is_gtm_step. apply IH.
Qed.

Theorem max_length_Z_instance nl dl :
  max_length nl dl = gmax_length Z 0 Z.add Z.leb zneg nl dl.
Proof. unfold max_length, gmax_length. rewrite maxl_is_gmaxl, timing_map_Z_instance. reflexivity. Qed.

Lemma fold_left_ext_in {A B} (f g : A -> B -> A) l :
  (forall a b, In b l -> f a b = g a b) -> forall a, fold_left f l a = fold_left g l a.
Proof.
  induction l as [|x r IH]; intros H a; cbn [fold_left]; [reflexivity|].
  rewrite H by (left; reflexivity). apply IH. intros; apply H; right; assumption.
Qed.

Lemma cp_pass_Z_instance nl tm limit fuel : forall st path w,
  cp_pass nl tm limit fuel st path w = gcp_pass Z 0 Z.leb Z.eqb nl tm limit fuel st path w.
Proof.
  induction fuel as [|f IH]; intros st path w; cbn [cp_pass gcp_pass]; [reflexivity|].
  destruct (snd st); [reflexivity|]. destruct (is_base nl w); [reflexivity|].
  destruct (limit <=? Z.of_nat (length (fst st))); [reflexivity|].
  destruct (find_src (nets nl) w) as [s|]; [|reflexivity].
  apply fold_left_ext_in. intros st' a _.
  rewrite tval_is_gtval, maxl_is_gmaxl.
  replace (map (tval tm) (nargs s)) with (map (gtval Z 0 tm) (nargs s))
    by (apply map_ext; intro; symmetry; apply tval_is_gtval).
  destruct (gtval Z 0 tm a =? gmaxl Z 0 Z.leb (map (gtval Z 0 tm) (nargs s))); [apply IH | reflexivity].
Qed.

Theorem critical_path_Z_instance nl dl limit :
  critical_path nl dl limit = gcritical_path Z 0 Z.add Z.leb Z.eqb zneg nl dl limit.
Proof.
  unfold critical_path, gcritical_path, cp_top, gcp_top.
  rewrite <- timing_map_Z_instance, <- max_length_Z_instance. f_equal.
  apply fold_left_ext_in. intros st wt _. destruct (snd wt =? max_length nl dl); [|reflexivity].
  apply cp_pass_Z_instance.
Qed.

(* Z satisfies the laws *)
Lemma Z_laws :
  (forall a, Z.leb a a = true)
  /\ (forall a b c, Z.leb a b = true -> Z.leb b c = true -> Z.leb a c = true)
  /\ (forall a b, Z.leb a b = false -> Z.leb b a = true)
  /\ (forall a b d, Z.leb a b = true -> Z.leb (a + d) (b + d) = true)
  /\ (forall a b, Z.eqb a b = true -> Z.leb a b = true /\ Z.leb b a = true).
Proof. repeat split; intros; lia. Qed.

(* ---------- the statements exported to Props/C17.v ---------- *)
Theorem timing_longest_ordered D dzero dadd dleb dneg nl dl :
  ordered_delays D dadd dleb -> wfb nl = true ->
  (forall n, In n (nets nl) -> dneg (dl n) = negb (is_comb (nop n)) /\ nargs n <> []) ->
  forall w, In w (map wname (wires nl)) ->
  exists t, gassoc D (gtiming_map D dzero dadd dleb dneg nl dl) w = Some t
            /\ g_is_longest D dzero dadd dleb dneg nl dl w t.
Proof.
  intros [H1 [H2 [H3 H4]]]. exact (timing_is_longest_path_ord D dzero dadd dleb dleb dneg H1 H2 H3 H4 nl dl).
Qed.

Theorem max_length_ordered D dzero dadd dleb dneg nl dl :
  ordered_delays D dadd dleb -> wfb nl = true ->
  (forall n, In n (nets nl) -> dneg (dl n) = negb (is_comb (nop n)) /\ nargs n <> []) ->
  wires nl <> [] ->
  (exists w, g_is_longest D dzero dadd dleb dneg nl dl w (gmax_length D dzero dadd dleb dneg nl dl))
  /\ (forall w t, gassoc D (gtiming_map D dzero dadd dleb dneg nl dl) w = Some t ->
                  dleb t (gmax_length D dzero dadd dleb dneg nl dl) = true).
Proof.
  intros [H1 [H2 [H3 H4]]]. exact (max_length_is_max_ord D dzero dadd dleb dleb dneg H1 H2 H3 H4 nl dl).
Qed.

Theorem critical_paths_sum_ordered D dzero dadd dleb deqb dneg nl dl limit :
  ordered_delays D dadd dleb -> eq_agrees D dleb deqb -> wfb nl = true ->
  (forall n, In n (nets nl) -> dneg (dl n) = negb (is_comb (nop n)) /\ nargs n <> []) ->
  (forall n, In n (nets nl) -> is_comb (nop n) = false -> has_dest n = true ->
             is_base nl (ndest n) = true) ->
  forall w0 p, In (w0, p) (gcritical_path D dzero dadd dleb deqb dneg nl dl limit) ->
  is_base nl w0 = true /\
  exists wend, gcpath D dneg nl dl w0 p wend
    /\ dleb (gsum D dzero dadd dl p) (gmax_length D dzero dadd dleb dneg nl dl) = true
    /\ dleb (gmax_length D dzero dadd dleb dneg nl dl) (gsum D dzero dadd dl p) = true.
Proof.
  intros [H1 [H2 [H3 H4]]] He.
  exact (critical_paths_sum_ord D dzero dadd dleb deqb dneg H1 H2 H3 H4 nl dl He limit).
Qed.

Lemma Z_ordered : ordered_delays Z Z.add Z.leb /\ eq_agrees Z Z.leb Z.eqb.
Proof. destruct Z_laws as [A [B [C [E F]]]]. split; [repeat split; assumption | exact F]. Qed.

(* a monotone but NOT strictly monotone domain (saturating addition, like float
   absorption 1e16 + 1 = 1e16): the hypotheses are satisfiable beyond Z *)
Definition sat_add (a d : Z) : Z := Z.min (a + d) 10.
Lemma sat_ordered : ordered_delays Z sat_add Z.leb.
Proof. unfold sat_add. repeat split; intros; lia. Qed.

(* ---------- independence of the topological order, any ordered domain ---------- *)
Lemma gcpath_ext D dneg nl1 nl2 (dl : net -> D) w p w' :
  (forall n, In n (nets nl1) -> In n (nets nl2)) ->
  gcpath D dneg nl1 dl w p w' -> gcpath D dneg nl2 dl w p w'.
Proof.
  intros H Hp. induction Hp as [w | w n p w' Hn Hd Hw _ IH].
  - apply gcp_nil.
  - apply gcp_cons; auto.
Qed.

(* two dumps of the same design whose net lists are permutations of each other give,
   for every wire, times that are == (each <= the other) *)
Theorem timing_order_independent_ordered D dzero dadd dleb dneg nl1 nl2 dl :
  ordered_delays D dadd dleb ->
  wires nl1 = wires nl2 -> (forall n, In n (nets nl1) <-> In n (nets nl2)) ->
  wfb nl1 = true -> wfb nl2 = true ->
  (forall n, In n (nets nl1) -> dneg (dl n) = negb (is_comb (nop n)) /\ nargs n <> []) ->
  forall w, In w (map wname (wires nl1)) ->
  exists t1 t2, gassoc D (gtiming_map D dzero dadd dleb dneg nl1 dl) w = Some t1
             /\ gassoc D (gtiming_map D dzero dadd dleb dneg nl2 dl) w = Some t2
             /\ dleb t1 t2 = true /\ dleb t2 t1 = true.
Proof.
  intros Hord Hw Hn Hwf1 Hwf2 Hdl w Hin.
  assert (Hdl2 : forall n, In n (nets nl2) -> dneg (dl n) = negb (is_comb (nop n)) /\ nargs n <> []).
  { intros n H. apply Hdl. apply Hn. exact H. }
  assert (Hb : forall x, is_base nl1 x = is_base nl2 x). { intro x. unfold is_base. rewrite Hw. reflexivity. }
  destruct (timing_longest_ordered D dzero dadd dleb dneg nl1 dl Hord Hwf1 Hdl w Hin)
    as [t1 [E1 [[a1 [p1 [B1 [P1 S1]]]] U1]]].
  rewrite Hw in Hin.
  destruct (timing_longest_ordered D dzero dadd dleb dneg nl2 dl Hord Hwf2 Hdl2 w Hin)
    as [t2 [E2 [[a2 [p2 [B2 [P2 S2]]]] U2]]].
  exists t1, t2. split; [exact E1|]. split; [exact E2|]. split.
  - rewrite <- S1. apply (U2 a1 p1); [rewrite <- Hb; exact B1|].
    eapply gcpath_ext; [|exact P1]. intros n Hx. apply Hn. exact Hx.
  - rewrite <- S2. apply (U1 a2 p2); [rewrite Hb; exact B2|].
    eapply gcpath_ext; [|exact P2]. intros n Hx. apply Hn. exact Hx.
Qed.
