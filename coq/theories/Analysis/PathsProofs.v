(* C17 -- proofs about Analysis/Paths.v against Analysis/PathSpec.v *)
From PyRTL Require Import Analysis.PathSpec.
From Coq Require Import ZifyBool.

(* ---------- decidable equality of nets (LogicNet.__eq__) ---------- *)

Lemma list_eqb_Z_eq l1 : forall l2, list_eqb Z.eqb l1 l2 = true <-> l1 = l2.
Proof.
  induction l1 as [|x r IH]; intros [|y s]; cbn [list_eqb]; try (split; [discriminate | congruence]).
  - split; reflexivity.
  - rewrite andb_true_iff, IH, Z.eqb_eq. split; [intros [-> ->]; reflexivity | intro H; injection H; auto].
Qed.

Lemma op_eqb_eq a b : op_eqb a b = true <-> a = b.
Proof.
  destruct a, b; cbn [op_eqb]; try (split; [reflexivity || discriminate | reflexivity || discriminate]).
  - rewrite list_eqb_Z_eq. split; [intros ->; reflexivity | intro H; injection H; auto].
  - rewrite Z.eqb_eq. split; [intros ->; reflexivity | intro H; injection H; auto].
  - rewrite Z.eqb_eq. split; [intros ->; reflexivity | intro H; injection H; auto].
Qed.

Lemma net_eqb_eq a b : net_eqb a b = true <-> a = b.
Proof.
  unfold net_eqb. rewrite !andb_true_iff, op_eqb_eq, list_eqb_Z_eq, Z.eqb_eq.
  destruct a, b; simpl. split.
  - intros [[-> ->] ->]. reflexivity.
  - intro H. injection H. auto.
Qed.

Lemma net_eqb_refl a : net_eqb a a = true.
Proof. apply net_eqb_eq. reflexivity. Qed.

Lemma net_in_iff n l : net_in n l = true <-> In n l.
Proof.
  unfold net_in. rewrite existsb_exists. split.
  - intros [x [Hx E]]. apply net_eqb_eq in E. subst. exact Hx.
  - intro H. exists n. split; [exact H | apply net_eqb_refl].
Qed.

Lemma net_in_false n l : net_in n l = false <-> ~ In n l.
Proof. rewrite <- net_in_iff. destruct (net_in n l); split; congruence. Qed.

Lemma list_eqb_net_eq l1 : forall l2, list_eqb net_eqb l1 l2 = true <-> l1 = l2.
Proof.
  induction l1 as [|x r IH]; intros [|y s]; cbn [list_eqb]; try (split; [discriminate | congruence]).
  - split; reflexivity.
  - rewrite andb_true_iff, IH, net_eqb_eq. split; [intros [-> ->]; reflexivity | intro H; injection H; auto].
Qed.

Lemma mem_in_iff' w l : mem_in w l = true <-> In w l.
Proof.
  unfold mem_in. rewrite existsb_exists. split.
  - intros [x [Hx E]]. apply Z.eqb_eq in E. subst. exact Hx.
  - intro H. exists w. split; [exact H | apply Z.eqb_refl].
Qed.

Lemma NoDup_app_snoc {A} (l : list A) x : NoDup l -> ~ In x l -> NoDup (l ++ [x]).
Proof.
  induction l as [|y r IH]; intros Hnd Hx; cbn [app].
  - constructor; [intros []|constructor].
  - inversion Hnd as [|y' r' Hy Hr]; subst. constructor.
    + intro H. apply in_app_or in H. destruct H as [H|[H|[]]]; [contradiction|].
      apply Hx. left. symmetry. exact H.
    + apply IH; [exact Hr|]. intro H. apply Hx. right. exact H.
Qed.

Section PP.
Variable nl : netlist.

Lemma readers_iff w n : In n (readers nl w) <-> In n (nets nl) /\ In w (nargs n).
Proof. unfold readers. rewrite filter_In, mem_in_iff'. reflexivity. Qed.

Lemma readports_iff m rn : In rn (readports nl m) <-> In rn (nets nl) /\ nop rn = OpMemRd m.
Proof.
  unfold readports. rewrite filter_In. split; intros [H1 H2]; split; auto.
  - destruct (nop rn); try discriminate. apply Z.eqb_eq in H2. subst. reflexivity.
  - rewrite H2. apply Z.eqb_refl.
Qed.

(* what the DFS enumerates: chains in which every net picked from dst_nets was
   not yet on the current path.  (The read port appended after a memory write
   is NOT tested -- exactly as in the code.) *)
Inductive dchain : list net -> wid -> list net -> wid -> Prop :=
| dc_nil cur w : dchain cur w [] w
| dc_net cur w n p w' :
    In n (nets nl) -> In w (nargs n) -> has_dest n = true -> ~ In n cur ->
    dchain (cur ++ [n]) (ndest n) p w' -> dchain cur w (n :: p) w'
| dc_mem cur w n m rn p w' :
    In n (nets nl) -> In w (nargs n) -> nop n = OpMemWr m -> ~ In n cur ->
    In rn (nets nl) -> nop rn = OpMemRd m ->
    dchain (cur ++ [n; rn]) (ndest rn) p w' -> dchain cur w (n :: rn :: p) w'.

Lemma has_dest_memwr n : has_dest n = true <-> forall m, nop n <> OpMemWr m.
Proof. unfold has_dest. destruct (nop n); split; try congruence; intro H; try reflexivity.
  exfalso. eapply H. reflexivity. Qed.

Lemma dfs_sound dst fuel : forall w cur p,
  In p (dfs nl dst fuel w cur) -> exists q, p = cur ++ q /\ dchain cur w q dst.
Proof.
  induction fuel as [|f IH]; intros w cur p H; cbn [dfs] in H; [destruct H|].
  apply in_app_or in H. destruct H as [H|H].
  - destruct (w =? dst) eqn:E; [|destruct H]. destruct H as [<-|[]].
    apply Z.eqb_eq in E. subst. exists []. split; [rewrite app_nil_r; reflexivity | apply dc_nil].
  - apply in_flat_map in H. destruct H as [n [Hn H]].
    apply readers_iff in Hn. destruct Hn as [Hn Hw].
    destruct (net_in n cur) eqn:Ein; [destruct H|]. apply net_in_false in Ein.
    destruct (nop n) eqn:Eop;
      try (apply IH in H; destruct H as [q [-> Hq]]; exists (n :: q);
           split; [rewrite <- app_assoc; reflexivity |
                   apply dc_net; auto; unfold has_dest; rewrite Eop; reflexivity]).
    apply in_flat_map in H. destruct H as [rn [Hrn H]].
    apply readports_iff in Hrn. destruct Hrn as [Hrn Hop].
    apply IH in H. destruct H as [q [-> Hq]]. exists (n :: rn :: q).
    split; [rewrite <- app_assoc; reflexivity | eapply dc_mem; eauto].
Qed.

Lemma dfs_complete dst cur w q :
  dchain cur w q dst -> forall fuel, (length q < fuel)%nat ->
  In (cur ++ q) (dfs nl dst fuel w cur).
Proof.
  intro H. induction H as [cur w | cur w n p w' Hn Hw Hd Hc _ IH
                           | cur w n m rn p w' Hn Hw Hop Hc Hrn Hrop _ IH];
    intros [|f] Hf; try (cbn [length] in Hf; lia); cbn [dfs].
  - apply in_or_app. left. rewrite Z.eqb_refl, app_nil_r. left. reflexivity.
  - apply in_or_app. right. apply in_flat_map. exists n. split; [apply readers_iff; auto|].
    apply net_in_false in Hc. rewrite Hc.
    assert (E : cur ++ n :: p = (cur ++ [n]) ++ p) by (rewrite <- app_assoc; reflexivity).
    rewrite E. cbn [length] in Hf.
    unfold has_dest in Hd. destruct (nop n); try discriminate; apply IH; lia.
  - apply in_or_app. right. apply in_flat_map. exists n. split; [apply readers_iff; auto|].
    apply net_in_false in Hc. rewrite Hc, Hop. apply in_flat_map. exists rn.
    split; [apply readports_iff; auto|].
    assert (E : cur ++ n :: rn :: p = (cur ++ [n; rn]) ++ p) by (rewrite <- app_assoc; reflexivity).
    rewrite E. cbn [length] in Hf. apply IH. lia.
Qed.

Lemma dchain_chain cur w q dst : dchain cur w q dst -> chain nl w q dst.
Proof.
  intro H. induction H.
  - apply ch_nil.
  - apply ch_net; auto.
  - eapply ch_mem; eauto.
Qed.

Lemma chain_dchain w q dst : chain nl w q dst ->
  forall cur, NoDup (cur ++ q) -> dchain cur w q dst.
Proof.
  intro H. induction H as [w | w n p w' Hn Hw Hd _ IH | w n m rn p w' Hn Hw Hop Hrn Hrop _ IH];
    intros cur Hnd.
  - apply dc_nil.
  - apply dc_net; auto.
    + apply NoDup_remove_2 in Hnd. intro Hc. apply Hnd. apply in_or_app. left. exact Hc.
    + apply IH. rewrite <- app_assoc. exact Hnd.
  - eapply dc_mem; eauto.
    + apply NoDup_remove_2 in Hnd. intro Hc. apply Hnd. apply in_or_app. left. exact Hc.
    + apply IH. rewrite <- app_assoc. exact Hnd.
Qed.

Lemma dchain_nodup cur w q dst :
  dchain cur w q dst -> NoDup cur -> (forall n, In n q -> has_dest n = true) -> NoDup (cur ++ q).
Proof.
  intro H. induction H as [cur w | cur w n p w' Hn Hw Hd Hc _ IH
                           | cur w n m rn p w' Hn Hw Hop Hc Hrn Hrop _ IH]; intros Hnd Hall.
  - rewrite app_nil_r. exact Hnd.
  - replace (cur ++ n :: p) with ((cur ++ [n]) ++ p) by (rewrite <- app_assoc; reflexivity).
    apply IH.
    + apply NoDup_app_snoc; auto.
    + intros x Hx. apply Hall. right. exact Hx.
  - exfalso. specialize (Hall n (or_introl eq_refl)). unfold has_dest in Hall.
    rewrite Hop in Hall. discriminate.
Qed.

Lemma chain_in_nets w q dst : chain nl w q dst -> forall n, In n q -> In n (nets nl).
Proof.
  intro H. induction H; intros x Hx.
  - destruct Hx.
  - destruct Hx as [<-|Hx]; auto.
  - destruct Hx as [<-|[<-|Hx]]; auto.
Qed.

Lemma chain_first w q dst : chain nl w q dst ->
  match q with [] => True | n :: _ => In w (nargs n) end.
Proof. intro H. destruct H; auto. Qed.

(* ---------- sort and filter keep membership ---------- *)

Lemma insert_desc_in {A} (p : list A) l x : In x (insert_desc p l) <-> x = p \/ In x l.
Proof.
  induction l as [|q r IH]; cbn [insert_desc].
  - cbn [In]. intuition.
  - destruct (length p <? length q)%nat; cbn [In]; [rewrite IH|]; intuition.
Qed.

Lemma sort_desc_in {A} (l : list (list A)) x : In x (sort_desc l) <-> In x l.
Proof.
  unfold sort_desc. induction l as [|p r IH]; cbn [fold_right]; [reflexivity|].
  rewrite insert_desc_in, IH. cbn [In]. intuition.
Qed.

Lemma suffix_filter_in l x : In x (suffix_filter l) -> In x l.
Proof.
  induction l as [|p r IH]; cbn [suffix_filter]; [auto|].
  destruct (existsb (fun q => is_suffix q p) r); cbn [In]; intuition.
Qed.

(* a path survives the filter when nothing else in the list is a suffix of it *)
Lemma suffix_filter_keep l p :
  In p l -> (forall q, In q l -> is_suffix q p = true -> q = p) -> In p (suffix_filter l).
Proof.
  induction l as [|x r IH]; intros Hin Hsuf; [destruct Hin|]. cbn [suffix_filter].
  destruct (in_dec (list_eq_dec (fun a b : net =>
             match Bool.bool_dec (net_eqb a b) true with
             | left e => left (proj1 (net_eqb_eq a b) e)
             | right ne => right (fun e => ne (proj2 (net_eqb_eq a b) e))
             end)) p r) as [Hr|Hr].
  - assert (In p (suffix_filter r)).
    { apply IH; [exact Hr|]. intros q Hq. apply Hsuf. right. exact Hq. }
    destruct (existsb (fun q => is_suffix q x) r); [assumption | right; assumption].
  - destruct Hin as [->|Hin]; [|contradiction].
    destruct (existsb (fun q => is_suffix q p) r) eqn:E.
    + apply existsb_exists in E. destruct E as [q [Hq Hs]].
      exfalso. apply Hr. rewrite <- (Hsuf q (or_intror Hq) Hs). exact Hq.
    + left. reflexivity.
Qed.

Lemma is_suffix_split q p : is_suffix q p = true ->
  exists p1, p = p1 ++ q /\ (length p1 = length p - length q)%nat.
Proof.
  unfold is_suffix. intro H. apply list_eqb_net_eq in H.
  exists (firstn (length p - length q) p). split.
  - rewrite <- H at 2. symmetry. apply firstn_skipn.
  - apply firstn_length_le. lia.
Qed.

(* ---------- soundness ---------- *)

Lemma paths_raw_in src dst p :
  In p (paths_raw nl src dst) <-> p <> [] /\ In p (dfs nl dst (dfs_fuel nl) src []).
Proof.
  unfold paths_raw. rewrite filter_In. unfold nonempty. destruct p; split; intros [H1 H2]; split; auto;
    congruence.
Qed.

Lemma paths_in_raw src dst p : In p (paths nl src dst) -> In p (paths_raw nl src dst).
Proof.
  unfold paths. destruct (src =? dst); [auto|].
  intro H. apply suffix_filter_in in H. apply (proj1 (sort_desc_in _ _)) in H. exact H.
Qed.

(* every returned path is a non-empty net path from src to dst; it repeats no
   net unless it passes through a memory write (see paths_memloop_refuted) *)
Theorem paths_sound src dst p :
  In p (paths nl src dst) ->
  p <> [] /\ chain nl src p dst /\ ((forall n, In n p -> has_dest n = true) -> NoDup p).
Proof.
  intro H. apply paths_in_raw in H. apply (proj1 (paths_raw_in _ _ _)) in H. destruct H as [Hne H].
  apply dfs_sound in H. destruct H as [q [E Hq]]. cbn [app] in E. subst q.
  split; [exact Hne|]. split; [eapply dchain_chain; eauto|].
  intro Hall. apply (dchain_nodup _ _ _ _ Hq (NoDup_nil _) Hall).
Qed.

(* ---------- completeness ---------- *)

Lemma nodup_chain_len w q dst : chain nl w q dst -> NoDup q -> (length q < dfs_fuel nl)%nat.
Proof.
  intros Hc Hnd. unfold dfs_fuel.
  assert (length q <= length (nets nl))%nat; [|lia].
  apply NoDup_incl_length; [exact Hnd|]. intros n Hn. eapply chain_in_nets; eauto.
Qed.

Lemma raw_complete src dst p :
  p <> [] -> chain nl src p dst -> NoDup p -> In p (paths_raw nl src dst).
Proof.
  intros Hne Hc Hnd. apply (proj2 (paths_raw_in _ _ _)). split; [exact Hne|].
  change p with ([] ++ p) at 1. apply dfs_complete.
  - apply chain_dchain; auto.
  - eapply nodup_chain_len; eauto.
Qed.

(* loops: no filter is applied when src is dst *)
Theorem paths_complete_loop src p :
  p <> [] -> chain nl src p src -> NoDup p -> In p (paths nl src src).
Proof.
  intros. unfold paths. rewrite Z.eqb_refl. apply raw_complete; auto.
Qed.

(* src <> dst: complete under the guard that excludes F18 -- no net of the
   path other than the first one reads src (in particular: whenever no net reads
   both src and another wire reachable from src) *)
Theorem paths_complete_guarded src dst p :
  src <> dst -> p <> [] -> chain nl src p dst -> NoDup p ->
  (forall n, In n (tl p) -> ~ In src (nargs n)) ->
  In p (paths nl src dst).
Proof.
  intros Hsd Hne Hc Hnd Hguard. unfold paths.
  destruct (src =? dst) eqn:E; [lia|].
  apply suffix_filter_keep.
  - apply (proj2 (sort_desc_in _ _)). apply raw_complete; auto.
  - intros q Hq Hs. apply (proj1 (sort_desc_in _ _)) in Hq. apply (proj1 (paths_raw_in _ _ _)) in Hq. destruct Hq as [Hqne Hq].
    apply dfs_sound in Hq. destruct Hq as [q' [Eq Hq]]. cbn [app] in Eq. subst q'.
    apply dchain_chain in Hq. apply chain_first in Hq.
    apply is_suffix_split in Hs. destruct Hs as [p1 [Ep _]].
    destruct p1 as [|x p1]; [rewrite Ep; reflexivity|]. exfalso.
    destruct q as [|n q]; [congruence|].
    apply (Hguard n); [|exact Hq]. rewrite Ep. cbn [app tl]. apply in_or_app. right. left. reflexivity.
Qed.

End PP.

(* ---------- the two witnesses ---------- *)

(* F18: b = ~a; c = a & b; o <<= c.   paths(a, o) returns 1 of the 2 simple paths *)
Definition f18_nl : netlist :=
  {| wires := [ mkWire 1 1 KInput; mkWire 2 1 KWire; mkWire 3 1 KWire; mkWire 4 1 KOutput ];
     nets := [ mkNet OpNot [1] 2; mkNet OpAnd [1; 2] 3; mkNet OpW [3] 4 ];
     mems := [] |}.
Definition f18_path : list net := [ mkNet OpNot [1] 2; mkNet OpAnd [1; 2] 3; mkNet OpW [3] 4 ].

Ltac nodup_dec := repeat (constructor; [cbn [In]; intuition discriminate|]); constructor.

Lemma f18_simple : simple_path f18_nl 1 f18_path 4.
Proof.
  unfold simple_path, f18_path. split; [discriminate|]. split.
  - repeat (apply ch_net; [cbn; tauto | cbn; tauto | reflexivity |]). apply ch_nil.
  - split; [nodup_dec|]. split; [cbn; nodup_dec|]. intros _. cbn. intuition discriminate.
Qed.

Theorem paths_reconvergence_refuted :
  exists nl src dst p, wfb nl = true /\ simple_path nl src p dst /\ ~ In p (paths nl src dst).
Proof.
  exists f18_nl, 1, 4, f18_path. split; [vm_compute; reflexivity|]. split; [exact f18_simple|].
  vm_compute. intuition discriminate.
Qed.

(* memory write -> read loop: i -> addr; rd = m[addr]; m[wa] <<= rd + 1 (truncated); o <<= ~rd.
   paths(i, o) contains a path in which the read net occurs twice *)
Definition memloop_nl : netlist :=
  {| wires := [ mkWire 1 1 KInput; mkWire 2 1 KInput; mkWire 3 1 KWire; mkWire 4 1 KWire;
                mkWire 5 1 (KConst 1); mkWire 6 1 KWire; mkWire 7 1 KWire; mkWire 8 1 KOutput;
                mkWire 9 1 (KConst 1) ];
     nets := [ mkNet OpW [1] 3; mkNet (OpMemRd 0) [3] 4; mkNet OpXor [4; 5] 6;
               mkNet OpNot [4] 7; mkNet OpW [7] 8; mkNet (OpMemWr 0) [2; 6; 9] 0 ];
     mems := [ mkMem 0 1 1 None ] |}.
Definition memloop_path : list net :=
  [ mkNet OpW [1] 3; mkNet (OpMemRd 0) [3] 4; mkNet OpXor [4; 5] 6; mkNet (OpMemWr 0) [2; 6; 9] 0;
    mkNet (OpMemRd 0) [3] 4; mkNet OpNot [4] 7; mkNet OpW [7] 8 ].

Theorem paths_memloop_refuted :
  exists nl src dst p, wfb nl = true /\ In p (paths nl src dst) /\ ~ NoDup p.
Proof.
  exists memloop_nl, 1, 8, memloop_path. split; [vm_compute; reflexivity|]. split.
  - vm_compute. left. reflexivity.
  - intro H. unfold memloop_path in H.
    inversion H as [|x l _ H1]; subst. inversion H1 as [|x l Hin _]; subst.
    apply Hin. cbn [In]. tauto.
Qed.
