(* C17 -- proofs about Analysis/Paths.v against Analysis/PathSpec.v *)
From PyRTL Require Import Analysis.PathSpec.
From Coq Require Import ZifyBool.

(* ---------- decidable equality of nets (LogicNet.__eq__) ---------- *)

Lemma list_eqb_Z_eq l1 : forall l2, list_eqb Z.eqb l1 l2 = true <-> l1 = l2.
Proof.
  induction l1 as [|x r IH]; intros [|y s]; cbn [list_eqb]; try (split; [discriminate | congruence]).
  - split; reflexivity.
  - rewrite andb_true_iff, IH, Z.eqb_eq. split; [intros [-> ->]; reflexivity | intro H; injection H; auto].
Qed.

Lemma op_eqb_eq a b : op_eqb a b = true <-> a = b.
Proof.
  destruct a, b; cbn [op_eqb]; try (split; [reflexivity || discriminate | reflexivity || discriminate]).
  - rewrite list_eqb_Z_eq. split; [intros ->; reflexivity | intro H; injection H; auto].
  - rewrite Z.eqb_eq. split; [intros ->; reflexivity | intro H; injection H; auto].
  - rewrite Z.eqb_eq. split; [intros ->; reflexivity | intro H; injection H; auto].
Qed.

Lemma net_eqb_eq a b : net_eqb a b = true <-> a = b.
Proof.
  unfold net_eqb. rewrite !andb_true_iff, op_eqb_eq, list_eqb_Z_eq, Z.eqb_eq.
  destruct a, b; simpl. split.
  - intros [[-> ->] ->]. reflexivity.
  - intro H. injection H. auto.
Qed.

Lemma net_eqb_refl a : net_eqb a a = true.
Proof. apply net_eqb_eq. reflexivity. Qed.

Lemma net_in_iff n l : net_in n l = true <-> In n l.
Proof.
  unfold net_in. rewrite existsb_exists. split.
  - intros [x [Hx E]]. apply net_eqb_eq in E. subst. exact Hx.
  - intro H. exists n. split; [exact H | apply net_eqb_refl].
Qed.

Lemma net_in_false n l : net_in n l = false <-> ~ In n l.
Proof. rewrite <- net_in_iff. destruct (net_in n l); split; congruence. Qed.

Lemma list_eqb_net_eq l1 : forall l2, list_eqb net_eqb l1 l2 = true <-> l1 = l2.
Proof.
  induction l1 as [|x r IH]; intros [|y s]; cbn [list_eqb]; try (split; [discriminate | congruence]).
  - split; reflexivity.
  - rewrite andb_true_iff, IH, net_eqb_eq. split; [intros [-> ->]; reflexivity | intro H; injection H; auto].
Qed.

Lemma mem_in_iff' w l : mem_in w l = true <-> In w l.
Proof.
  unfold mem_in. rewrite existsb_exists. split.
  - intros [x [Hx E]]. apply Z.eqb_eq in E. subst. exact Hx.
  - intro H. exists w. split; [exact H | apply Z.eqb_refl].
Qed.

Lemma NoDup_app_snoc {A} (l : list A) x : NoDup l -> ~ In x l -> NoDup (l ++ [x]).
Proof.
  induction l as [|y r IH]; intros Hnd Hx; cbn [app].
  - constructor; [intros []|constructor].
  - inversion Hnd as [|y' r' Hy Hr]; subst. constructor.
    + intro H. apply in_app_or in H. destruct H as [H|[H|[]]]; [contradiction|].
      apply Hx. left. symmetry. exact H.
    + apply IH; [exact Hr|]. intro H. apply Hx. right. exact H.
Qed.

Section PP.
Variable nl : netlist.

Lemma readers_iff w n : In n (readers nl w) <-> In n (nets nl) /\ In w (nargs n).
Proof. unfold readers. rewrite filter_In, mem_in_iff'. reflexivity. Qed.

Lemma readports_iff m rn : In rn (readports nl m) <-> In rn (nets nl) /\ nop rn = OpMemRd m.
Proof.
  unfold readports. rewrite filter_In. split; intros [H1 H2]; split; auto.
  - destruct (nop rn); try discriminate. apply Z.eqb_eq in H2. subst. reflexivity.
  - rewrite H2. apply Z.eqb_refl.
Qed.

(* what the DFS enumerates: chains in which every net picked from dst_nets, and
   every read port followed after a memory write, was not yet on the current path *)
Inductive dchain : list net -> wid -> list net -> wid -> Prop :=
| dc_nil cur w : dchain cur w [] w
| dc_net cur w n p w' :
    In n (nets nl) -> In w (nargs n) -> has_dest n = true -> ~ In n cur ->
    dchain (cur ++ [n]) (ndest n) p w' -> dchain cur w (n :: p) w'
| dc_mem cur w n m rn p w' :
    In n (nets nl) -> In w (nargs n) -> nop n = OpMemWr m -> ~ In n cur ->
    In rn (nets nl) -> nop rn = OpMemRd m -> ~ In rn cur ->
    dchain (cur ++ [n; rn]) (ndest rn) p w' -> dchain cur w (n :: rn :: p) w'.

Lemma has_dest_memwr n : has_dest n = true <-> forall m, nop n <> OpMemWr m.
Proof. unfold has_dest. destruct (nop n); split; try congruence; intro H; try reflexivity.
  exfalso. eapply H. reflexivity. Qed.

Lemma dfs_sound dst fuel : forall w cur p,
  In p (dfs nl dst fuel w cur) -> exists q, p = cur ++ q /\ dchain cur w q dst.
Proof.
  induction fuel as [|f IH]; intros w cur p H; cbn [dfs] in H; [destruct H|].
  apply in_app_or in H. destruct H as [H|H].
  - destruct (w =? dst) eqn:E; [|destruct H]. destruct H as [<-|[]].
    apply Z.eqb_eq in E. subst. exists []. split; [rewrite app_nil_r; reflexivity | apply dc_nil].
  - apply in_flat_map in H. destruct H as [n [Hn H]].
    apply readers_iff in Hn. destruct Hn as [Hn Hw].
    destruct (net_in n cur) eqn:Ein; [destruct H|]. apply net_in_false in Ein.
    destruct (nop n) eqn:Eop;
      try (apply IH in H; destruct H as [q [-> Hq]]; exists (n :: q);
           split; [rewrite <- app_assoc; reflexivity |
                   apply dc_net; auto; unfold has_dest; rewrite Eop; reflexivity]).
    apply in_flat_map in H. destruct H as [rn [Hrn H]].
    apply readports_iff in Hrn. destruct Hrn as [Hrn Hop].
    destruct (net_in rn cur) eqn:Ein2; [destruct H|]. apply net_in_false in Ein2.
    apply IH in H. destruct H as [q [-> Hq]]. exists (n :: rn :: q).
    split; [rewrite <- app_assoc; reflexivity | eapply dc_mem; eauto].
Qed.

Lemma dfs_complete dst cur w q :
  dchain cur w q dst -> forall fuel, (length q < fuel)%nat ->
  In (cur ++ q) (dfs nl dst fuel w cur).
Proof.
  intro H. induction H as [cur w | cur w n p w' Hn Hw Hd Hc _ IH
                           | cur w n m rn p w' Hn Hw Hop Hc Hrn Hrop Hrc _ IH];
    intros [|f] Hf; try (cbn [length] in Hf; lia); cbn [dfs].
  - apply in_or_app. left. rewrite Z.eqb_refl, app_nil_r. left. reflexivity.
  - apply in_or_app. right. apply in_flat_map. exists n. split; [apply readers_iff; auto|].
    apply net_in_false in Hc. rewrite Hc.
    assert (E : cur ++ n :: p = (cur ++ [n]) ++ p) by (rewrite <- app_assoc; reflexivity).
    rewrite E. cbn [length] in Hf.
    unfold has_dest in Hd. destruct (nop n); try discriminate; apply IH; lia.
  - apply in_or_app. right. apply in_flat_map. exists n. split; [apply readers_iff; auto|].
    apply net_in_false in Hc. rewrite Hc, Hop. apply in_flat_map. exists rn.
    split; [apply readports_iff; auto|]. apply net_in_false in Hrc. rewrite Hrc.
    assert (E : cur ++ n :: rn :: p = (cur ++ [n; rn]) ++ p) by (rewrite <- app_assoc; reflexivity).
    rewrite E. cbn [length] in Hf. apply IH. lia.
Qed.

Lemma dchain_chain cur w q dst : dchain cur w q dst -> chain nl w q dst.
Proof.
  intro H. induction H.
  - apply ch_nil.
  - apply ch_net; auto.
  - eapply ch_mem; eauto.
Qed.

Lemma chain_dchain w q dst : chain nl w q dst ->
  forall cur, NoDup (cur ++ q) -> dchain cur w q dst.
Proof.
  intro H. induction H as [w | w n p w' Hn Hw Hd _ IH | w n m rn p w' Hn Hw Hop Hrn Hrop _ IH];
    intros cur Hnd.
  - apply dc_nil.
  - apply dc_net; auto.
    + apply NoDup_remove_2 in Hnd. intro Hc. apply Hnd. apply in_or_app. left. exact Hc.
    + apply IH. rewrite <- app_assoc. exact Hnd.
  - eapply dc_mem; eauto.
    + apply NoDup_remove_2 in Hnd. intro Hc. apply Hnd. apply in_or_app. left. exact Hc.
    + replace (cur ++ n :: rn :: p) with ((cur ++ [n]) ++ rn :: p) in Hnd
        by (rewrite <- app_assoc; reflexivity).
      apply NoDup_remove_2 in Hnd. intro Hc. apply Hnd. apply in_or_app. left.
      apply in_or_app. left. exact Hc.
    + apply IH. rewrite <- app_assoc. exact Hnd.
Qed.

Lemma dchain_nodup cur w q dst :
  dchain cur w q dst -> NoDup cur -> NoDup (cur ++ q).
Proof.
  intro H. induction H as [cur w | cur w n p w' Hn Hw Hd Hc _ IH
                           | cur w n m rn p w' Hn Hw Hop Hc Hrn Hrop Hrc _ IH]; intros Hnd.
  - rewrite app_nil_r. exact Hnd.
  - replace (cur ++ n :: p) with ((cur ++ [n]) ++ p) by (rewrite <- app_assoc; reflexivity).
    apply IH. apply NoDup_app_snoc; auto.
  - replace (cur ++ n :: rn :: p) with ((cur ++ [n; rn]) ++ p) by (rewrite <- app_assoc; reflexivity).
    apply IH. replace (cur ++ [n; rn]) with ((cur ++ [n]) ++ [rn]) by (rewrite <- app_assoc; reflexivity).
    apply NoDup_app_snoc; [apply NoDup_app_snoc; auto|].
    intro H. apply in_app_or in H. destruct H as [H|[H|[]]]; [contradiction|].
    subst rn. congruence.
Qed.

Lemma chain_in_nets w q dst : chain nl w q dst -> forall n, In n q -> In n (nets nl).
Proof.
  intro H. induction H; intros x Hx.
  - destruct Hx.
  - destruct Hx as [<-|Hx]; auto.
  - destruct Hx as [<-|[<-|Hx]]; auto.
Qed.

Lemma chain_first w q dst : chain nl w q dst ->
  match q with [] => True | n :: _ => In w (nargs n) end.
Proof. intro H. destruct H; auto. Qed.

(* ---------- sort and filter keep membership ---------- *)

Lemma insert_desc_in {A} (p : list A) l x : In x (insert_desc p l) <-> x = p \/ In x l.
Proof.
  induction l as [|q r IH]; cbn [insert_desc].
  - cbn [In]. intuition.
  - destruct (length p <? length q)%nat; cbn [In]; [rewrite IH|]; intuition.
Qed.

Lemma sort_desc_in {A} (l : list (list A)) x : In x (sort_desc l) <-> In x l.
Proof.
  unfold sort_desc. induction l as [|p r IH]; cbn [fold_right]; [reflexivity|].
  rewrite insert_desc_in, IH. cbn [In]. intuition.
Qed.

Lemma suffix_filter_in src l x : In x (suffix_filter src l) -> In x l.
Proof.
  induction l as [|p r IH]; cbn [suffix_filter]; [auto|].
  destruct (existsb (fun q => loops_into src q p) r); cbn [In]; intuition.
Qed.

(* a path survives the filter when nothing else in the list loops into it *)
Lemma suffix_filter_keep src l p :
  In p l -> (forall q, In q l -> loops_into src q p = true -> q = p) -> In p (suffix_filter src l).
Proof.
  induction l as [|x r IH]; intros Hin Hsuf; [destruct Hin|]. cbn [suffix_filter].
  destruct (in_dec (list_eq_dec (fun a b : net =>
             match Bool.bool_dec (net_eqb a b) true with
             | left e => left (proj1 (net_eqb_eq a b) e)
             | right ne => right (fun e => ne (proj2 (net_eqb_eq a b) e))
             end)) p r) as [Hr|Hr].
  - assert (In p (suffix_filter src r)).
    { apply IH; [exact Hr|]. intros q Hq. apply Hsuf. right. exact Hq. }
    destruct (existsb (fun q => loops_into src q x) r); [assumption | right; assumption].
  - destruct Hin as [->|Hin]; [|contradiction].
    destruct (existsb (fun q => loops_into src q p) r) eqn:E.
    + apply existsb_exists in E. destruct E as [q [Hq Hs]].
      exfalso. apply Hr. rewrite <- (Hsuf q (or_intror Hq) Hs). exact Hq.
    + left. reflexivity.
Qed.

(* loops_into: q is a suffix of p and the net just before it (if any) drives src *)
Lemma loops_into_split src q p : loops_into src q p = true ->
  exists head, p = head ++ q /\
    (head = [] \/ exists h l, head = h ++ [l] /\ has_dest l = true /\ ndest l = src).
Proof.
  unfold loops_into. set (k := (length p - length q)%nat). intro H.
  apply andb_prop in H. destruct H as [H1 H2]. apply list_eqb_net_eq in H1.
  assert (Hk : length (firstn k p) = k) by (apply firstn_length_le; unfold k; lia).
  rewrite Hk in H1. exists (firstn k p). split.
  - rewrite <- H1. symmetry. apply firstn_skipn.
  - destruct (rev (firstn k p)) as [|l r] eqn:E.
    + left. apply (f_equal (@rev net)) in E. rewrite rev_involutive in E. exact E.
    + right. apply andb_prop in H2. destruct H2 as [H2 H3]. exists (rev r), l.
      split; [|split; [exact H2 | lia]].
      apply (f_equal (@rev net)) in E. rewrite rev_involutive in E. exact E.
Qed.

Lemma firstn_len_app {A} (l1 l2 : list A) : firstn (length l1) (l1 ++ l2) = l1.
Proof. induction l1 as [|x r IH]; cbn [length app firstn]; [reflexivity | rewrite IH; reflexivity]. Qed.

Lemma skipn_len_app {A} (l1 l2 : list A) : skipn (length l1) (l1 ++ l2) = l2.
Proof. induction l1 as [|x r IH]; cbn [length app skipn]; [reflexivity | exact IH]. Qed.

Lemma loops_into_intro src l1 n p2 :
  has_dest n = true -> ndest n = src -> loops_into src p2 ((l1 ++ [n]) ++ p2) = true.
Proof.
  intros Hd Hs. unfold loops_into.
  replace (length ((l1 ++ [n]) ++ p2) - length p2)%nat with (length (l1 ++ [n]))
    by (rewrite (app_length (l1 ++ [n]) p2); lia).
  rewrite firstn_len_app, skipn_len_app, rev_unit, Hd, Hs, Z.eqb_refl.
  rewrite (proj2 (list_eqb_net_eq p2 p2) eq_refl). reflexivity.
Qed.

(* ---------- soundness ---------- *)

Lemma paths_raw_in src dst p :
  In p (paths_raw nl src dst) <-> p <> [] /\ In p (dfs nl dst (dfs_fuel nl) src []).
Proof.
  unfold paths_raw. rewrite filter_In. unfold nonempty. destruct p; split; intros [H1 H2]; split; auto;
    congruence.
Qed.

Lemma paths_in_raw src dst p : In p (paths nl src dst) -> In p (paths_raw nl src dst).
Proof.
  unfold paths. destruct (src =? dst); [auto|].
  intro H. apply suffix_filter_in in H. apply (proj1 (sort_desc_in _ _)) in H. exact H.
Qed.

(* every returned path is a non-empty net path from src to dst that repeats no net *)
Theorem paths_sound src dst p :
  In p (paths nl src dst) -> p <> [] /\ chain nl src p dst /\ NoDup p.
Proof.
  intro H. apply paths_in_raw in H. apply (proj1 (paths_raw_in _ _ _)) in H. destruct H as [Hne H].
  apply dfs_sound in H. destruct H as [q [E Hq]]. cbn [app] in E. subst q.
  split; [exact Hne|]. split; [eapply dchain_chain; eauto|].
  apply (dchain_nodup _ _ _ _ Hq (NoDup_nil _)).
Qed.

(* ---------- completeness ---------- *)

Lemma nodup_chain_len w q dst : chain nl w q dst -> NoDup q -> (length q < dfs_fuel nl)%nat.
Proof.
  intros Hc Hnd. unfold dfs_fuel.
  assert (length q <= length (nets nl))%nat; [|lia].
  apply NoDup_incl_length; [exact Hnd|]. intros n Hn. eapply chain_in_nets; eauto.
Qed.

Lemma raw_complete src dst p :
  p <> [] -> chain nl src p dst -> NoDup p -> In p (paths_raw nl src dst).
Proof.
  intros Hne Hc Hnd. apply (proj2 (paths_raw_in _ _ _)). split; [exact Hne|].
  change p with ([] ++ p) at 1. apply dfs_complete.
  - apply chain_dchain; auto.
  - eapply nodup_chain_len; eauto.
Qed.

(* loops: no filter is applied when src is dst *)
Theorem paths_complete_loop src p :
  p <> [] -> chain nl src p src -> NoDup p -> In p (paths nl src src).
Proof.
  intros. unfold paths. rewrite Z.eqb_refl. apply raw_complete; auto.
Qed.

(* src <> dst: complete under the guard that excludes F18 -- no net of the
   path other than the first one reads src (in particular: whenever no net reads
   both src and another wire reachable from src) *)
Theorem paths_complete_guarded src dst p :
  src <> dst -> p <> [] -> chain nl src p dst -> NoDup p ->
  (forall n, In n (tl p) -> ~ In src (nargs n)) ->
  In p (paths nl src dst).
Proof.
  intros Hsd Hne Hc Hnd Hguard. unfold paths.
  destruct (src =? dst) eqn:E; [lia|].
  apply suffix_filter_keep.
  - apply (proj2 (sort_desc_in _ _)). apply raw_complete; auto.
  - intros q Hq Hs. apply (proj1 (sort_desc_in _ _)) in Hq. apply (proj1 (paths_raw_in _ _ _)) in Hq.
    destruct Hq as [Hqne Hq].
    apply dfs_sound in Hq. destruct Hq as [q' [Eq Hq]]. cbn [app] in Eq. subst q'.
    apply dchain_chain in Hq. apply chain_first in Hq.
    apply loops_into_split in Hs. destruct Hs as [p1 [Ep _]].
    destruct p1 as [|x p1]; [rewrite Ep; reflexivity|]. exfalso.
    destruct q as [|n q]; [congruence|].
    apply (Hguard n); [|exact Hq]. rewrite Ep. cbn [app tl]. apply in_or_app. right. left. reflexivity.
Qed.

(* src <> dst, after the F18 fix: complete for every path that repeats no net
   and does not come back to src -- no guard on the graph shape *)
Theorem paths_complete_nonloop src dst p :
  src <> dst -> p <> [] -> chain nl src p dst -> NoDup p -> ~ In src (visits p) ->
  In p (paths nl src dst).
Proof.
  intros Hsd Hne Hc Hnd Hvis. unfold paths.
  destruct (src =? dst) eqn:E; [lia|].
  apply suffix_filter_keep.
  - apply (proj2 (sort_desc_in _ _)). apply raw_complete; auto.
  - intros q _ Hs. apply loops_into_split in Hs. destruct Hs as [head [Ep [->|[h [l [-> [Hd Hl]]]]]]].
    + rewrite Ep. reflexivity.
    + exfalso. apply Hvis. unfold visits. apply in_map_iff. exists l. split; [exact Hl|].
      apply filter_In. split; [|exact Hd]. rewrite Ep. apply in_or_app. left.
      apply in_or_app. right. left. reflexivity.
Qed.

(* paths(src, dst) returns EVERY simple path (all graphs, memories included) *)
Theorem paths_complete src dst p : simple_path nl src p dst -> In p (paths nl src dst).
Proof.
  intros [Hne [Hc [Hnd [_ Hsrc]]]]. destruct (Z.eq_dec src dst) as [<-|Hneq].
  - apply paths_complete_loop; auto.
  - apply paths_complete_nonloop; auto.
Qed.

(* ---------- the filter does its intended job: no returned path revisits src ---------- *)

Fixpoint dsorted {A} (l : list (list A)) : Prop :=
  match l with
  | [] => True
  | x :: r => (forall y, In y r -> (length y <= length x)%nat) /\ dsorted r
  end.

Lemma insert_desc_sorted {A} (p : list A) l : dsorted l -> dsorted (insert_desc p l).
Proof.
  induction l as [|q r IH]; cbn [insert_desc dsorted].
  - intros _. split; [intros y []|exact I].
  - intros [Hq Hr]. destruct (length p <? length q)%nat eqn:E; cbn [dsorted].
    + split; [|apply IH; exact Hr]. intros y Hy. apply insert_desc_in in Hy.
      destruct Hy as [->|Hy]; [apply Nat.ltb_lt in E; lia | apply Hq; exact Hy].
    + apply Nat.ltb_ge in E. split; [|split; assumption].
      intros y [<-|Hy]; [exact E | specialize (Hq y Hy); lia].
Qed.

Lemma sort_desc_sorted {A} (l : list (list A)) : dsorted (sort_desc l).
Proof.
  unfold sort_desc. induction l as [|p r IH]; cbn [fold_right]; [exact I|].
  apply insert_desc_sorted. exact IH.
Qed.

Lemma suffix_filter_drop src l p :
  dsorted l -> In p (suffix_filter src l) ->
  forall q, In q l -> (length q < length p)%nat -> loops_into src q p = true -> False.
Proof.
  induction l as [|x r IH]; intros Hs Hin q Hq Hlen Hsuf; [destruct Hq|].
  destruct Hs as [Hx Hr]. cbn [suffix_filter] in Hin.
  assert (Hcase : forall (Hp : In p (suffix_filter src r)), False).
  { intro Hp. destruct Hq as [<-|Hq].
    - apply suffix_filter_in in Hp. specialize (Hx p Hp). lia.
    - exact (IH Hr Hp q Hq Hlen Hsuf). }
  destruct (existsb (fun q0 => loops_into src q0 x) r) eqn:E; [exact (Hcase Hin)|].
  destruct Hin as [<-|Hin]; [|exact (Hcase Hin)].
  destruct Hq as [<-|Hq]; [lia|].
  assert (existsb (fun q0 => loops_into src q0 x) r = true); [|congruence].
  apply existsb_exists. exists q. split; assumption.
Qed.

Lemma chain_tail w q dst : chain nl w q dst ->
  forall l1 n p2, q = l1 ++ n :: p2 -> has_dest n = true -> chain nl (ndest n) p2 dst.
Proof.
  intro H. induction H as [w | w n0 p w' Hn Hw Hd Hrest IH | w n0 m rn p w' Hn Hw Hop Hrn Hrop Hrest IH];
    intros l1 n p2 E Hdn.
  - destruct l1; discriminate.
  - destruct l1 as [|x l1]; cbn [app] in E; injection E as E1 E2.
    + subst. exact Hrest.
    + subst. eapply IH; eauto.
  - destruct l1 as [|x [|y l1]]; cbn [app] in E.
    + injection E as E1 E2. subst. unfold has_dest in Hdn. rewrite Hop in Hdn. discriminate.
    + injection E as E1 E2 E3. subst. exact Hrest.
    + injection E as E1 E2 E3. subst. eapply IH; eauto.
Qed.

Lemma chain_nil_eq w dst : chain nl w [] dst -> w = dst.
Proof. intro H. inversion H. reflexivity. Qed.

Lemma NoDup_map_inj {A B} (f : A -> B) (l : list A) :
  NoDup l -> (forall x y, In x l -> In y l -> f x = f y -> x = y) -> NoDup (map f l).
Proof.
  induction l as [|x r IH]; intros Hnd Hinj; cbn [map]; [constructor|].
  inversion Hnd as [|x' r' Hx Hr]; subst. constructor.
  - intro H. apply in_map_iff in H. destruct H as [y [E Hy]].
    assert (y = x) by (apply Hinj; [right; exact Hy | left; reflexivity | exact E]). subst. contradiction.
  - apply IH; [exact Hr|]. intros a b Ha Hb. apply Hinj; right; assumption.
Qed.

Lemma NoDup_app_r {A} (l1 l2 : list A) : NoDup (l1 ++ l2) -> NoDup l2.
Proof.
  induction l1 as [|x r IH]; cbn [app]; [auto|]. intro H. inversion H; subst. apply IH. assumption.
Qed.

Lemma filter_all {A} (f : A -> bool) l : (forall x, In x l -> f x = true) -> filter f l = l.
Proof.
  induction l as [|x r IH]; intro H; cbn [filter]; [reflexivity|].
  rewrite (H x (or_introl eq_refl)), IH; [reflexivity|]. intros y Hy. apply H. right. exact Hy.
Qed.

(* each wire has one driver (Block.sanity_check / net_connections) *)
Definition single_driver : Prop :=
  forall n1 n2, In n1 (nets nl) -> In n2 (nets nl) -> has_dest n1 = true -> has_dest n2 = true ->
                ndest n1 = ndest n2 -> n1 = n2.

(* SOUNDNESS, full: every returned path is a SIMPLE path: it repeats no net and
   no wire, and (src <> dst) never comes back to src -- this is what the suffix
   filter is for, and it does remove every such path. *)
Theorem paths_sound_simple src dst p :
  single_driver -> In p (paths nl src dst) -> simple_path nl src p dst.
Proof.
  intros Hsd Hin. destruct (paths_sound src dst p Hin) as [Hne [Hc Hnd]].
  split; [exact Hne|]. split; [exact Hc|]. split; [exact Hnd|]. split.
  - unfold visits. apply NoDup_map_inj; [apply NoDup_filter; exact Hnd|].
    intros x y Hx Hy E. apply filter_In in Hx. apply filter_In in Hy.
    destruct Hx as [Hx Hdx]. destruct Hy as [Hy Hdy].
    apply Hsd; auto; eapply chain_in_nets; eauto.
  - intros Hneq Hsrc. unfold visits in Hsrc. apply in_map_iff in Hsrc. destruct Hsrc as [n [En Hn]].
    apply filter_In in Hn. destruct Hn as [Hn Hdn].
    apply in_split in Hn. destruct Hn as [l1 [p2 Ep]].
    assert (Hc2 : chain nl src p2 dst).
    { rewrite <- En. eapply chain_tail; eauto. }
    assert (Hne2 : p2 <> []). { intro E. subst p2. apply chain_nil_eq in Hc2. contradiction. }
    assert (Hnd2 : NoDup p2).
    { rewrite Ep in Hnd. apply NoDup_app_r in Hnd. inversion Hnd; assumption. }
    pose proof (raw_complete src dst p2 Hne2 Hc2 Hnd2) as Hraw.
    unfold paths in Hin. destruct (src =? dst) eqn:E; [lia|].
    apply (suffix_filter_drop _ _ _ (sort_desc_sorted _) Hin p2).
    + apply (proj2 (sort_desc_in _ _)). exact Hraw.
    + rewrite Ep, app_length. cbn [length]. lia.
    + rewrite Ep. replace (l1 ++ n :: p2) with ((l1 ++ [n]) ++ p2) by (rewrite <- app_assoc; reflexivity).
      apply loops_into_intro; assumption.
Qed.

(* exact characterisation: returned set = set of simple paths *)
Theorem paths_exact src dst p :
  single_driver -> (In p (paths nl src dst) <-> simple_path nl src p dst).
Proof.
  intros Hsd. split; [apply paths_sound_simple; exact Hsd | apply paths_complete].
Qed.

(* collections of sources / destinations: entry [s][d] is exactly the single-pair answer *)
Theorem paths_multi_pairwise srcs dsts :
  (forall s row d ps, In (s, row) (paths_multi nl srcs dsts) -> In (d, ps) row ->
     In s srcs /\ In d dsts /\ ps = paths nl s d)
  /\ (forall s d, In s srcs -> In d dsts ->
       exists row, In (s, row) (paths_multi nl srcs dsts) /\ In (d, paths nl s d) row).
Proof.
  unfold paths_multi. split.
  - intros s row d ps H1 H2. apply in_map_iff in H1. destruct H1 as [s' [E Hs]].
    injection E as <- <-. apply in_map_iff in H2. destruct H2 as [d' [E Hd]].
    injection E as <- <-. auto.
  - intros s d Hs Hd. exists (map (fun d0 => (d0, paths nl s d0)) dsts). split.
    + apply in_map_iff. exists s. split; [reflexivity | exact Hs].
    + apply in_map_iff. exists d. split; [reflexivity | exact Hd].
Qed.

End PP.

(* ---------- the two witnesses ---------- *)

(* F18 witness: b = ~a; c = a & b; o <<= c.   paths(a, o) used to return 1 of the 2 simple paths *)
Definition f18_nl : netlist :=
  {| wires := [ mkWire 1 1 KInput; mkWire 2 1 KWire; mkWire 3 1 KWire; mkWire 4 1 KOutput ];
     nets := [ mkNet OpNot [1] 2; mkNet OpAnd [1; 2] 3; mkNet OpW [3] 4 ];
     mems := [] |}.
Definition f18_path : list net := [ mkNet OpNot [1] 2; mkNet OpAnd [1; 2] 3; mkNet OpW [3] 4 ].

Ltac nodup_dec := repeat (constructor; [cbn [In]; intuition discriminate|]); constructor.

Lemma f18_simple : simple_path f18_nl 1 f18_path 4.
Proof.
  unfold simple_path, f18_path. split; [discriminate|]. split.
  - repeat (apply ch_net; [cbn; tauto | cbn; tauto | reflexivity |]). apply ch_nil.
  - split; [nodup_dec|]. split; [cbn; nodup_dec|]. intros _. cbn. intuition discriminate.
Qed.

(* F18 is fixed in the code (and in the model): both simple paths are returned *)
Lemma f18_now_complete : In f18_path (paths f18_nl 1 4) /\ length (paths f18_nl 1 4) = 2%nat.
Proof. vm_compute. split; [left; reflexivity | reflexivity]. Qed.

(* memory write -> read loop: i -> addr; rd = m[addr]; m[wa] <<= rd + 1 (truncated); o <<= ~rd.
   paths(i, o) used to contain a path in which the read net occurs twice *)
Definition memloop_nl : netlist :=
  {| wires := [ mkWire 1 1 KInput; mkWire 2 1 KInput; mkWire 3 1 KWire; mkWire 4 1 KWire;
                mkWire 5 1 (KConst 1); mkWire 6 1 KWire; mkWire 7 1 KWire; mkWire 8 1 KOutput;
                mkWire 9 1 (KConst 1) ];
     nets := [ mkNet OpW [1] 3; mkNet (OpMemRd 0) [3] 4; mkNet OpXor [4; 5] 6;
               mkNet OpNot [4] 7; mkNet OpW [7] 8; mkNet (OpMemWr 0) [2; 6; 9] 0 ];
     mems := [ mkMem 0 1 1 None ] |}.
Definition memloop_path : list net :=
  [ mkNet OpW [1] 3; mkNet (OpMemRd 0) [3] 4; mkNet OpXor [4; 5] 6; mkNet (OpMemWr 0) [2; 6; 9] 0;
    mkNet (OpMemRd 0) [3] 4; mkNet OpNot [4] 7; mkNet OpW [7] 8 ].

(* the read-port defect is fixed in the code (and in the model): only the simple
   path is returned, and the formerly returned path with the read net twice is not *)
Lemma memloop_now_sound :
  paths memloop_nl 1 8 = [ [ mkNet OpW [1] 3; mkNet (OpMemRd 0) [3] 4; mkNet OpNot [4] 7; mkNet OpW [7] 8 ] ]
  /\ ~ In memloop_path (paths memloop_nl 1 8) /\ ~ NoDup memloop_path /\ wfb memloop_nl = true.
Proof.
  split; [vm_compute; reflexivity|]. split; [vm_compute; intuition discriminate|].
  split; [|vm_compute; reflexivity].
  intro H. unfold memloop_path in H.
  inversion H as [|x l _ H1]; subst. inversion H1 as [|x l Hin _]; subst.
  apply Hin. cbn [In]. tauto.
Qed.
