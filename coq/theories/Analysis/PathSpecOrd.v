(* C17 -- specification of "longest path" for delays in an arbitrary ordered domain
   (hand-written, trusted).  gsum p is the sum of the gate delays of p taken LEFT TO
   RIGHT from the source, starting from dzero -- the order matters when dadd is a
   rounding (float) addition.  A gate n is on a register-free path iff its delay is
   not negative (dneg (dl n) = false). *)
From PyRTL Require Export Analysis.TimingOrd.

Section SpecOrd.
Variable D : Type.
Variable dzero : D.
Variable dadd : D -> D -> D.
Variable dleb : D -> D -> bool.
Variable dneg : D -> bool.
Variable nl : netlist.
Variable dl : net -> D.

Inductive gcpath : wid -> list net -> wid -> Prop :=
| gcp_nil w : gcpath w [] w
| gcp_cons w n p w' :
    In n (nets nl) -> dneg (dl n) = false -> In w (nargs n) ->
    gcpath (ndest n) p w' -> gcpath w (n :: p) w'.

Definition gsum (p : list net) : D := fold_left dadd (map dl p) dzero.

(* t is attained by a source path to w, and no source path to w exceeds it *)
Definition g_is_longest (w : wid) (t : D) : Prop :=
  (exists w0 p, is_base nl w0 = true /\ gcpath w0 p w /\ gsum p = t)
  /\ (forall w0 p, is_base nl w0 = true -> gcpath w0 p w -> dleb (gsum p) t = true).

End SpecOrd.

(* what the theorems require of the delay domain: a total preorder and an addition
   that is monotone in its LEFT argument (time + gate_delay).  Z with + and <= is one
   (TimingOrdProofs.Z_laws); IEEE-754 round-to-nearest addition on the finite
   binary64 numbers is another (correct rounding is monotone). *)
Definition ordered_delays (D : Type) (dadd : D -> D -> D) (dleb : D -> D -> bool) : Prop :=
  (forall a, dleb a a = true)
  /\ (forall a b c, dleb a b = true -> dleb b c = true -> dleb a c = true)
  /\ (forall a b, dleb a b = false -> dleb b a = true)
  /\ (forall a b d, dleb a b = true -> dleb (dadd a d) (dadd b d) = true).

(* the code's == agrees with the order *)
Definition eq_agrees (D : Type) (dleb deqb : D -> D -> bool) : Prop :=
  forall a b, deqb a b = true -> dleb a b = true /\ dleb b a = true.
