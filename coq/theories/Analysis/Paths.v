(* C17 -- executable model of pyrtl/analysis.py paths(src, dst).
   Definitions only (evaluated by the harness); proofs are in PathsProofs.v.

   The code, for one (src, dst) pair:
     dfs(w, curr_path):  if w is dst: paths.append(curr_path)
                         for dst_net in dst_nets.get(w, []):
                           if dst_net not in curr_path:
                             if dst_net.op == '@':
                               for read_net in mem.readport_nets:
                                 if read_net not in curr_path:
                                   dfs(read_net.dests[0], curr_path + [dst_net, read_net])
                             else: dfs(dst_net.dests[0], curr_path + [dst_net])
     paths = [p for p in paths if len(p) > 0]
     if src is not dst:   (* <-- the suffix filter: `suffix_filter` below *)
        paths = sorted(paths, key=len, reverse=True)
        keep paths[i] unless some p in paths[i+1:] is a suffix of paths[i] and the
        net just before that suffix drives src (`loops_into`)   *)
From PyRTL Require Export Analysis.Timing.

Fixpoint list_eqb {A} (eqb : A -> A -> bool) (l1 l2 : list A) : bool :=
  match l1, l2 with
  | [], [] => true
  | x :: r1, y :: r2 => eqb x y && list_eqb eqb r1 r2
  | _, _ => false
  end.

Definition op_eqb (a b : op) : bool :=
  match a, b with
  | OpW, OpW | OpNot, OpNot | OpAnd, OpAnd | OpOr, OpOr | OpXor, OpXor
  | OpNand, OpNand | OpAdd, OpAdd | OpSub, OpSub | OpMul, OpMul | OpLt, OpLt
  | OpGt, OpGt | OpEq, OpEq | OpMux, OpMux | OpConcat, OpConcat | OpReg, OpReg => true
  | OpSelect i, OpSelect j => list_eqb Z.eqb i j
  | OpMemRd m, OpMemRd m' => m =? m'
  | OpMemWr m, OpMemWr m' => m =? m'
  | _, _ => false
  end.

(* LogicNet.__eq__: op, op_param, args and dests identical *)
Definition net_eqb (a b : net) : bool :=
  op_eqb (nop a) (nop b) && list_eqb Z.eqb (nargs a) (nargs b) && (ndest a =? ndest b).

Definition net_in (n : net) (l : list net) : bool := existsb (net_eqb n) l.

Section Paths.
Variable nl : netlist.

(* dst_nets[w]: every net with w among its args, once (net_connections uses set(args)) *)
Definition readers (w : wid) : list net :=
  filter (fun n => mem_in w (nargs n)) (nets nl).

(* mem.readport_nets *)
Definition readports (m : Z) : list net :=
  filter (fun n => match nop n with OpMemRd m' => m' =? m | _ => false end) (nets nl).

(* mem.writeport_nets *)
Definition writeports (m : Z) : list net :=
  filter (fun n => match nop n with OpMemWr m' => m' =? m | _ => false end) (nets nl).

(* _bits_ports_and_isrom_from_memory(mem): what the default delay of an 'm' gate
   (and area_estimation) is a function of:
     bits  = 2**addrwidth * bitwidth
     ports = max(len(mem.readport_nets), len(mem.writeport_nets))
     isrom = isinstance(mem, RomBlock) *)
Definition mem_shape (x : mem) : Z * Z * Z :=
  (2 ^ maddrw x * mdataw x,
   Z.max (Z.of_nat (length (readports (mid x)))) (Z.of_nat (length (writeports (mid x)))),
   match mrom x with Some _ => 1 | None => 0 end).

Section DFS.
Variable dst : wid.

Fixpoint dfs (fuel : nat) (w : wid) (cur : list net) : list (list net) :=
  match fuel with
  | O => []
  | S f =>
    (if w =? dst then [cur] else [])
    ++ flat_map (fun n =>
         if net_in n cur then []
         else match nop n with
              | OpMemWr m =>
                flat_map (fun rn => if net_in rn cur then []
                                    else dfs f (ndest rn) (cur ++ [n; rn])) (readports m)
              | _ => dfs f (ndest n) (cur ++ [n])
              end) (readers w)
  end.
End DFS.

(* every recursive call adds a net that was not on the path: depth <= #nets *)
Definition dfs_fuel : nat := S (length (nets nl)).

Definition nonempty {A} (l : list A) : bool := match l with [] => false | _ => true end.

(* sorted(paths, key=len, reverse=True): stable, longest first *)
Fixpoint insert_desc {A} (p : list A) (l : list (list A)) : list (list A) :=
  match l with
  | [] => [p]
  | q :: r => if (length p <? length q)%nat then q :: insert_desc p r else p :: q :: r
  end.

Definition sort_desc {A} (l : list (list A)) : list (list A) :=
  fold_right insert_desc [] l.

(* loops_into(q) for paths[i] = p  (analysis.py, after the F18 fix):
     head = p[:len(p) - len(q)]
     p[len(head):] == q  and  (not head or any(w is src for w in head[-1].dests)) *)
Definition loops_into (src : wid) (q p : list net) : bool :=
  let head := firstn (length p - length q) p in
  list_eqb net_eqb (skipn (length head) p) q
  && match rev head with
     | [] => true
     | l :: _ => has_dest l && (ndest l =? src)
     end.

(* THE FILTER (analysis.py:531-547): drop paths[i] when a later (not longer)
   path q is a suffix of it AND the part of paths[i] before q leads back to src. *)
Fixpoint suffix_filter (src : wid) (l : list (list net)) : list (list net) :=
  match l with
  | [] => []
  | p :: r => if existsb (fun q => loops_into src q p) r then suffix_filter src r
              else p :: suffix_filter src r
  end.

Definition paths_raw (src dst : wid) : list (list net) :=
  filter nonempty (dfs dst dfs_fuel src []).

Definition paths (src dst : wid) : list (list net) :=
  if src =? dst then paths_raw src dst
  else suffix_filter src (sort_desc (paths_raw src dst)).

(* paths(src, dst) with collections (or the None defaults = all Inputs / all Outputs):
     for src_wire in src: for dst_wire in dst: all_paths[src_wire][dst_wire] = <the above>
   every pair is treated on its own; in particular the loop filter looks only at
   whether THIS pair has src_wire is dst_wire *)
Definition paths_multi (srcs dsts : list wid) : list (wid * list (wid * list (list net))) :=
  map (fun s => (s, map (fun d => (d, paths s d)) dsts)) srcs.

End Paths.
