(* C17 -- executable model of pyrtl/analysis.py fanout(w):
     _, dst_nets = w._block.net_connections()
     if w not in dst_nets: return 0
     all_args = [arg for net in dst_nets[w] for arg in net.args]
     return len(list(filter(lambda arg: arg is w, all_args)))
   dst_nets[w] lists each net reading w once (net_connections iterates
   set(net.args)), then every argument position equal to w is counted, so
   `a & a` contributes 2.  Definitions only. *)
From PyRTL Require Export Analysis.Paths.

Definition fanout (nl : netlist) (w : wid) : Z :=
  Z.of_nat (length (filter (Z.eqb w) (flat_map nargs (readers nl w)))).
