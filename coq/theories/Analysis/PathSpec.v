(* C17 -- the graph-theoretic SPECIFICATION the analyses are compared with
   (hand-written, trusted; no algorithm of pyrtl/analysis.py is mentioned here).

   * cpath w0 p w : p is a register-free path of gates from wire w0 to wire w
     (each net reads the wire the previous one drives, and no net on it is a
     path-ending gate, i.e. every delay is >= 0);  wsum p = summed gate delays;
     is_longest w t : t is the maximum of wsum over all such paths that start at
     a source (Input / Const / Register).
   * chain src p dst : p is a net path from src to dst in the sense of `paths`:
     a memory-write net is followed by a read port of the same memory;
     simple_path = it repeats no net and no wire.
   * reads i j w : argument position j of net number i is the wire w. *)
From PyRTL Require Export Analysis.Timing Analysis.Paths Analysis.Fanout.

Section Spec.
Variable nl : netlist.
Variable dl : net -> Z.

Inductive cpath : wid -> list net -> wid -> Prop :=
| cp_nil w : cpath w [] w
| cp_cons w n p w' :
    In n (nets nl) -> 0 <= dl n -> In w (nargs n) ->
    cpath (ndest n) p w' -> cpath w (n :: p) w'.

Definition wsum (p : list net) : Z := fold_right Z.add 0 (map dl p).

Definition is_longest (w : wid) (t : Z) : Prop :=
  (exists w0 p, is_base nl w0 = true /\ cpath w0 p w /\ wsum p = t)
  /\ (forall w0 p, is_base nl w0 = true -> cpath w0 p w -> wsum p <= t).

(* net paths of `paths` *)
Inductive chain : wid -> list net -> wid -> Prop :=
| ch_nil w : chain w [] w
| ch_net w n p w' :
    In n (nets nl) -> In w (nargs n) -> has_dest n = true ->
    chain (ndest n) p w' -> chain w (n :: p) w'
| ch_mem w n m rn p w' :
    In n (nets nl) -> In w (nargs n) -> nop n = OpMemWr m ->
    In rn (nets nl) -> nop rn = OpMemRd m ->
    chain (ndest rn) p w' -> chain w (n :: rn :: p) w'.

(* the wires a net path arrives at, in order *)
Definition visits (p : list net) : list wid := map ndest (filter has_dest p).

Definition simple_path (src : wid) (p : list net) (dst : wid) : Prop :=
  p <> [] /\ chain src p dst /\ NoDup p /\ NoDup (visits p)
  /\ (src <> dst -> ~ In src (visits p)).

(* fan-out: the set of (net number, argument position) pairs reading w *)
Definition reads (i j : nat) (w : wid) : Prop :=
  exists n, nth_error (nets nl) i = Some n /\ nth_error (nargs n) j = Some w.

Definition fanout_is (w : wid) (k : Z) : Prop :=
  exists l : list (nat * nat),
    NoDup l /\ (forall i j, In (i, j) l <-> reads i j w) /\ k = Z.of_nat (length l).

End Spec.
