(* C17 -- critical_path: what the limited back-tracking returns (a prefix of the
   unlimited enumeration) and completeness of the unlimited enumeration *)
From PyRTL Require Import Analysis.PathSpec Analysis.TimingProofs.
From Coq Require Import ZifyBool.

Definition prefix {A} (l m : list A) : Prop := exists r, m = l ++ r.

Lemma prefix_refl {A} (l : list A) : prefix l l.
Proof. exists []. rewrite app_nil_r. reflexivity. Qed.

Lemma prefix_nil {A} (l : list A) : prefix [] l.
Proof. exists l. reflexivity. Qed.

(* ---------- part 1: limited = prefix of unlimited (every netlist, no hypothesis) ---------- *)
Section Limit.
Variable nl : netlist.
Variable tm : list (wid * Z).
Variable limit : Z.

Notation paths_t := (list (wid * list net)).

(* outcome of running a limited computation from a not-yet-aborted state *)
Definition outcome (res : cp_state) (acc full : paths_t) : Prop :=
  exists L ab, res = (acc ++ L, ab) /\ prefix L full /\ (ab = false -> L = full)
               /\ (ab = true -> limit <= Z.of_nat (length (acc ++ L))).

Lemma fold_outcome {A} (g : cp_state -> A -> cp_state) (h : A -> paths_t) (l : list A) :
  (forall a acc, In a l -> outcome (g (acc, false) a) acc (h a)) ->
  (forall a acc, g (acc, true) a = (acc, true)) ->
  forall acc, outcome (fold_left g l (acc, false)) acc (flat_map h l).
Proof.
  intros Hg Hab. induction l as [|a r IH]; intro acc; cbn [fold_left flat_map].
  - exists [], false. rewrite app_nil_r. split; [reflexivity|]. split; [apply prefix_refl|].
    split; [reflexivity | discriminate].
  - destruct (Hg a acc (or_introl eq_refl)) as [L1 [ab1 [E1 [P1 [F1 T1]]]]]. rewrite E1.
    destruct ab1.
    + (* aborted inside a: the rest of the fold does nothing *)
      assert (Hrest : forall l' st, snd st = true -> fold_left g l' st = st).
      { induction l' as [|x l' IHl]; intros [ac b] Hb; cbn [fold_left]; [reflexivity|].
        cbn [snd] in Hb. subst b. rewrite Hab. apply IHl. reflexivity. }
      rewrite Hrest by reflexivity.
      exists L1, true. split; [reflexivity|]. split.
      * destruct P1 as [R1 ->]. exists (R1 ++ flat_map h r). rewrite app_assoc. reflexivity.
      * split; [discriminate | exact T1].
    + rewrite (F1 eq_refl) in *.
      destruct (IH (fun a0 acc0 H => Hg a0 acc0 (or_intror H)) (acc ++ h a))
        as [L2 [ab2 [E2 [P2 [F2 T2]]]]].
      rewrite E2. exists (h a ++ L2), ab2. rewrite app_assoc. split; [reflexivity|]. split.
      * destruct P2 as [R2 ->]. exists R2. rewrite app_assoc. reflexivity.
      * split.
        -- intro Hb. rewrite (F2 Hb). reflexivity.
        -- intro Hb. rewrite <- app_assoc in T2. rewrite <- app_assoc. exact (T2 Hb).
Qed.

Lemma cp_pass_aborted fuel acc path w : cp_pass nl tm limit fuel (acc, true) path w = (acc, true).
Proof. destruct fuel; reflexivity. Qed.

Lemma cp_pass_outcome fuel : forall acc path w,
  outcome (cp_pass nl tm limit fuel (acc, false) path w) acc (cp_enum nl tm fuel path w).
Proof.
  induction fuel as [|f IH]; intros acc path w; cbn [cp_pass cp_enum fst snd].
  - exists [], false. rewrite app_nil_r. split; [reflexivity|]. split; [apply prefix_refl|].
    split; [reflexivity | discriminate].
  - destruct (is_base nl w).
    { exists [(w, path)], false. split; [reflexivity|]. split; [apply prefix_refl|].
      split; [reflexivity | discriminate]. }
    destruct (limit <=? Z.of_nat (length acc)) eqn:El.
    { exists [], true. rewrite app_nil_r. split; [reflexivity|]. split; [apply prefix_nil|].
      split; [discriminate | intros _; lia]. }
    destruct (find_src (nets nl) w) as [s|].
    2:{ exists [], false. rewrite app_nil_r. split; [reflexivity|]. split; [apply prefix_refl|].
        split; [reflexivity | discriminate]. }
    apply (fold_outcome
      (fun st' a => if tval tm a =? maxl (map (tval tm) (nargs s))
                    then cp_pass nl tm limit f st' (s :: path) a else st')
      (fun a => if tval tm a =? maxl (map (tval tm) (nargs s))
                then cp_enum nl tm f (s :: path) a else [])).
    + intros a acc0 _. destruct (tval tm a =? maxl (map (tval tm) (nargs s))); [apply IH|].
      exists [], false. rewrite app_nil_r. split; [reflexivity|]. split; [apply prefix_refl|].
      split; [reflexivity | discriminate].
    + intros a acc0. destruct (tval tm a =? maxl (map (tval tm) (nargs s))); [|reflexivity].
      apply cp_pass_aborted.
Qed.

Lemma cp_top_outcome fuel mx :
  outcome (cp_top nl tm limit fuel mx) [] (cp_enum_top nl tm fuel mx).
Proof.
  unfold cp_top, cp_enum_top.
  apply (fold_outcome
    (fun st (wt : wid * Z) => if snd wt =? mx then cp_pass nl tm limit fuel st [] (fst wt) else st)
    (fun wt : wid * Z => if snd wt =? mx then cp_enum nl tm fuel [] (fst wt) else [])).
  - intros wt acc _. destruct (snd wt =? mx); [apply cp_pass_outcome|].
    exists [], false. rewrite app_nil_r. split; [reflexivity|]. split; [apply prefix_refl|].
    split; [reflexivity | discriminate].
  - intros wt acc. destruct (snd wt =? mx); [apply cp_pass_aborted | reflexivity].
Qed.
End Limit.

(* critical_path(cp_limit) is a prefix of the unlimited enumeration; it is the
   whole enumeration when fewer than cp_limit paths came back; and when it is a
   proper prefix (the limit was reached) it holds at least cp_limit paths. *)
Theorem critical_path_is_prefix nl dl limit :
  exists rest, critical_paths_all nl dl = critical_path nl dl limit ++ rest
    /\ (Z.of_nat (length (critical_path nl dl limit)) < limit -> rest = [])
    /\ (rest <> [] -> limit <= Z.of_nat (length (critical_path nl dl limit))).
Proof.
  unfold critical_path, critical_paths_all.
  destruct (cp_top_outcome nl (timing_map nl dl) limit (cp_fuel nl) (max_length nl dl))
    as [L [ab [E [[R P] [F T]]]]].
  cbn [app] in E. rewrite E. cbn [fst]. exists R. split; [exact P|].
  destruct ab.
  - specialize (T eq_refl). cbn [app] in T. split; [intro H; lia | intros _; exact T].
  - specialize (F eq_refl). assert (R = []).
    { rewrite F in P. apply (f_equal (@length _)) in P. rewrite app_length in P.
      destruct R; [reflexivity | cbn [length] in P; lia]. }
    subst R. split; [reflexivity | congruence].
Qed.

(* ---------- part 2: the unlimited enumeration returns every maximal path ---------- *)
Section Complete.
Variable nl : netlist.
Variable dl : net -> Z.

Lemma comb_dest_fresh ns : forall rdy, nets_ok nl rdy ns = true ->
  forall z, In z ns -> is_comb (nop z) = true -> ~ In (ndest z) rdy.
Proof.
  induction ns as [|n0 r IH]; intros rdy Hok z Hz Hc; [destruct Hz|].
  cbn [nets_ok] in Hok. apply andb_prop in Hok. destruct Hok as [H0 Hr].
  destruct Hz as [<-|Hz].
  - unfold net_ok in H0. rewrite Hc in H0.
    apply andb_prop in H0. destruct H0 as [H0 _]. apply andb_prop in H0. destruct H0 as [H0 _].
    apply andb_prop in H0. destruct H0 as [_ H0].
    intro Hin. apply mem_in_iff in Hin. rewrite Hin in H0. discriminate.
  - intro Hin. apply (IH _ Hr z Hz Hc). unfold rdy_next. destruct (is_comb (nop n0)); [right|]; exact Hin.
Qed.

Lemma comb_unique ns : forall rdy, nets_ok nl rdy ns = true ->
  forall n1 n2, In n1 ns -> In n2 ns -> is_comb (nop n1) = true -> is_comb (nop n2) = true ->
  ndest n1 = ndest n2 -> n1 = n2.
Proof.
  induction ns as [|n0 r IH]; intros rdy Hok n1 n2 H1 H2 C1 C2 E; [destruct H1|].
  cbn [nets_ok] in Hok. apply andb_prop in Hok. destruct Hok as [H0 Hr].
  destruct H1 as [<-|H1], H2 as [<-|H2].
  - reflexivity.
  - exfalso. apply (comb_dest_fresh r _ Hr n2 H2 C2). unfold rdy_next. rewrite C1. left. exact E.
  - exfalso. apply (comb_dest_fresh r _ Hr n1 H1 C1). unfold rdy_next. rewrite C2. left. symmetry. exact E.
  - exact (IH _ Hr n1 n2 H1 H2 C1 C2 E).
Qed.

(* consecutive nets of a path: the next one reads what the previous one drives *)
Fixpoint linked (p : list net) : Prop :=
  match p with
  | n1 :: ((n2 :: _) as r) => In (ndest n1) (nargs n2) /\ linked r
  | _ => True
  end.

Lemma linked_pred x q : linked (x :: q) ->
  forall y, In y q -> exists z, In z (x :: q) /\ In (ndest z) (nargs y).
Proof.
  revert x. induction q as [|y0 q IH]; intros x Hl y Hy; [destruct Hy|].
  cbn [linked] in Hl. destruct Hl as [H1 H2]. destruct Hy as [<-|Hy].
  - exists x. split; [left; reflexivity | exact H1].
  - destruct (IH y0 H2 y Hy) as [z [Hz Hr]]. exists z. split; [right; exact Hz | exact Hr].
Qed.

Lemma linked_tail x q : linked (x :: q) -> linked q.
Proof. destruct q; cbn [linked]; [auto | intros [_ H]; exact H]. Qed.

(* acyclicity of a netlist accepted by wfb: a linked sequence of combinational
   nets is at most as long as the net list *)
Lemma linked_len ns : forall rdy, nets_ok nl rdy ns = true ->
  forall p, linked p -> (forall n, In n p -> In n ns /\ is_comb (nop n) = true) ->
  (length p <= length ns)%nat.
Proof.
  induction ns as [|n0 r IH]; intros rdy Hok p Hl Hall.
  - destruct p as [|x q]; [cbn; lia|]. destruct (Hall x (or_introl eq_refl)) as [[] _].
  - destruct p as [|x q]; [cbn; lia|]. cbn [length].
    pose proof Hok as Hok0. cbn [nets_ok] in Hok. apply andb_prop in Hok. destruct Hok as [H0 Hr].
    assert (length q <= length r)%nat; [|lia].
    apply (IH _ Hr q (linked_tail _ _ Hl)). intros y Hy.
    destruct (Hall y (or_intror Hy)) as [Hyn Hyc]. split; [|exact Hyc].
    destruct Hyn as [<-|Hyn]; [|exact Hyn]. exfalso.
    destruct (linked_pred _ _ Hl n0 Hy) as [z [Hz Hr0]].
    destruct (Hall z Hz) as [Hzn Hzc].
    apply (comb_dest_fresh _ _ Hok0 z Hzn Hzc).
    unfold net_ok in H0. rewrite Hyc in H0.
    apply andb_prop in H0. destruct H0 as [H0 _]. apply andb_prop in H0. destruct H0 as [H0 _].
    apply andb_prop in H0. destruct H0 as [H0 _]. rewrite forallb_forall in H0.
    apply mem_in_iff. apply H0. exact Hr0.
Qed.

Lemma cpath_linked w p w' : cpath nl dl w p w' ->
  linked p /\ (forall n, In n p -> In n (nets nl) /\ 0 <= dl n).
Proof.
  intro H. induction H as [w | w n p w' Hn Hd Hw Hp [IH1 IH2]].
  - split; [exact I | intros n []].
  - split.
    + destruct p as [|n2 p']; [exact I|]. cbn [linked]. split; [|exact IH1].
      inversion Hp; subst. assumption.
    + intros x [<-|Hx]; [split; assumption | apply IH2; exact Hx].
Qed.

Lemma cpath_app w l1 l2 w' : cpath nl dl w (l1 ++ l2) w' ->
  exists mid, cpath nl dl w l1 mid /\ cpath nl dl mid l2 w'.
Proof.
  revert w. induction l1 as [|n l1 IH]; intros w H; cbn [app] in H.
  - exists w. split; [apply cp_nil | exact H].
  - inversion H as [|w0 n0 p0 w0' Hn Hd Hw Hp]; subst.
    destruct (IH _ Hp) as [mid [H1 H2]]. exists mid. split; [apply cp_cons; assumption | exact H2].
Qed.

Hypothesis Hwf : wfb nl = true.
Hypothesis Hdl : delays_ok dl (nets nl).
Hypothesis Hreg : reg_dests_ok nl.

Let tm := timing_map nl dl.

Lemma wfb_nets_ok : nets_ok nl (rdy0 nl) (nets nl) = true.
Proof.
  pose proof Hwf as H. unfold wfb in H. repeat (apply andb_prop in H; destruct H as [H ?]). assumption.
Qed.

Lemma comb_of_delay n : In n (nets nl) -> 0 <= dl n -> is_comb (nop n) = true.
Proof.
  intros Hn Hd. destruct (Hdl n Hn) as [H _]. destruct (is_comb (nop n)); [reflexivity|].
  cbn [negb] in H. lia.
Qed.

Lemma cpath_length w p w' : cpath nl dl w p w' -> (length p < cp_fuel nl)%nat.
Proof.
  intro H. destruct (cpath_linked _ _ _ H) as [Hl Hall]. unfold cp_fuel.
  assert (length p <= length (nets nl))%nat; [|lia].
  apply (linked_len _ _ wfb_nets_ok p Hl). intros n Hn. destruct (Hall n Hn) as [H1 H2].
  split; [exact H1 | apply comb_of_delay; assumption].
Qed.

(* going backwards from w along a tight prefix `pre` reaches w0 and emits pre ++ suf *)
Lemma cp_enum_complete w0 : is_base nl w0 = true ->
  forall pre w suf fuel,
  cpath nl dl w0 pre w -> assoc tm w = Some (wsum dl pre) -> (length pre < fuel)%nat ->
  In (w0, pre ++ suf) (cp_enum nl tm fuel suf w).
Proof.
  intro Hb0.
  pose proof (inv_final nl dl Hwf Hdl) as [Idom Iopt Irdy Iargs].
  pose proof (inv2_final nl dl Hwf Hdl) as [Iin Ifix Ibase].
  fold tm in Idom, Iopt, Iin, Ifix, Ibase.
  induction pre as [|n pre' IH] using rev_ind; intros w suf fuel Hp Hw Hf.
  - inversion Hp; subst. destruct fuel as [|f]; [cbn in Hf; lia|].
    cbn [cp_enum app]. rewrite Hb0. left. reflexivity.
  - destruct (cpath_app _ _ _ _ Hp) as [a [Hpa Hlast]].
    inversion Hlast as [|w1 n1 p1 w1' Hn Hd Ha Hnil]; subst. inversion Hnil; subst.
    rewrite app_length in Hf. cbn [length] in Hf.
    destruct fuel as [|f]; [lia|]. cbn [cp_enum].
    pose proof (comb_of_delay n Hn Hd) as Hc.
    assert (Hnb : is_base nl (ndest n) = false).
    { destruct (is_base nl (ndest n)) eqn:E; [|reflexivity]. exfalso.
      apply (comb_dest_fresh _ _ wfb_nets_ok n Hn Hc). apply rdy0_iff. exact E. }
    rewrite Hnb.
    destruct (find_src (nets nl) (ndest n)) as [s|] eqn:Hs.
    2:{ exfalso. clear -Hs Hn Hc. induction (nets nl) as [|x r IHr]; [destruct Hn|].
        cbn [find_src] in Hs. destruct (has_dest x && (ndest x =? ndest n)) eqn:E; [discriminate|].
        destruct Hn as [->|Hn]; [|auto].
        unfold has_dest in E. rewrite Z.eqb_refl in E. destruct (nop n); cbn in *; discriminate. }
    apply find_src_some in Hs. destruct Hs as [Hsn [Hsd Hsw]].
    assert (Hsc : is_comb (nop s) = true).
    { destruct (is_comb (nop s)) eqn:E; [reflexivity|].
      rewrite <- Hsw, (Hreg s Hsn E Hsd) in Hnb. discriminate. }
    assert (s = n) by (apply (comb_unique _ _ wfb_nets_ok); auto). subst s.
    (* tightness of the last step *)
    pose proof (Ifix n Hn Hd) as Hfix. rewrite Hw in Hfix. injection Hfix as Hfix.
    rewrite wsum_app in Hfix. unfold wsum at 2 in Hfix. cbn [map fold_right] in Hfix.
    destruct (proj1 (Idom a) (Iargs n Hn Hd a Ha)) as [ta Hta].
    assert (Hlow : wsum dl pre' <= ta).
    { apply (proj2 (Iopt a ta Hta)).
      pose proof (cpath_to_rpath nl dl _ _ _ Hpa 0 (ri_src _ _ _ _ Hb0)) as H. exact H. }
    assert (Hup : ta <= maxl (map (tval tm) (nargs n))).
    { apply maxl_ge. apply in_map_iff. exists a. split; [apply tval_some; exact Hta | exact Ha]. }
    assert (Eta : ta = wsum dl pre') by lia.
    apply in_flat_map. exists a. split; [exact Ha|].
    rewrite (tval_some _ _ _ Hta).
    replace (ta =? maxl (map (tval tm) (nargs n))) with true by lia.
    rewrite <- app_assoc. cbn [app]. apply IH; [exact Hpa | rewrite Hta, Eta; reflexivity | lia].
Qed.

(* every maximal register-free source path is in the unlimited enumeration *)
Theorem critical_paths_all_complete w0 p wend :
  is_base nl w0 = true -> cpath nl dl w0 p wend -> wsum dl p = max_length nl dl ->
  In (w0, p) (critical_paths_all nl dl).
Proof.
  intros Hb Hp Hs.
  pose proof (inv_final nl dl Hwf Hdl) as [Idom Iopt Irdy Iargs].
  pose proof (inv2_final nl dl Hwf Hdl) as [Iin Ifix Ibase].
  assert (Hr : rpath_in nl dl (nets nl) wend (wsum dl p)).
  { pose proof (cpath_to_rpath nl dl _ _ _ Hp 0 (ri_src _ _ _ _ Hb)) as H. exact H. }
  destruct (proj1 (Idom wend) (Irdy _ _ Hr)) as [t Ht].
  assert (Hge : wsum dl p <= t) by (apply (proj2 (Iopt wend t Ht)); exact Hr).
  assert (Hle : t <= max_length nl dl).
  { unfold max_length. apply maxl_ge. apply assoc_in in Ht. apply (in_map snd) in Ht. exact Ht. }
  assert (Et : t = max_length nl dl) by lia. subst t.
  unfold critical_paths_all, cp_enum_top. apply in_flat_map.
  exists (wend, max_length nl dl). split; [apply assoc_in; exact Ht|]. cbn [fst snd].
  rewrite Z.eqb_refl. rewrite <- (app_nil_r p).
  apply cp_enum_complete; auto.
  - fold tm. rewrite Hs. exact Ht.
  - eapply cpath_length; eauto.
Qed.

End Complete.

(* the statement kept as a Definition so far: when fewer than cp_limit paths are
   returned, every maximal register-free source path is among them *)
Theorem critical_paths_complete nl dl limit :
  wfb nl = true -> delays_ok dl (nets nl) -> reg_dests_ok nl ->
  Z.of_nat (length (critical_path nl dl limit)) < limit ->
  forall w0 p wend, is_base nl w0 = true -> cpath nl dl w0 p wend ->
    wsum dl p = max_length nl dl -> In (w0, p) (critical_path nl dl limit).
Proof.
  intros Hwf Hdl Hreg Hlen w0 p wend Hb Hp Hs.
  destruct (critical_path_is_prefix nl dl limit) as [rest [E [Hnil _]]].
  rewrite (Hnil Hlen), app_nil_r in E. rewrite <- E.
  eapply critical_paths_all_complete; eauto.
Qed.

(* limit not reached: the returned set is exactly the set of maximal source paths *)
Theorem critical_paths_exact nl dl limit :
  wfb nl = true -> delays_ok dl (nets nl) -> reg_dests_ok nl ->
  Z.of_nat (length (critical_path nl dl limit)) < limit ->
  forall w0 p, In (w0, p) (critical_path nl dl limit) <->
    (is_base nl w0 = true /\ exists wend, cpath nl dl w0 p wend /\ wsum dl p = max_length nl dl).
Proof.
  intros Hwf Hdl Hreg Hlen w0 p. split.
  - intro Hin. destruct (critical_paths_sum nl dl limit Hwf Hdl Hreg w0 p Hin) as [Hb [wend [H1 [H2 _]]]].
    split; [exact Hb|]. exists wend. split; assumption.
  - intros [Hb [wend [H1 H2]]]. eapply critical_paths_complete; eauto.
Qed.
