(* Why the sink relation of Block.net_connections must list a net ONCE per wire.

   Block.__iter__ walks `dest_dict[wire]` (built by net_connections) for every wire it
   clears.  Netlist/Iter.v models that table as `readers` (a filter: each reading net
   once, however often the wire occurs among its arguments -- the `set(net.args)` of the
   source).  Here the table is a parameter, so that the dependence is a theorem:

   - with `readers` the parametric iterator IS the iterator of Iter.v (so every C10
     iterator theorem speaks about it);
   - `readers` lists every net at most once;
   - with a table that only collapses ADJACENT repetitions of a wire among the arguments
     (concat(a, b, a) listed twice under a) a netlist that passes the model of
     sanity_check and has a dependency order hits "Cannot Iterate through malformed
     block" under one schedule and iterates under another.                           *)
From PyRTL Require Import Netlist.Iter Netlist.Sanity Netlist.Accepted.
From Coq Require Import List Arith Lia.
Import ListNotations.

Section WithTable.
Variable table : list inet -> wid -> list inet.

Fixpoint iter_loop_with (ns : list inet) (fuel : nat) (oracle : list nat) (st : istate) : ires :=
  match to_clear st with
  | [] => match remaining st with
          | [] => IOk (rev (out st))
          | _ => ILoop
          end
  | _ =>
    match fuel with
    | O => IFuel
    | S fuel' =>
      let c := match oracle with [] => O | c :: _ => c end in
      match take_nth (Nat.modulo c (length (to_clear st))) (to_clear st) with
      | None => IFuel
      | Some (w, rest) =>
          let st1 := {| to_clear := rest; cleared := w :: cleared st;
                        remaining := remaining st; out := out st |} in
          match visit (table ns w) st1 with
          | None => IKeyError
          | Some st2 => iter_loop_with ns fuel' (tl oracle) st2
          end
      end
    end
  end.

Definition iterate_with (nl : netlist) (oracle : list nat) : ires :=
  let ns := number 0 (nets nl) in
  iter_loop_with ns (length (wires nl) + length (nets nl) + 1) oracle
    {| to_clear := base_wires nl; cleared := []; remaining := map fst ns; out := [] |}.
End WithTable.

Lemma iter_loop_with_readers : forall ns fuel oracle st,
  iter_loop_with readers ns fuel oracle st = iter_loop ns fuel oracle st.
Proof.
  intros ns fuel. induction fuel as [|f IH]; intros oracle st; simpl.
  - reflexivity.
  - destruct (to_clear st) as [|w0 tc]; [reflexivity|].
    destruct (take_nth _ _) as [[w rest]|]; [|reflexivity].
    destruct (visit _ _) as [st2|]; [apply IH|reflexivity].
Qed.

Theorem iterate_with_readers : forall nl oracle,
  iterate_with readers nl oracle = iterate nl oracle.
Proof. intros nl oracle. unfold iterate_with, iterate. apply iter_loop_with_readers. Qed.

Local Open Scope nat_scope.
(* `number` gives distinct indices, and a filter keeps them distinct *)
Lemma number_fst_lower : forall A (l : list A) k i x, In (i, x) (number k l) -> k <= i.
Proof.
  intros A l. induction l as [|y r IH]; intros k i x H; simpl in H; [contradiction|].
  destruct H as [H|H]; [inversion H; lia|]. apply IH in H. lia.
Qed.

Lemma number_fst_nodup : forall A (l : list A) k, NoDup (map fst (number k l)).
Proof.
  intros A l. induction l as [|y r IH]; intros k; simpl; constructor.
  - intro H. apply in_map_iff in H. destruct H as [[i x] [Hi Hin]]. simpl in Hi. subst i.
    apply number_fst_lower in Hin. lia.
  - apply IH.
Qed.

Lemma nodup_map_filter : forall A B (f : A -> B) (p : A -> bool) (l : list A),
  NoDup (map f l) -> NoDup (map f (filter p l)).
Proof.
  intros A B f p l. induction l as [|x r IH]; intros H; simpl; [constructor|].
  inversion H as [|? ? Hn Hr]; subst.
  destruct (p x); simpl.
  - constructor; [|apply IH; assumption].
    intro Hin. apply Hn. apply in_map_iff in Hin. destruct Hin as [y [Hy Hin]].
    apply filter_In in Hin. apply in_map_iff. exists y. tauto.
  - apply IH; assumption.
Qed.

Theorem readers_once : forall (l : list net) w, NoDup (map fst (readers (number 0 l) w)).
Proof. intros l w. unfold readers. apply nodup_map_filter. apply number_fst_nodup. Qed.

Theorem readers_exactly_the_reading_nets : forall (l : list net) w i n,
  In (i, n) (readers (number 0 l) w) <-> In (i, n) (number 0 l) /\ mem_in w (nargs n) = true.
Proof. intros l w i n. unfold readers. rewrite filter_In. simpl. tauto. Qed.

(* the table of the seeded variant: one entry per maximal run of equal adjacent arguments *)
Fixpoint runs_of (w : wid) (prev : option wid) (args : list wid) : nat :=
  match args with
  | [] => O
  | a :: r =>
      let same_as_prev := match prev with Some p => Z.eqb p a | None => false end in
      (if andb (Z.eqb a w) (negb same_as_prev) then 1 else 0) + runs_of w (Some a) r
  end.

Definition readers_adjacent (ns : list inet) (w : wid) : list inet :=
  flat_map (fun ig => repeat ig (runs_of w None (nargs (snd ig)))) ns.

Local Open Scope Z_scope.
(* in 1:a/1  2:b/1 ; 3 = concat(a, b, a) ; 4: out = 3 *)
Definition ex_aba : netlist :=
  {| wires := [ mkWire 1 1 KInput; mkWire 2 1 KInput; mkWire 3 3 KWire; mkWire 4 3 KOutput ];
     nets := [ mkNet OpConcat [1; 2; 1] 3; mkNet OpW [3] 4 ];
     mems := [] |}.

Theorem sinks_listed_twice_refuted :
  sanity_block ex_aba = true /\ comb_dest_not_reg ex_aba = true
  /\ topo_sortedb ex_aba (nets ex_aba) = true
  /\ (exists l, iterate ex_aba [1]%nat = IOk l)
  /\ iterate_with readers_adjacent ex_aba [1]%nat = IKeyError
  /\ (exists l, iterate_with readers_adjacent ex_aba [0]%nat = IOk l).
Proof.
  vm_compute. repeat split; try reflexivity; eexists; reflexivity.
Qed.

(* adjacent repetitions alone are harmless for that table: a & a, concat(a, a, b) *)
Definition ex_aab : netlist :=
  {| wires := [ mkWire 1 1 KInput; mkWire 2 1 KInput; mkWire 3 3 KWire; mkWire 4 3 KOutput;
                mkWire 5 1 KWire; mkWire 6 1 KOutput ];
     nets := [ mkNet OpConcat [1; 1; 2] 3; mkNet OpW [3] 4; mkNet OpAnd [1; 1] 5; mkNet OpW [5] 6 ];
     mems := [] |}.

Example adjacent_repeats_agree :
  iterate_with readers_adjacent ex_aab [1; 0; 2]%nat = iterate ex_aab [1; 0; 2]%nat
  /\ (exists l, iterate ex_aab [1; 0; 2]%nat = IOk l).
Proof. vm_compute. split; [reflexivity|eexists; reflexivity]. Qed.
