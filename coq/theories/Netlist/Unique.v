(* The valuation computed by the reference semantics does not depend on which
   dependency order of the nets was used: any two well-formed orders of the
   same nets give the same value to every wire.  This is what makes Python's
   set-iteration order (Block.__iter__ tie-breaking) semantically irrelevant. *)
From PyRTL Require Import Netlist.Sem Netlist.WFDefs.
From Coq Require Import Permutation.

Lemma mem_in_iff w l : mem_in w l = true <-> In w l.
Proof.
  unfold mem_in. rewrite existsb_exists. split.
  - intros [x [Hin Heq]]. apply Z.eqb_eq in Heq. subst. assumption.
  - intros H. exists w. split; [assumption|apply Z.eqb_refl].
Qed.

Section Unique.
Variable nl : netlist.
Variable st : state.

Lemma exec_frame v n w : w <> ndest n -> exec_spec nl st v n w = v w.
Proof.
  intros H. unfold exec_spec. destruct (nop n); try reflexivity;
    try (destruct (op_spec _ _); [apply upd_other; assumption|reflexivity]);
    apply upd_other; assumption.
Qed.

Lemma net_ok_parts rdy n : net_ok nl rdy n = true -> is_comb (nop n) = true ->
  (forall a, In a (nargs n) -> In a rdy) /\ ~ In (ndest n) rdy
  /\ arity_ok (nop n) (length (nargs n)) = true.
Proof.
  unfold net_ok. intros H Hc. rewrite Hc in H.
  apply andb_true_iff in H. destruct H as [H _].
  apply andb_true_iff in H. destruct H as [H Har].
  apply andb_true_iff in H. destruct H as [Hargs Hfresh].
  split; [|split].
  - intros a Ha. rewrite forallb_forall in Hargs. apply mem_in_iff. apply Hargs. assumption.
  - intro Hin. apply mem_in_iff in Hin. rewrite Hin in Hfresh. discriminate.
  - assumption.
Qed.

(* the value a net writes depends on the valuation only through its arguments *)
Lemma exec_congr v v' n :
  arity_ok (nop n) (length (nargs n)) = true -> is_comb (nop n) = true ->
  (forall a, In a (nargs n) -> v a = v' a) ->
  exec_spec nl st v n (ndest n) = exec_spec nl st v' n (ndest n).
Proof.
  intros Har Hc Hargs.
  assert (Hav : argvals nl v n = argvals nl v' n).
  { unfold argvals. apply map_ext_in. intros a Ha. rewrite (Hargs a Ha). reflexivity. }
  unfold exec_spec. rewrite Hav.
  destruct (nop n) eqn:Eop; try discriminate Hc;
    try (unfold argvals; destruct (nargs n) as [|a0 [|a1 [|a2 [|a3 rest]]]];
         try discriminate Har; cbn [map op_spec]; rewrite !upd_same; reflexivity).
  (* memory read *)
  rewrite !upd_same. unfold arg.
  destruct (nargs n) as [|a0 rest]; [discriminate Har|]. cbn [nth].
  rewrite (Hargs a0 (or_introl eq_refl)). reflexivity.
Qed.

Lemma rdy_next_mono rdy n w : In w rdy -> In w (rdy_next rdy n).
Proof. unfold rdy_next. destruct (is_comb (nop n)); [right|]; trivial. Qed.

Lemma fold_rdy_mono ns : forall rdy w, In w rdy -> In w (fold_left rdy_next ns rdy).
Proof.
  induction ns as [|n r IH]; intros rdy w H; simpl; [assumption|].
  apply IH. apply rdy_next_mono. assumption.
Qed.

(* a ready wire is never overwritten by later nets *)
Lemma fold_keeps : forall ns rdy v w,
  nets_ok nl rdy ns = true -> In w rdy -> fold_left (exec_spec nl st) ns v w = v w.
Proof.
  induction ns as [|n r IH]; intros rdy v w Hok Hin; simpl; [reflexivity|].
  simpl in Hok. apply andb_true_iff in Hok. destruct Hok as [Hn Hr].
  rewrite (IH (rdy_next rdy n)); [|assumption|apply rdy_next_mono; assumption].
  destruct (is_comb (nop n)) eqn:Hc.
  - destruct (net_ok_parts rdy n Hn Hc) as [_ [Hfresh _]].
    apply exec_frame. intro Heq. subst w. contradiction.
  - unfold exec_spec. destruct (nop n); try discriminate Hc; reflexivity.
Qed.

(* the final valuation is a fixpoint of every net: re-executing any net changes nothing *)
Lemma fold_fixpoint : forall ns rdy v,
  nets_ok nl rdy ns = true ->
  forall n, In n ns -> forall w,
    exec_spec nl st (fold_left (exec_spec nl st) ns v) n w = fold_left (exec_spec nl st) ns v w.
Proof.
  induction ns as [|n1 r IH]; intros rdy v Hok n Hin w; [contradiction|].
  simpl in Hok. apply andb_true_iff in Hok. destruct Hok as [Hn Hr].
  simpl. destruct Hin as [<-|Hin]; [|apply (IH (rdy_next rdy n1)); assumption].
  set (v1 := exec_spec nl st v n1). set (vf := fold_left (exec_spec nl st) r v1).
  destruct (is_comb (nop n1)) eqn:Hc.
  - destruct (net_ok_parts rdy n1 Hn Hc) as [Hargs [Hfresh Har]].
    destruct (Z.eq_dec w (ndest n1)) as [->|Hne]; [|apply exec_frame; assumption].
    assert (Hvf : forall x, In x (rdy_next rdy n1) -> vf x = v1 x).
    { intros x Hx. unfold vf. apply (fold_keeps r (rdy_next rdy n1)); assumption. }
    assert (Hd : In (ndest n1) (rdy_next rdy n1)).
    { unfold rdy_next. rewrite Hc. left. reflexivity. }
    rewrite (Hvf _ Hd). unfold v1.
    apply exec_congr; try assumption.
    intros a Ha. rewrite (Hvf a (rdy_next_mono rdy n1 a (Hargs a Ha))).
    unfold v1. apply exec_frame. intro Heq. subst a. apply Hfresh. apply Hargs. assumption.
  - unfold exec_spec. destruct (nop n1); try discriminate Hc; reflexivity.
Qed.

(* two fixpoints that agree on the sources agree on everything a dependency order reaches *)
Lemma fixpoints_agree : forall ns rdy v v',
  nets_ok nl rdy ns = true ->
  (forall w, In w rdy -> v w = v' w) ->
  (forall n, In n ns -> forall w, exec_spec nl st v n w = v w) ->
  (forall n, In n ns -> forall w, exec_spec nl st v' n w = v' w) ->
  forall w, In w (fold_left rdy_next ns rdy) -> v w = v' w.
Proof.
  induction ns as [|n r IH]; intros rdy v v' Hok Hag Hf Hf' w Hw; simpl in Hw; [apply Hag; assumption|].
  simpl in Hok. apply andb_true_iff in Hok. destruct Hok as [Hn Hr].
  apply (IH (rdy_next rdy n) v v'); try assumption.
  - intros x Hx. unfold rdy_next in Hx. destruct (is_comb (nop n)) eqn:Hc; [|apply Hag; assumption].
    destruct Hx as [<-|Hx]; [|apply Hag; assumption].
    destruct (net_ok_parts rdy n Hn Hc) as [Hargs [_ Har]].
    rewrite <- (Hf n (or_introl eq_refl)), <- (Hf' n (or_introl eq_refl)).
    apply exec_congr; try assumption. intros a Ha. apply Hag. apply Hargs. assumption.
  - intros m Hm. apply Hf. right. assumption.
  - intros m Hm. apply Hf'. right. assumption.
Qed.

(* Main theorem: any two dependency orders of the same nets compute the same wires. *)
Theorem comb_order_independent l1 l2 rdy v0 :
  nets_ok nl rdy l1 = true -> nets_ok nl rdy l2 = true -> Permutation l1 l2 ->
  forall w, In w (fold_left rdy_next l1 rdy) ->
    fold_left (exec_spec nl st) l1 v0 w = fold_left (exec_spec nl st) l2 v0 w.
Proof.
  intros H1 H2 Hp w Hw.
  apply (fixpoints_agree l1 rdy); try assumption.
  - intros x Hx. rewrite (fold_keeps l1 rdy), (fold_keeps l2 rdy); auto.
  - intros n Hn. apply (fold_fixpoint l1 rdy); assumption.
  - intros n Hn. apply (fold_fixpoint l2 rdy); [assumption|].
    eapply Permutation_in; eassumption.
Qed.

End Unique.
