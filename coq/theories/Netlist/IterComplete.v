(* Completeness of Block.__iter__ for EVERY schedule: on a netlist that passes the
   model of sanity_check, in which no combinational net drives a Register, and
   for which SOME dependency order of its nets exists, the worklist machine of
   Iter.v returns normally under every oracle -- never IKeyError ("Cannot Iterate
   through malformed block"), never ILoop ("non-register loops"), never IFuel.

   Invariants of the worklist machine:
   * to_clear ++ cleared has no duplicates and is exactly the set of source wires
     plus destinations of the already yielded non-register nets; hence every wire
     is popped at most once (single driver; a source is never a destination) and
     fuel = #wires + #nets + 1 suffices;
   * at the top of the loop a net has been yielded iff all its arguments are
     cleared (it is yielded when its last distinct argument is popped), hence
     `remaining.remove(gate)` never raises KeyError;
   * progress: when to_clear is empty, walking along the given dependency order
     shows that every net has all its arguments cleared, hence has been yielded.

   Nets with no argument are never yielded by the real code either; sanity_block
   excludes them (arity rules; a 0-argument concat would need a 0-bit destination,
   and declared wires are at least 1 bit wide). *)
From PyRTL Require Import Netlist.Sanity Netlist.IterCorrect Netlist.SanityCorrect Netlist.Accepted.
From Coq Require Import Permutation.

(* ---- generic list facts -------------------------------------------------- *)

Lemma take_nth_some {A} : forall k (l : list A), (k < length l)%nat ->
  exists x r, take_nth k l = Some (x, r) /\ Permutation (x :: r) l.
Proof.
  induction k as [|k IH]; intros [|a l] H; simpl in *; try lia.
  - exists a, l. split; [reflexivity|apply Permutation_refl].
  - destruct (IH l) as [x [r [E P]]]; [lia|]. rewrite E. exists x, (a :: r). split; [reflexivity|].
    eapply perm_trans; [apply perm_swap|]. apply perm_skip. exact P.
Qed.

Lemma number_in {A} (l : list A) : forall k i x,
  In (i, x) (number k l) <-> (k <= i)%nat /\ nth_error l (i - k) = Some x.
Proof.
  induction l as [|a r IH]; intros k i x; simpl.
  - split; [contradiction|]. intros [_ H]. destruct (i - k)%nat; discriminate.
  - rewrite IH. split.
    + intros [H|[Hle Hn]].
      * injection H as <- <-. rewrite Nat.sub_diag. split; [lia|reflexivity].
      * split; [lia|]. replace (i - k)%nat with (S (i - S k)) by lia. exact Hn.
    + intros [Hle Hn]. destruct (Nat.eq_dec k i) as [->|Hne].
      * left. rewrite Nat.sub_diag in Hn. simpl in Hn. injection Hn as ->. reflexivity.
      * right. split; [lia|]. replace (i - k)%nat with (S (i - S k)) in Hn by lia. exact Hn.
Qed.

Lemma number_fun {A} (l : list A) k i x y :
  In (i, x) (number k l) -> In (i, y) (number k l) -> x = y.
Proof. rewrite !number_in. intros [_ H1] [_ H2]. congruence. Qed.

Lemma number_snd_in {A} (l : list A) k i x : In (i, x) (number k l) -> In x l.
Proof. rewrite number_in. intros [_ H]. eapply nth_error_In. exact H. Qed.

Lemma in_number {A} (l : list A) k x : In x l -> exists i, In (i, x) (number k l).
Proof.
  intros H. apply In_nth_error in H. destruct H as [n Hn]. exists (n + k)%nat.
  apply number_in. split; [lia|]. replace (n + k - k)%nat with n by lia. exact Hn.
Qed.

Lemma number_fst_nodup {A} (l : list A) k : NoDup (map fst (number k l)).
Proof. rewrite number_fst. apply seq_NoDup. Qed.

Lemma nodup_fst_filter {A B} (f : A * B -> bool) (l : list (A * B)) :
  NoDup (map fst l) -> NoDup (map fst (filter f l)).
Proof.
  induction l as [|a r IH]; simpl; intros H; [constructor|].
  inversion H as [|? ? Hni Hnd]; subst. destruct (f a); simpl; [|apply IH; assumption].
  constructor; [|apply IH; assumption]. intro Hin. apply Hni.
  apply in_map_iff in Hin. destruct Hin as [p [Hp1 Hp2]]. apply filter_In in Hp2.
  apply in_map_iff. exists p. split; [assumption|apply Hp2].
Qed.

Lemma nodup_app_disjoint {A} (a b : list A) x : NoDup (a ++ b) -> In x a -> In x b -> False.
Proof.
  induction a as [|y r IH]; simpl; intros Hnd Ha Hb; [contradiction|].
  inversion Hnd as [|? ? Hni Hnd']; subst. destruct Ha as [->|Ha].
  - apply Hni. apply in_or_app. right. assumption.
  - apply IH; assumption.
Qed.

Lemma find_wire_some ws w x : find_wire ws w = Some x -> In x ws /\ wname x = w.
Proof.
  induction ws as [|y r IH]; simpl; [discriminate|].
  destruct (wname y =? w) eqn:E.
  - intros H. injection H as <-. split; [left; reflexivity|lia].
  - intros H. destruct (IH H). split; [right; assumption|assumption].
Qed.

Lemma forallb_mem_mono (l s : list wid) w :
  forallb (fun a => mem_in a s) l = true -> forallb (fun a => mem_in a (w :: s)) l = true.
Proof.
  rewrite !forallb_forall. intros H a Ha. apply mem_in_In'. right. apply mem_in_In'. apply H. assumption.
Qed.

(* two different positions of a net list with pairwise distinct destinations
   cannot drive the same wire *)
Lemma dests_distinct : forall (l : list net) i j g m,
  NoDup (dests_of l) -> nth_error l i = Some g -> nth_error l j = Some m ->
  has_dest (nop g) = true -> has_dest (nop m) = true -> ndest g = ndest m -> i = j.
Proof.
  assert (Hin : forall (l : list net) k m, nth_error l k = Some m -> has_dest (nop m) = true ->
                  In (ndest m) (dests_of l)).
  { intros l k m Hk Hh. apply nth_error_In in Hk. unfold dests_of. apply in_map_iff.
    exists m. split; [reflexivity|]. apply filter_In. split; assumption. }
  induction l as [|a r IH]; intros i j g m Hnd Hi Hj Hg Hm Heq.
  - destruct i; discriminate.
  - assert (Hnd' : NoDup (dests_of r)).
    { unfold dests_of in *. simpl in Hnd. destruct (has_dest (nop a)); [|assumption].
      simpl in Hnd. inversion Hnd; assumption. }
    destruct i as [|i], j as [|j]; simpl in Hi, Hj.
    + reflexivity.
    + exfalso. injection Hi as ->. unfold dests_of in Hnd. simpl in Hnd. rewrite Hg in Hnd.
      simpl in Hnd. inversion Hnd as [|? ? Hni _]; subst. apply Hni. rewrite Heq.
      apply (Hin r j m); assumption.
    + exfalso. injection Hj as ->. unfold dests_of in Hnd. simpl in Hnd. rewrite Hm in Hnd.
      simpl in Hnd. inversion Hnd as [|? ? Hni _]; subst. apply Hni. rewrite <- Heq.
      apply (Hin r i g); assumption.
    + f_equal. eapply IH; eassumption.
Qed.

(* ---- the machine --------------------------------------------------------- *)

Definition yield_st (i : nat) (g : net) (st : istate) : istate :=
  {| to_clear := if is_reg_op (nop g) || negb (has_dest (nop g)) then to_clear st
                 else set_add (ndest g) (to_clear st);
     cleared := cleared st;
     remaining := remove_idx i (remaining st);
     out := (i, g) :: out st |}.

Definition all_cleared (st : istate) (g : net) : bool :=
  forallb (fun a => mem_in a (cleared st)) (nargs g).

Section Complete.
Variable nl : netlist.
Let ns := number 0 (nets nl).
Hypothesis Hs : sanity_block nl = true.
Hypothesis Hr : comb_dest_not_reg nl = true.

Lemma nets_sane g : In g (nets nl) -> sanity_net nl g = true.
Proof.
  intros Hg. destruct (sanity_block_parts nl Hs) as [Hall _].
  rewrite forallb_forall in Hall. apply Hall. assumption.
Qed.

Lemma declared_in w : declared nl w = true -> In w (map wname (wires nl)).
Proof.
  unfold declared. destruct (find_wire (wires nl) w) as [x|] eqn:E; [|discriminate]. intros _.
  apply find_wire_some in E. destruct E as [Hx <-]. apply in_map. assumption.
Qed.

Lemma declared_width w : declared nl w = true -> 1 <= width_of nl w.
Proof.
  unfold declared, width_of. destruct (find_wire (wires nl) w) as [x|] eqn:E; [|discriminate]. intros _.
  apply find_wire_some in E. destruct E as [Hx _].
  destruct (sanity_block_parts nl Hs) as [_ [Hw _]]. rewrite forallb_forall in Hw.
  specialize (Hw x Hx). lia.
Qed.

(* every net has at least one argument *)
Lemma args_nonempty g : In g (nets nl) -> nargs g <> [].
Proof.
  intros Hg Hnil. pose proof (nets_sane g Hg) as Hsn.
  destruct (sanity_net_parts nl g Hsn) as [_ [Hdecl [_ [_ Har]]]].
  rewrite Hnil in Har. destruct (nop g) eqn:Eo; try discriminate Har.
  (* concat with no argument: destination would be 0 bits wide *)
  assert (Hd : declared nl (ndest g) = true) by (apply Hdecl; rewrite ?Eo; reflexivity).
  apply declared_width in Hd.
  unfold sanity_net in Hsn. rewrite ?Eo, Hnil in Hsn.
  repeat (apply andb_true_iff in Hsn; destruct Hsn as [Hsn ?]).
  unfold W in *. simpl in *. lia.
Qed.

Record CInv (st : istate) : Prop := {
  c_inv : Inv nl st;
  c_nodup : NoDup (to_clear st ++ cleared st);
  c_avail : forall w, In w (avail nl (outs st)) -> In w (to_clear st ++ cleared st)
}.

Lemma in_outs st m : In m (outs st) <-> exists j, In (j, m) (out st).
Proof.
  unfold outs. rewrite in_map_iff. split.
  - intros [[j m'] [Hm Hin]]. simpl in Hm. subst. exists j. apply in_rev. assumption.
  - intros [j Hj]. exists (j, m). split; [reflexivity|]. apply in_rev. rewrite rev_involutive. assumption.
Qed.

(* the destination of a not yet yielded combinational net is neither pending nor cleared *)
Lemma dest_fresh st i g :
  CInv st -> In (i, g) ns -> ~ In i (map fst (out st)) ->
  is_reg_op (nop g) || negb (has_dest (nop g)) = false ->
  ~ In (ndest g) (to_clear st ++ cleared st).
Proof.
  intros HC Hig Hni Hcomb Hin.
  apply orb_false_iff in Hcomb. destruct Hcomb as [Hnr Hhd]. apply negb_false_iff in Hhd.
  pose proof (number_snd_in _ _ _ _ Hig) as Hg.
  destruct (sanity_net_parts nl g (nets_sane g Hg)) as [_ [_ [Hnic _]]].
  apply in_app_or in Hin.
  assert (Hav : In (ndest g) (avail nl (outs st))) by (apply (inv_avail _ _ (c_inv st HC)); tauto).
  unfold avail in Hav. apply in_app_or in Hav. destruct Hav as [Hb|Hd].
  - (* a source wire *)
    apply kind_base in Hb. destruct Hb as [Hb|Hb].
    + rewrite (Hnic Hhd) in Hb. discriminate.
    + unfold comb_dest_not_reg in Hr. rewrite forallb_forall in Hr. specialize (Hr g Hg).
      rewrite is_comb_split, Hnr, Hhd, Hb in Hr. discriminate.
  - (* destination of an already yielded net *)
    apply in_map_iff in Hd. destruct Hd as [m [Hdm Hm]]. apply filter_In in Hm.
    destruct Hm as [Hm Hmc]. apply andb_true_iff in Hmc. destruct Hmc as [_ Hmh].
    apply in_outs in Hm. destruct Hm as [j Hj].
    pose proof (inv_in _ _ (c_inv st HC) _ Hj) as Hjn.
    assert (Hij : i = j).
    { unfold ns in Hig. fold ns in Hjn. unfold ns in Hjn.
      apply number_in in Hig. apply number_in in Hjn. rewrite Nat.sub_0_r in Hig, Hjn.
      destruct (sanity_block_parts nl Hs) as [_ [_ [_ [Hnd _]]]].
      eapply (dests_distinct (nets nl) i j g m Hnd); try tauto. symmetry. assumption. }
    subst j. apply Hni. apply in_map_iff. exists (i, m). split; [reflexivity|assumption].
Qed.

Lemma yield_cinv i g st :
  In (i, g) ns -> CInv st -> all_cleared st g = true -> ~ In i (map fst (out st)) ->
  idx_in i (remaining st) = true /\ CInv (yield_st i g st).
Proof.
  intros Hig HC Hall Hni.
  assert (Hrem : idx_in i (remaining st) = true).
  { apply idx_in_In. pose proof (inv_perm _ _ (c_inv st HC)) as Hp.
    assert (Hi : In i (map fst ns)) by (apply in_map_iff; exists (i, g); split; [reflexivity|assumption]).
    apply (Permutation_in _ (Permutation_sym Hp)) in Hi. apply in_app_or in Hi. tauto. }
  split; [assumption|].
  assert (Houts : outs (yield_st i g st) = outs st ++ [g]).
  { unfold outs, yield_st. simpl. rewrite map_app. reflexivity. }
  constructor.
  - apply (visit_inv nl [(i, g)] st).
    + intros ig [<-|[]]. assumption.
    + apply c_inv. assumption.
    + simpl. unfold all_cleared in Hall. rewrite Hall, Hrem. reflexivity.
  - unfold yield_st. cbn [to_clear cleared].
    destruct (is_reg_op (nop g) || negb (has_dest (nop g))) eqn:Er; [apply c_nodup; assumption|].
    unfold set_add. destruct (mem_in (ndest g) (to_clear st)) eqn:Em; [apply c_nodup; assumption|].
    pose proof (dest_fresh st i g HC Hig Hni Er) as Hfresh.
    apply (Permutation_NoDup (l := ndest g :: to_clear st ++ cleared st)).
    + rewrite <- app_assoc. simpl. apply Permutation_middle.
    + constructor; [assumption|apply c_nodup; assumption].
  - rewrite Houts. intros w Hw. unfold yield_st. cbn [to_clear cleared].
    unfold avail in Hw. rewrite filter_app, map_app in Hw.
    assert (Hmono : forall x, In x (to_clear st ++ cleared st) ->
              In x ((if is_reg_op (nop g) || negb (has_dest (nop g)) then to_clear st
                     else set_add (ndest g) (to_clear st)) ++ cleared st)).
    { intros x Hx. apply in_app_or in Hx. apply in_or_app. destruct Hx as [Hx|Hx]; [left|right; assumption].
      destruct (is_reg_op (nop g) || negb (has_dest (nop g))); [assumption|].
      apply set_add_in. right. assumption. }
    apply in_app_or in Hw. destruct Hw as [Hw|Hw].
    + apply Hmono. apply (c_avail st HC). unfold avail. apply in_or_app. left. assumption.
    + apply in_app_or in Hw. destruct Hw as [Hw|Hw].
      * apply Hmono. apply (c_avail st HC). unfold avail. apply in_or_app. right. assumption.
      * simpl in Hw. destruct (negb (is_reg_op (nop g)) && has_dest (nop g)) eqn:Ec; [|contradiction].
        destruct Hw as [<-|[]]. apply andb_true_iff in Ec. destruct Ec as [Ec1 Ec2].
        apply negb_true_iff in Ec1. rewrite Ec1, Ec2. simpl.
        apply in_or_app. left. apply set_add_in. left. reflexivity.
Qed.

(* visiting the readers of the popped wire: never a KeyError, and exactly the
   readers whose arguments are all cleared are yielded *)
Lemma visit_complete : forall gs st,
  NoDup (map fst gs) -> (forall ig, In ig gs -> In ig ns) -> CInv st ->
  (forall i g, In (i, g) gs -> ~ In i (map fst (out st))) ->
  exists st', visit gs st = Some st' /\ CInv st' /\ cleared st' = cleared st /\
    (forall i, In i (map fst (out st')) <->
       In i (map fst (out st)) \/ exists g, In (i, g) gs /\ all_cleared st g = true).
Proof.
  induction gs as [|[i g] r IH]; intros st Hnd Hin HC Hpend.
  - exists st. split; [reflexivity|]. split; [assumption|]. split; [reflexivity|].
    intros i. split; [intros H; left; exact H|]. intros [H|[g [[] _]]]. exact H.
  - simpl. inversion Hnd as [|? ? Hni Hnd']; subst.
    destruct (forallb (fun a => mem_in a (cleared st)) (nargs g)) eqn:Eall.
    + destruct (yield_cinv i g st (Hin _ (or_introl eq_refl)) HC Eall (Hpend i g (or_introl eq_refl)))
        as [Ein HC'].
      rewrite Ein.
      destruct (IH (yield_st i g st) Hnd' (fun ig H => Hin ig (or_intror H)) HC') as [st' [Hv [HC'' [Hcl Hiff]]]].
      { intros j m Hjm. simpl. intros [<-|H].
        - apply Hni. apply in_map_iff. exists (i, m). split; [reflexivity|assumption].
        - apply (Hpend j m); [right; assumption|assumption]. }
      exists st'. split; [exact Hv|]. split; [assumption|]. split; [rewrite Hcl; reflexivity|].
      intros j. rewrite Hiff. simpl. split.
      * intros [[<-|H]|[m [Hm Ha]]].
        -- right. exists g. split; [left; reflexivity|assumption].
        -- left. assumption.
        -- right. exists m. split; [right; assumption|assumption].
      * intros [H|[m [[Heq|Hm] Ha]]].
        -- left. right. assumption.
        -- injection Heq as <- <-. left. left. reflexivity.
        -- right. exists m. split; assumption.
    + destruct (IH st Hnd' (fun ig H => Hin ig (or_intror H)) HC) as [st' [Hv [HC'' [Hcl Hiff]]]].
      { intros j m Hjm. apply (Hpend j m). right. assumption. }
      exists st'. split; [exact Hv|]. split; [assumption|]. split; [assumption|].
      intros j. rewrite Hiff. split.
      * intros [H|[m [Hm Ha]]]; [left; assumption|right; exists m; split; [right; assumption|assumption]].
      * intros [H|[m [[Heq|Hm] Ha]]]; [left; assumption| |right; exists m; split; assumption].
        injection Heq as <- <-. unfold all_cleared in Ha. rewrite Ha in Eall. discriminate.
Qed.

(* loop-head invariant: a net has been yielded iff all its arguments are cleared *)
Record LInv (st : istate) : Prop := {
  l_c : CInv st;
  l_y : forall i g, In (i, g) ns -> (In i (map fst (out st)) <-> all_cleared st g = true)
}.

Lemma cleared_bound st : CInv st -> (length (to_clear st ++ cleared st) <= length (wires nl))%nat.
Proof.
  intros HC. rewrite <- (map_length wname (wires nl)).
  apply NoDup_incl_length; [apply c_nodup; assumption|].
  intros w Hw. apply in_app_or in Hw.
  assert (Hav : In w (avail nl (outs st))) by (apply (inv_avail _ _ (c_inv st HC)); tauto).
  unfold avail in Hav. apply in_app_or in Hav. destruct Hav as [Hb|Hd].
  - unfold base_wires, rdy0 in Hb. apply filter_In in Hb. apply Hb.
  - apply in_map_iff in Hd. destruct Hd as [m [<- Hm]]. apply filter_In in Hm.
    destruct Hm as [Hm Hmc]. apply andb_true_iff in Hmc. destruct Hmc as [_ Hmh].
    apply in_outs in Hm. destruct Hm as [j Hj].
    pose proof (inv_in _ _ (c_inv st HC) _ Hj) as Hjn. apply number_snd_in in Hjn.
    destruct (sanity_net_parts nl m (nets_sane m Hjn)) as [_ [Hdecl _]].
    apply declared_in. apply Hdecl. assumption.
Qed.

(* popping a wire *)
Lemma pop_linv st w rest :
  LInv st -> Permutation (w :: rest) (to_clear st) ->
  let st1 := {| to_clear := rest; cleared := w :: cleared st;
                remaining := remaining st; out := out st |} in
  CInv st1 /\ (forall i g, In (i, g) (readers ns w) -> ~ In i (map fst (out st1))).
Proof.
  intros HL Hperm st1. pose proof (l_c st HL) as HC.
  assert (Hpa : Permutation (rest ++ w :: cleared st) (to_clear st ++ cleared st)).
  { eapply perm_trans; [apply Permutation_sym, Permutation_middle|].
    change (w :: rest ++ cleared st) with ((w :: rest) ++ cleared st).
    apply Permutation_app_tail. assumption. }
  split.
  - constructor.
    + destruct (c_inv st HC) as [H1 H2 H3 H4]. constructor; try assumption.
      unfold st1. cbn [cleared to_clear]. intros x Hx. apply H3.
      assert (Hx' : In x (rest ++ w :: cleared st)).
      { apply in_or_app. simpl. simpl in Hx. tauto. }
      apply (Permutation_in _ Hpa) in Hx'. apply in_app_or in Hx'. tauto.
    + unfold st1. cbn [cleared to_clear].
      apply (Permutation_NoDup (Permutation_sym Hpa)). apply c_nodup. assumption.
    + intros x Hx. unfold st1. cbn [cleared to_clear].
      apply (Permutation_in _ (Permutation_sym Hpa)). apply (c_avail st HC). exact Hx.
  - intros i g Hig. unfold st1. cbn [out]. intros Hin.
    unfold readers in Hig. apply filter_In in Hig. destruct Hig as [Hig Hw]. simpl in Hw.
    apply (l_y st HL i g Hig) in Hin. unfold all_cleared in Hin. rewrite forallb_forall in Hin.
    apply mem_in_In' in Hw. specialize (Hin w Hw). apply mem_in_In' in Hin.
    apply (nodup_app_disjoint (to_clear st) (cleared st) w (c_nodup st HC)); [|assumption].
    apply (Permutation_in _ Hperm). left. reflexivity.
Qed.

Lemma step_linv st w rest st2 :
  LInv st -> Permutation (w :: rest) (to_clear st) ->
  let st1 := {| to_clear := rest; cleared := w :: cleared st;
                remaining := remaining st; out := out st |} in
  CInv st2 -> cleared st2 = cleared st1 ->
  (forall i, In i (map fst (out st2)) <->
     In i (map fst (out st1)) \/ exists g, In (i, g) (readers ns w) /\ all_cleared st1 g = true) ->
  LInv st2.
Proof.
  intros HL Hperm st1 HC2 Hcl Hiff. constructor; [assumption|].
  intros i g Hig. rewrite Hiff. unfold all_cleared. rewrite Hcl. unfold st1. cbn [cleared out]. split.
  - intros [H|[m [Hm Ha]]].
    + apply forallb_mem_mono. apply (l_y st HL i g Hig). assumption.
    + pose proof (readers_in nl w _ Hm) as Hm'. fold ns in Hm'.
      rewrite (number_fun _ _ _ _ _ Hig Hm'). exact Ha.
  - intros Ha. destruct (mem_in w (nargs g)) eqn:Ew.
    + right. exists g. split; [|exact Ha]. unfold readers. apply filter_In. split; assumption.
    + left. apply (l_y st HL i g Hig). unfold all_cleared.
      rewrite forallb_forall in Ha. apply forallb_forall. intros a Hain. specialize (Ha a Hain).
      apply mem_in_In' in Ha. apply mem_in_In'. destruct Ha as [<-|Ha]; [|assumption].
      apply mem_in_In' in Hain. rewrite Hain in Ew. discriminate.
Qed.

(* the loop always runs to an empty worklist: no KeyError, no fuel exhaustion *)
Lemma loop_runs : forall fuel oracle st,
  LInv st -> (length (wires nl) < fuel + length (cleared st))%nat ->
  exists st', LInv st' /\ to_clear st' = [] /\
    iter_loop ns fuel oracle st =
      match remaining st' with [] => IOk (rev (out st')) | _ => ILoop end.
Proof.
  induction fuel as [|fuel IH]; intros oracle st HL Hf.
  - exfalso. pose proof (cleared_bound st (l_c st HL)) as Hb. rewrite app_length in Hb. lia.
  - simpl. destruct (to_clear st) as [|w0 tc] eqn:Et.
    + exists st. split; [assumption|]. split; [assumption|]. reflexivity.
    + set (c := match oracle with [] => O | c :: _ => c end).
      destruct (take_nth_some (Nat.modulo c (length (w0 :: tc))) (w0 :: tc)) as [w [rest [Etk Hperm]]].
      { apply Nat.mod_upper_bound. simpl. discriminate. }
      rewrite Etk. rewrite <- Et in Hperm.
      destruct (pop_linv st w rest HL Hperm) as [HC1 Hpend].
      destruct (visit_complete (readers ns w) _ (nodup_fst_filter _ _ (number_fst_nodup _ _))
                  (readers_in nl w) HC1 Hpend) as [st2 [Hv [HC2 [Hcl Hiff]]]].
      rewrite Hv. apply IH.
      * eapply step_linv; eassumption.
      * rewrite Hcl. simpl. lia.
Qed.

Lemma linv_init :
  LInv {| to_clear := base_wires nl; cleared := []; remaining := map fst ns; out := [] |}.
Proof.
  constructor.
  - constructor.
    + apply inv_init.
    + cbn [to_clear cleared]. rewrite app_nil_r. unfold base_wires, rdy0. apply NoDup_filter.
      destruct (sanity_block_parts nl Hs) as [_ [_ [Hn _]]]. assumption.
    + cbn [to_clear cleared]. unfold outs, avail. simpl. intros w Hw. exact Hw.
  - intros i g Hig. cbn [out map]. split; [contradiction|].
    unfold all_cleared. cbn [cleared]. intros Ha. exfalso.
    pose proof (args_nonempty g (number_snd_in _ _ _ _ Hig)) as Hne.
    destruct (nargs g) as [|a r]; [congruence|]. simpl in Ha. discriminate.
Qed.

Theorem iterate_no_keyerror : forall oracle,
  (exists l, iterate nl oracle = IOk l) \/ iterate nl oracle = ILoop.
Proof.
  intros oracle. unfold iterate.
  destruct (loop_runs (length (wires nl) + length (nets nl) + 1) oracle _ linv_init) as [st' [_ [_ E]]];
    [simpl; lia|].
  fold ns. rewrite E. destruct (remaining st'); [left; eexists; reflexivity|right; reflexivity].
Qed.

(* ---- progress: with a dependency order, an empty worklist means all nets were yielded *)

Hypothesis Hord : exists l, Permutation l (nets nl) /\ topo_sortedb nl l = true.

Lemma topo_all_cleared st :
  LInv st -> to_clear st = [] ->
  forall l pre, topo_from nl pre l = true ->
  (forall m, In m pre -> In m (nets nl) /\ all_cleared st m = true) ->
  (forall m, In m l -> In m (nets nl)) ->
  forall m, In m l -> all_cleared st m = true.
Proof.
  intros HL Hempty. pose proof (l_c st HL) as HC.
  induction l as [|a r IH]; intros pre Ht Hpre Hl m Hm; [contradiction|].
  simpl in Ht. apply andb_true_iff in Ht. destruct Ht as [Hargs Hrest].
  assert (Ha : all_cleared st a = true).
  { unfold all_cleared. apply forallb_forall. intros x Hx. apply mem_in_In'.
    rewrite forallb_forall in Hargs. specialize (Hargs x Hx). apply mem_in_In' in Hargs.
    assert (Hav : In x (avail nl (outs st))).
    { unfold avail in *. apply in_app_or in Hargs. apply in_or_app.
      destruct Hargs as [Hb|Hd]; [left; assumption|right].
      apply in_map_iff in Hd. destruct Hd as [p [Hpx Hp]]. apply filter_In in Hp. destruct Hp as [Hp Hpc].
      apply in_map_iff. exists p. split; [assumption|]. apply filter_In. split; [|assumption].
      destruct (Hpre p Hp) as [Hpn Hpa].
      destruct (in_number (nets nl) 0 p Hpn) as [j Hj]. fold ns in Hj.
      apply (l_y st HL j p Hj) in Hpa. apply in_map_iff in Hpa. destruct Hpa as [[j' p'] [Hj' Hin]].
      simpl in Hj'. subst j'. pose proof (inv_in _ _ (c_inv st HC) _ Hin) as Hin'. fold ns in Hin'.
      rewrite (number_fun _ _ _ _ _ Hin' Hj) in Hin. apply in_outs. exists j. assumption. }
    apply (c_avail st HC) in Hav. rewrite Hempty in Hav. exact Hav. }
  destruct Hm as [<-|Hm]; [exact Ha|].
  apply (IH (pre ++ [a])); try assumption.
  - intros p Hp. apply in_app_or in Hp. destruct Hp as [Hp|[<-|[]]]; [apply Hpre; assumption|].
    split; [apply Hl; left; reflexivity|assumption].
  - intros p Hp. apply Hl. right. assumption.
Qed.

Lemma no_loop st : LInv st -> to_clear st = [] -> remaining st = [].
Proof.
  intros HL Hempty. pose proof (l_c st HL) as HC.
  destruct Hord as [l [Hperm Htopo]].
  assert (Hall : forall g, In g (nets nl) -> all_cleared st g = true).
  { intros g Hg. apply (topo_all_cleared st HL Hempty l [] Htopo).
    - intros m [].
    - intros m Hm. apply (Permutation_in _ Hperm). assumption.
    - apply (Permutation_in _ (Permutation_sym Hperm)). assumption. }
  destruct (remaining st) as [|j r] eqn:Er; [reflexivity|]. exfalso.
  pose proof (inv_perm _ _ (c_inv st HC)) as Hp. rewrite Er in Hp. fold ns in Hp.
  assert (Hnd : NoDup (map fst (out st) ++ j :: r)).
  { apply (Permutation_NoDup (Permutation_sym Hp)). apply number_fst_nodup. }
  assert (Hj : In j (map fst ns)).
  { apply (Permutation_in _ Hp). apply in_or_app. right. left. reflexivity. }
  apply in_map_iff in Hj. destruct Hj as [[j' g] [Hjj Hjg]]. simpl in Hjj. subst j'.
  assert (Hout : In j (map fst (out st))).
  { apply (l_y st HL j g Hjg). apply Hall. eapply number_snd_in. exact Hjg. }
  apply (nodup_app_disjoint _ _ j Hnd Hout). left. reflexivity.
Qed.

Theorem iterate_complete : forall oracle, exists l, iterate nl oracle = IOk l.
Proof.
  intros oracle. unfold iterate.
  destruct (loop_runs (length (wires nl) + length (nets nl) + 1) oracle _ linv_init) as [st' [HL [Hempty E]]];
    [simpl; lia|].
  fold ns. rewrite E, (no_loop st' HL Hempty). eexists. reflexivity.
Qed.

End Complete.

(* soundness and completeness together: under every schedule the iterator returns
   each net exactly once, in dependency order *)
Theorem iterate_total nl :
  sanity_block nl = true -> comb_dest_not_reg nl = true ->
  (exists l, Permutation l (nets nl) /\ topo_sortedb nl l = true) ->
  forall oracle, exists l,
    iterate nl oracle = IOk l
    /\ Permutation (map snd l) (nets nl)
    /\ NoDup (map fst l)
    /\ topo_sortedb nl (map snd l) = true.
Proof.
  intros Hs Hr Hord oracle.
  destruct (iterate_complete nl Hs Hr Hord oracle) as [l Hl]. exists l. split; [assumption|].
  destruct (iterate_sound nl oracle l Hl) as [Hp [Hn Ht]].
  split; [apply yielded_perm; assumption|]. split; [|assumption].
  apply (Permutation_NoDup (Permutation_sym Hp)). apply seq_NoDup.
Qed.

