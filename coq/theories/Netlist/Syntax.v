(* Deep embedding of PyRTL netlists (pyrtl/core.py: LogicNet, Block). *)
From PyRTL Require Export Base.PyZ.

Definition wid := Z.

Inductive kind :=
| KWire | KInput | KOutput
| KConst (v : Z)
| KReg (reset : option Z).

(* one constructor per LogicNet.op character:
   w ~ & | ^ n + - * < > = x c s r m @ *)
Inductive op :=
| OpW | OpNot | OpAnd | OpOr | OpXor | OpNand
| OpAdd | OpSub | OpMul | OpLt | OpGt | OpEq
| OpMux | OpConcat | OpSelect (idx : list Z)
| OpReg | OpMemRd (m : Z) | OpMemWr (m : Z).

Record net := mkNet { nop : op; nargs : list wid; ndest : wid }.
(* '@' nets have no destination; ndest is ignored for them. *)

Record wire := mkWire { wname : wid; wwidth : Z; wkind : kind }.

(* A memory: ROMs carry their (tabulated) contents as part of the design. *)
Record mem := mkMem { mid : Z; maddrw : Z; mdataw : Z; mrom : option (list (Z * Z)) }.

Record netlist := mkNetlist { wires : list wire; nets : list net; mems : list mem }.

Fixpoint find_wire (ws : list wire) (w : wid) : option wire :=
  match ws with
  | [] => None
  | x :: r => if wname x =? w then Some x else find_wire r w
  end.

Definition width_of (nl : netlist) (w : wid) : Z :=
  match find_wire (wires nl) w with Some x => wwidth x | None => 0 end.

Definition kind_of (nl : netlist) (w : wid) : kind :=
  match find_wire (wires nl) w with Some x => wkind x | None => KWire end.

Fixpoint find_mem (ms : list mem) (m : Z) : option mem :=
  match ms with
  | [] => None
  | x :: r => if mid x =? m then Some x else find_mem r m
  end.

(* association lists = Python dicts with integer keys *)
Fixpoint assoc (l : list (Z * Z)) (k : Z) : option Z :=
  match l with
  | [] => None
  | (k', v) :: r => if k' =? k then Some v else assoc r k
  end.

Definition assoc_d (l : list (Z * Z)) (k d : Z) : Z :=
  match assoc l k with Some v => v | None => d end.

(* dict[k] = v : replace in place if present, else append (order is immaterial
   for `assoc`; we keep first-match semantics by putting the new binding first) *)
Definition dict_set (l : list (Z * Z)) (k v : Z) : list (Z * Z) := (k, v) :: l.

Lemma assoc_set_same l k v : assoc (dict_set l k v) k = Some v.
Proof. unfold dict_set. simpl. rewrite Z.eqb_refl. reflexivity. Qed.

Lemma assoc_set_other l k k' v : k <> k' -> assoc (dict_set l k v) k' = assoc l k'.
Proof. intro H. unfold dict_set. simpl. destruct (k =? k') eqn:E; [lia|reflexivity]. Qed.

(* total maps as functions, pointwise update *)
Definition upd {A} (f : Z -> A) (k : Z) (v : A) : Z -> A :=
  fun k' => if k' =? k then v else f k'.

Lemma upd_same {A} (f : Z -> A) k v : upd f k v k = v.
Proof. unfold upd. rewrite Z.eqb_refl. reflexivity. Qed.

Lemma upd_other {A} (f : Z -> A) k k' v : k' <> k -> upd f k v k' = f k'.
Proof. intro H. unfold upd. destruct (k' =? k) eqn:E; [lia|reflexivity]. Qed.

Definition is_comb (o : op) : bool :=
  match o with OpReg | OpMemWr _ => false | _ => true end.

Definition arg (n : net) (i : nat) : wid := nth i (nargs n) 0.
