(* Every fault class of property C10 makes the model of sanity_check (or the
   iterator) reject; and acceptance implies the structural facts. *)
From PyRTL Require Import Netlist.Sanity Netlist.IterCorrect.
From Coq Require Import Permutation.

Lemma nodupb_NoDup l : nodupb l = true <-> NoDup l.
Proof.
  induction l as [|x r IH]; simpl.
  - split; [constructor|reflexivity].
  - rewrite andb_true_iff, negb_true_iff, IH. split.
    + intros [H1 H2]. constructor; [|assumption]. intro Hin. apply mem_in_In' in Hin. congruence.
    + intros H. inversion H; subst. split; [|assumption].
      destruct (mem_in x r) eqn:E; [|reflexivity]. apply mem_in_In' in E. contradiction.
Qed.

Section Faults.
Variable nl : netlist.

Lemma sanity_block_parts : sanity_block nl = true ->
  forallb (sanity_net nl) (nets nl) = true
  /\ forallb (fun x => 1 <=? wwidth x) (wires nl) = true
  /\ NoDup (map wname (wires nl))
  /\ NoDup (dests_of (nets nl))
  /\ forallb (fun x => kind_is_input_or_const nl (wname x)
                       || mem_in (wname x) (dests_of (nets nl))
                       || mem_in (wname x) (args_of (nets nl))) (wires nl) = true
  /\ forallb (fun w => kind_is_input_or_const nl w || mem_in w (dests_of (nets nl)))
             (args_of (nets nl)) = true.
Proof.
  unfold sanity_block. intros H.
  repeat (apply andb_true_iff in H; destruct H as [H ?]).
  rewrite <- !nodupb_NoDup. auto 10.
Qed.

Ltac by_parts H :=
  destruct (sanity_block nl) eqn:H; [exfalso; apply sanity_block_parts in H|reflexivity].

(* a wire with two drivers *)
Theorem fault_two_drivers pre n1 mid n2 post :
  nets nl = pre ++ n1 :: mid ++ n2 :: post ->
  has_dest (nop n1) = true -> has_dest (nop n2) = true -> ndest n1 = ndest n2 ->
  sanity_block nl = false.
Proof.
  intros Hn H1 H2 Heq. by_parts Hs. destruct Hs as [_ [_ [_ [Hnd _]]]].
  unfold dests_of in Hnd. rewrite Hn in Hnd.
  rewrite filter_app in Hnd. simpl in Hnd. rewrite H1 in Hnd.
  rewrite filter_app in Hnd. simpl in Hnd. rewrite H2 in Hnd.
  rewrite map_app in Hnd. simpl in Hnd. rewrite map_app in Hnd. simpl in Hnd.
  apply NoDup_remove_2 in Hnd. apply Hnd.
  rewrite in_app_iff. right. rewrite in_app_iff. right. left. symmetry. assumption.
Qed.

Lemma in_args_of n a : In n (nets nl) -> In a (nargs n) -> In a (args_of (nets nl)).
Proof. intros Hn Ha. unfold args_of. apply in_flat_map. exists n. split; assumption. Qed.

(* a wire read but never driven *)
Theorem fault_read_never_driven n a :
  In n (nets nl) -> In a (nargs n) ->
  kind_is_input_or_const nl a = false -> ~ In a (dests_of (nets nl)) ->
  sanity_block nl = false.
Proof.
  intros Hn Ha Hk Hd. by_parts Hs. destruct Hs as [_ [_ [_ [_ [_ Hu]]]]].
  rewrite forallb_forall in Hu. specialize (Hu a (in_args_of n a Hn Ha)).
  rewrite Hk in Hu. simpl in Hu. apply mem_in_In' in Hu. contradiction.
Qed.

(* a declared wire connected to nothing *)
Theorem fault_declared_unconnected x :
  In x (wires nl) -> kind_is_input_or_const nl (wname x) = false ->
  ~ In (wname x) (dests_of (nets nl)) -> ~ In (wname x) (args_of (nets nl)) ->
  sanity_block nl = false.
Proof.
  intros Hx Hk Hd Ha. by_parts Hs. destruct Hs as [_ [_ [_ [_ [Hc _]]]]].
  rewrite forallb_forall in Hc. specialize (Hc x Hx). rewrite Hk in Hc. simpl in Hc.
  apply orb_true_iff in Hc. destruct Hc as [Hc|Hc]; apply mem_in_In' in Hc; contradiction.
Qed.

(* any net that fails the per-net rules *)
Theorem fault_bad_net n :
  In n (nets nl) -> sanity_net nl n = false -> sanity_block nl = false.
Proof.
  intros Hn Hb. by_parts Hs. destruct Hs as [Hall _].
  rewrite forallb_forall in Hall. rewrite (Hall n Hn) in Hb. discriminate.
Qed.

Lemma sanity_net_parts n : sanity_net nl n = true ->
  forallb (declared nl) (nargs n) = true
  /\ (has_dest (nop n) = true -> declared nl (ndest n) = true)
  /\ (has_dest (nop n) = true -> kind_is_input_or_const nl (ndest n) = false)
  /\ forallb (fun x => negb (kind_is_output nl x)) (nargs n) = true
  /\ arity_ok (nop n) (length (nargs n)) = true.
Proof.
  unfold sanity_net. intros H.
  repeat (apply andb_true_iff in H; destruct H as [H ?]).
  repeat split; try assumption.
  - intros Hd. rewrite Hd in *. simpl in *. assumption.
  - intros Hd. rewrite Hd in *. simpl in *. apply negb_true_iff. assumption.
Qed.

(* a wire of another block (= not declared in this netlist) *)
Theorem fault_foreign_arg n a :
  In n (nets nl) -> In a (nargs n) -> declared nl a = false -> sanity_block nl = false.
Proof.
  intros Hn Ha Hd. apply (fault_bad_net n Hn).
  destruct (sanity_net nl n) eqn:E; [|reflexivity]. exfalso.
  apply sanity_net_parts in E. destruct E as [E _]. rewrite forallb_forall in E.
  rewrite (E a Ha) in Hd. discriminate.
Qed.

Theorem fault_foreign_dest n :
  In n (nets nl) -> has_dest (nop n) = true -> declared nl (ndest n) = false ->
  sanity_block nl = false.
Proof.
  intros Hn Hh Hd. apply (fault_bad_net n Hn).
  destruct (sanity_net nl n) eqn:E; [|reflexivity]. exfalso.
  apply sanity_net_parts in E. destruct E as [_ [E _]]. rewrite (E Hh) in Hd. discriminate.
Qed.

(* wrong arity *)
Theorem fault_wrong_arity n :
  In n (nets nl) -> arity_ok (nop n) (length (nargs n)) = false -> sanity_block nl = false.
Proof.
  intros Hn Ha. apply (fault_bad_net n Hn).
  destruct (sanity_net nl n) eqn:E; [|reflexivity]. exfalso.
  apply sanity_net_parts in E. destruct E as [_ [_ [_ [_ E]]]]. congruence.
Qed.

(* an Input or Const used as destination *)
Theorem fault_input_const_dest n :
  In n (nets nl) -> has_dest (nop n) = true -> kind_is_input_or_const nl (ndest n) = true ->
  sanity_block nl = false.
Proof.
  intros Hn Hh Hk. apply (fault_bad_net n Hn).
  destruct (sanity_net nl n) eqn:E; [|reflexivity]. exfalso.
  apply sanity_net_parts in E. destruct E as [_ [_ [E _]]]. rewrite (E Hh) in Hk. discriminate.
Qed.

(* an Output used as argument *)
Theorem fault_output_arg n a :
  In n (nets nl) -> In a (nargs n) -> kind_is_output nl a = true -> sanity_block nl = false.
Proof.
  intros Hn Ha Hk. apply (fault_bad_net n Hn).
  destruct (sanity_net nl n) eqn:E; [|reflexivity]. exfalso.
  apply sanity_net_parts in E. destruct E as [_ [_ [_ [E _]]]]. rewrite forallb_forall in E.
  specialize (E a Ha). rewrite Hk in E. discriminate.
Qed.

(* wrong bitwidths / parameters: the individual width rules *)
Theorem fault_binary_width_mismatch n :
  In n (nets nl) -> is_binary (nop n) = true ->
  width_of nl (arg n 0) <> width_of nl (arg n 1) -> sanity_block nl = false.
Proof.
  intros Hn Hb Hw. apply (fault_bad_net n Hn). unfold sanity_net.
  destruct (nop n); try discriminate Hb; simpl;
    assert (E : (W nl (arg n 0) =? W nl (arg n 1)) = false) by (unfold W; lia);
    rewrite E; rewrite ?andb_false_r; reflexivity.
Qed.

Theorem fault_mux_select_not_one_bit n :
  In n (nets nl) -> nop n = OpMux -> width_of nl (arg n 0) <> 1 -> sanity_block nl = false.
Proof.
  intros Hn Ho Hw. apply (fault_bad_net n Hn). unfold sanity_net. rewrite Ho. simpl.
  assert (E : (W nl (arg n 0) =? 1) = false) by (unfold W; lia).
  rewrite E. rewrite ?andb_false_r. reflexivity.
Qed.

Theorem fault_select_index_out_of_bounds n idx p :
  In n (nets nl) -> nop n = OpSelect idx -> In p idx ->
  (p < 0 \/ width_of nl (arg n 0) <= p) -> sanity_block nl = false.
Proof.
  intros Hn Ho Hp Hb. apply (fault_bad_net n Hn). unfold sanity_net. rewrite Ho.
  assert (E : forallb (fun q => (0 <=? q) && (q <? W nl (arg n 0))) idx = false).
  { destruct (forallb _ idx) eqn:E; [|reflexivity]. rewrite forallb_forall in E.
    specialize (E p Hp). unfold W in E. lia. }
  rewrite E. rewrite ?andb_false_r. reflexivity.
Qed.

Theorem fault_dest_too_wide n :
  In n (nets nl) ->
  match nop n with
  | OpW | OpNot | OpAnd | OpOr | OpXor | OpNand => width_of nl (ndest n) > width_of nl (arg n 0)
  | OpAdd | OpSub => width_of nl (ndest n) > width_of nl (arg n 0) + 1
  | OpMul => width_of nl (ndest n) > 2 * width_of nl (arg n 0)
  | OpLt | OpGt | OpEq => width_of nl (ndest n) <> 1
  | OpMux => width_of nl (ndest n) > width_of nl (arg n 1)
  | OpSelect idx => width_of nl (ndest n) > Z.of_nat (length idx)
  | OpConcat => width_of nl (ndest n) > fold_right Z.add 0 (map (width_of nl) (nargs n))
  | _ => False
  end -> sanity_block nl = false.
Proof.
  intros Hn Hw. apply (fault_bad_net n Hn). unfold sanity_net, W in *.
  destruct (nop n); try contradiction;
    match goal with
    | |- _ && ?c = false => assert (E : c = false) by lia; rewrite E; apply andb_false_r
    end.
Qed.

(* duplicate wire names *)
Theorem fault_duplicate_names :
  ~ NoDup (map wname (wires nl)) -> sanity_block nl = false.
Proof. intros H. by_parts Hs. destruct Hs as [_ [_ [Hn _]]]. contradiction. Qed.

(* a combinational cycle not broken by a register: no dependency order exists,
   so the iterator fails under every schedule *)
Lemma map_nth_seq' {A} (l : list A) d : map (fun i => nth i l d) (seq 0 (length l)) = l.
Proof.
  induction l as [|x r IH]; simpl; [reflexivity|]. f_equal.
  rewrite <- seq_shift, map_map. exact IH.
Qed.

Lemma yielded_perm (l : list inet) :
  Permutation (map fst l) (seq 0 (length (nets nl))) ->
  (forall i n, In (i, n) l -> nth_error (nets nl) i = Some n) ->
  Permutation (map snd l) (nets nl).
Proof.
  intros Hp Hn.
  assert (Hd : forall d, map snd l = map (fun i => nth i (nets nl) d) (map fst l)).
  { intros d. rewrite map_map. apply map_ext_in. intros [i n] Hin. simpl.
    apply Hn in Hin. symmetry. apply nth_error_nth. assumption. }
  destruct (nets nl) as [|d0 rest] eqn:En.
  - simpl in Hp. apply Permutation_sym, Permutation_nil in Hp.
    destruct l; [constructor|discriminate].
  - rewrite (Hd d0). rewrite <- En in *.
    eapply perm_trans; [apply Permutation_map; exact Hp|].
    rewrite <- (map_nth_seq' (nets nl) d0) at 2. apply Permutation_refl.
Qed.

Theorem fault_combinational_cycle :
  (forall l, Permutation l (nets nl) -> topo_sortedb nl l = false) ->
  forall oracle, accepted nl oracle = false.
Proof.
  intros Hcyc oracle. unfold accepted.
  destruct (iterate nl oracle) as [l| | |] eqn:E; rewrite ?andb_false_r; try reflexivity.
  exfalso. apply iterate_sound in E. destruct E as [Hp [Hn Ht]].
  rewrite (Hcyc _ (yielded_perm l Hp Hn)) in Ht. discriminate.
Qed.

End Faults.
