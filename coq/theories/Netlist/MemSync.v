(* Model of Block.sanity_check_memory_sync (pyrtl/core.py): for every read port of a memory
   that is not declared asynchronous, walk backwards from the port's arguments through
   wire / concat / select nets; the walk stops at Inputs, Consts and register outputs and
   rejects anything else ("index not ready at the start of the cycle").

   `walk` is the loop as it stands after fix 8eec7ee (a `checked` set); `walk_old` is the
   loop as it stood before (no visited set), kept only to state the defect N37.

   Python's wires_to_check is a list used as a stack: pop() takes the LAST element and
   extend(args) appends at the end.  Here the head of `todo` is the top of the stack, so
   list(net.args) is `rev (nargs n)` and extend(src_net.args) is `rev (nargs s) ++ rest`.
   No proofs in this file (MemSyncCorrect.v has them), so the model still evaluates when a
   proof breaks. *)
From PyRTL Require Export Netlist.Sem Netlist.WFDefs.

Inductive sres :=
| SOk (checked : list wid)     (* walk finished; the wires it visited *)
| SNotReady (w : wid)          (* PyrtlError: w is driven by a net that is neither r nor w/c/s *)
| SKeyError (w : wid)          (* wire_src_dict[w]: w has no driver *)
| SFuel.                       (* out of fuel: never returned for the fuel used by sync_check *)

Section MemSync.
Variable nl : netlist.

(* wire_src_dict: dest -> net, for every net that has a destination ('@' has none) *)
Definition has_dest (n : net) : bool := match nop n with OpMemWr _ => false | _ => true end.
Definition src_net (w : wid) : option net :=
  find (fun n => has_dest n && (ndest n =? w)) (nets nl).

Definition is_in_or_const (w : wid) : bool :=
  match kind_of nl w with KInput | KConst _ => true | _ => false end.

Definition sync_prop (o : op) : bool :=
  match o with OpW | OpConcat | OpSelect _ => true | _ => false end.

Fixpoint walk (fuel : nat) (todo checked : list wid) : sres :=
  match fuel with
  | O => SFuel
  | S f =>
    match todo with
    | [] => SOk checked
    | w :: rest =>
      if is_in_or_const w || mem_in w checked then walk f rest checked
      else match src_net w with
           | None => SKeyError w
           | Some s =>
             match nop s with
             | OpReg => walk f rest (w :: checked)
             | o => if sync_prop o then walk f (rev (nargs s) ++ rest) (w :: checked)
                    else SNotReady w
             end
           end
    end
  end.

(* the loop before the fix: no `checked` set *)
Fixpoint walk_old (fuel : nat) (todo : list wid) : sres :=
  match fuel with
  | O => SFuel
  | S f =>
    match todo with
    | [] => SOk []
    | w :: rest =>
      if is_in_or_const w then walk_old f rest
      else match src_net w with
           | None => SKeyError w
           | Some s =>
             match nop s with
             | OpReg => walk_old f rest
             | o => if sync_prop o then walk_old f (rev (nargs s) ++ rest)
                    else SNotReady w
             end
           end
    end
  end.

(* enough fuel for any walk (MemSyncCorrect.walk_terminates) *)
Definition cost (checked : list wid) : nat :=
  list_sum (map (fun n => if mem_in (ndest n) checked then O else S (length (nargs n))) (nets nl)).
Definition fuel_for (todo : list wid) : nat := S (length todo + cost [])%nat.

(* the read ports of the memories listed as synchronous, in netlist order *)
Definition sync_ports (sync : list Z) : list net :=
  filter (fun n => match nop n with OpMemRd m => mem_in m sync | _ => false end) (nets nl).

Definition walk_port (n : net) : sres := walk (fuel_for (rev (nargs n))) (rev (nargs n)) [].

(* the set of sync read ports is iterated in arbitrary order and the first failing walk raises:
   the model returns every port's result *)
Definition sync_check (sync : list Z) : list sres := map walk_port (sync_ports sync).

Definition sres_code (r : sres) : Z :=
  match r with SOk _ => 0 | SNotReady _ => 1 | SKeyError _ => 2 | SFuel => 3 end.
Definition sres_wire (r : sres) : Z :=
  match r with SOk _ => 0 | SNotReady w => w | SKeyError w => w | SFuel => 0 end.

End MemSync.

(* harness: per sync read port (netlist order) [code; culprit wire] *)
Definition memsync_case (nl : netlist) (sync : list Z) : list (list Z) :=
  map (fun r => [sres_code r; sres_wire r]) (sync_check nl sync).
