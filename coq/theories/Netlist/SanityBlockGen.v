(* Bridge between the connectivity checks of Block.sanity_check as REGENERATED from the
   current source (Gen/SanityBlock.v: the sets tested by `if len(X) > 0: raise`, translated
   statement by statement into list algebra) and the hand model Netlist/Sanity.v over
   which the C10 rejection theorems are stated.

   src_guards nl = the three regenerated sets evaluated on the embedded netlist:
     [unknown wires; declared but not connected; used but never driven].
   Each is shown empty exactly when the corresponding conjunct of the hand model holds,
   so weakening one of those checks in core.py (e.g. subtracting Registers as well as
   Inputs/Consts from the undriven set: seeded change C10-m1) breaks a proof here. *)
From PyRTL Require Import Netlist.Sanity Netlist.SanityCorrect Gen.SanityBlock.

Definition emptyb {A} (l : list A) : bool := match l with [] => true | _ => false end.

Lemma emptyb_nil {A} (l : list A) : emptyb l = true <-> l = [].
Proof. destruct l; simpl; split; intro H; try reflexivity; discriminate. Qed.

Lemma forallb_ext_in {A} (f g : A -> bool) l :
  (forall x, In x l -> f x = g x) -> forallb f l = forallb g l.
Proof.
  induction l as [|x r IH]; intro H; simpl; [reflexivity|].
  rewrite (H x (or_introl eq_refl)), IH; [reflexivity|]. intros y Hy. apply H. right. assumption.
Qed.

Lemma forallb_filter {A} (p q : A -> bool) l :
  forallb p (filter q l) = forallb (fun x => negb (q x) || p x) l.
Proof.
  induction l as [|x r IH]; simpl; [reflexivity|].
  destruct (q x); simpl; rewrite IH; reflexivity.
Qed.

Lemma forallb_map' {A B} (f : A -> B) (p : B -> bool) l : forallb p (map f l) = forallb (fun x => p (f x)) l.
Proof. induction l as [|x r IH]; simpl; [reflexivity|]. rewrite IH. reflexivity. Qed.

Lemma emptyb_diff a b : emptyb (sb_diff a b) = forallb (fun x => mem_in x b) a.
Proof.
  unfold sb_diff. induction a as [|x r IH]; simpl; [reflexivity|].
  destruct (mem_in x b); simpl; [exact IH|reflexivity].
Qed.

Lemma mem_in_app x a b : mem_in x (a ++ b) = mem_in x a || mem_in x b.
Proof. unfold mem_in. apply existsb_app. Qed.

Lemma mem_in_filter (p : wid -> bool) x l : mem_in x (filter p l) = p x && mem_in x l.
Proof.
  unfold mem_in. induction l as [|y r IH]; simpl; [rewrite andb_false_r; reflexivity|].
  destruct (p y) eqn:Hp; simpl; rewrite IH.
  - destruct (x =? y) eqn:E; simpl.
    + apply Z.eqb_eq in E. subst. rewrite Hp. reflexivity.
    + reflexivity.
  - destruct (x =? y) eqn:E; simpl.
    + apply Z.eqb_eq in E. subst. rewrite Hp. reflexivity.
    + reflexivity.
Qed.

Section Bridge.
Variable nl : netlist.

Definition wnames : list wid := map wname (wires nl).
Definition inconst : list wid := filter (kind_is_input_or_const nl) wnames.
Definition src_guards : list (list wid) :=
  block_guards (dests_of (nets nl)) (args_of (nets nl)) wnames inconst.
Definition src_guards_pass : bool := forallb emptyb src_guards.

Lemma declared_mem w : declared nl w = mem_in w wnames.
Proof.
  unfold declared, wnames, mem_in. induction (wires nl) as [|x r IH]; simpl; [reflexivity|].
  rewrite (Z.eqb_sym w (wname x)). destruct (wname x =? w); simpl; [reflexivity|exact IH].
Qed.

Lemma kic_declared w : kind_is_input_or_const nl w = true -> mem_in w wnames = true.
Proof.
  rewrite <- declared_mem. unfold kind_is_input_or_const, kind_of, declared.
  destruct (find_wire (wires nl) w); [reflexivity|discriminate].
Qed.

Lemma mem_in_inconst w : mem_in w inconst = kind_is_input_or_const nl w.
Proof.
  unfold inconst. rewrite mem_in_filter.
  destruct (kind_is_input_or_const nl w) eqn:E; [|reflexivity].
  rewrite (kic_declared w E). reflexivity.
Qed.

(* guard 1, "Unknown wires found in net": every wire a net mentions is declared in the block *)
Theorem src_unknown_iff :
  emptyb (nth 0 src_guards []) = forallb (declared nl) (dests_of (nets nl) ++ args_of (nets nl)).
Proof.
  unfold src_guards, block_guards. cbn [nth]. rewrite emptyb_diff. unfold sb_union.
  apply forallb_ext_in. intros x _. symmetry. apply declared_mem.
Qed.

(* guard 2, "Wires declared but not connected" = the hand model's conjunct, exactly *)
Theorem src_unconnected_iff :
  emptyb (nth 1 src_guards []) =
  forallb (fun x => kind_is_input_or_const nl (wname x)
                    || mem_in (wname x) (dests_of (nets nl))
                    || mem_in (wname x) (args_of (nets nl))) (wires nl).
Proof.
  unfold src_guards, block_guards. cbn [nth]. rewrite emptyb_diff.
  unfold sb_diff at 1. rewrite forallb_filter. unfold wnames. rewrite forallb_map'.
  apply forallb_ext_in. intros x _. rewrite negb_involutive, mem_in_inconst.
  unfold sb_union. rewrite mem_in_app.
  destruct (kind_is_input_or_const nl (wname x)); destruct (mem_in (wname x) (dests_of (nets nl)));
    destruct (mem_in (wname x) (args_of (nets nl))); reflexivity.
Qed.

(* guard 3, "Wires used but never driven" = the hand model's conjunct, exactly *)
Theorem src_undriven_iff :
  emptyb (nth 2 src_guards []) =
  forallb (fun w => kind_is_input_or_const nl w || mem_in w (dests_of (nets nl))) (args_of (nets nl)).
Proof.
  unfold src_guards, block_guards. cbn [nth]. rewrite emptyb_diff.
  unfold sb_diff at 1. rewrite forallb_filter.
  apply forallb_ext_in. intros w _. rewrite negb_involutive, mem_in_inconst. apply orb_comm.
Qed.

Lemma src_guards_three : src_guards = [nth 0 src_guards []; nth 1 src_guards []; nth 2 src_guards []].
Proof. reflexivity. Qed.

(* what the model accepts gets past every regenerated connectivity check of the source *)
Theorem accepted_passes_src_guards : sanity_block nl = true -> src_guards_pass = true.
Proof.
  intro H. destruct (sanity_block_parts nl H) as [Hnets [_ [_ [_ [Hconn Hdrv]]]]].
  unfold src_guards_pass. rewrite src_guards_three. cbn [forallb].
  rewrite src_unknown_iff, src_unconnected_iff, src_undriven_iff, Hconn, Hdrv, !andb_true_r.
  rewrite forallb_app. apply andb_true_iff. rewrite forallb_forall in Hnets. split.
  - unfold dests_of. rewrite forallb_map'. apply forallb_forall. intros n Hn.
    apply filter_In in Hn. destruct Hn as [Hin Hd].
    destruct (sanity_net_parts nl n (Hnets n Hin)) as [_ [Hdecl _]]. apply Hdecl. assumption.
  - unfold args_of. apply forallb_forall. intros a Ha. apply in_flat_map in Ha.
    destruct Ha as [n [Hin Ha]].
    destruct (sanity_net_parts nl n (Hnets n Hin)) as [Hargs _].
    rewrite forallb_forall in Hargs. apply Hargs. assumption.
Qed.

(* a netlist on which a regenerated connectivity check fires is rejected by the model *)
Theorem src_guard_fires_rejected : src_guards_pass = false -> sanity_block nl = false.
Proof.
  intro H. destruct (sanity_block nl) eqn:E; [|reflexivity].
  rewrite (accepted_passes_src_guards E) in H. discriminate.
Qed.

End Bridge.

(* harness: which regenerated guard fires first (0 = none), for the behavioural tie *)
Definition block_guard_case (nl : netlist) : list Z :=
  map (fun g => b2z (emptyb g)) (src_guards nl).
