(* Reference-semantics entry points for the searches (depend on Sem.v and
   WFDefs.v only: no generated file, no proof). *)
From PyRTL Require Import Netlist.Sem Netlist.WFDefs.

Definition ins_of (l : list (Z * Z)) : wid -> Z := fun w => assoc_d l w 0.

Definition probe (nl : netlist) (v : wid -> Z) : list Z :=
  map (fun x => v (wname x)) (wires nl).

(* rows: [wfb]; final memory probes; one row per cycle (all wires, in `wires` order) *)
Definition spec_case (nl : netlist) (dflt : Z) (regmap : list (Z * Z))
    (memmap : list (Z * list (Z * Z))) (inss : list (list (Z * Z)))
    (probes : list (Z * Z)) : list (list Z) :=
  let ins := map ins_of inss in
  let '(vs, st) := run nl dflt (init_state nl dflt regmap memmap) ins in
  [b2z (wfb nl)]
  :: map (fun p => smems st (fst p) (snd p)) probes
  :: map (probe nl) vs.
