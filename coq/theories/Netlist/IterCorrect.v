(* Soundness of Block.__iter__ for EVERY schedule: whenever the worklist loop
   returns normally, it has yielded each net exactly once and in dependency
   order (every argument of a net is a source wire or the destination of an
   earlier non-register net). *)
From PyRTL Require Import Netlist.Iter.
From Coq Require Import Permutation.

Lemma mem_in_In' w l : mem_in w l = true <-> In w l.
Proof.
  unfold mem_in. rewrite existsb_exists. split.
  - intros [x [Hin Heq]]. apply Z.eqb_eq in Heq. subst. assumption.
  - intros H. exists w. split; [assumption|apply Z.eqb_refl].
Qed.

Lemma idx_in_In i l : idx_in i l = true <-> In i l.
Proof.
  unfold idx_in. rewrite existsb_exists. split.
  - intros [x [Hin Heq]]. apply Nat.eqb_eq in Heq. subst. assumption.
  - intros H. exists i. split; [assumption|apply Nat.eqb_refl].
Qed.

Lemma remove_idx_perm i l : In i l -> Permutation (i :: remove_idx i l) l.
Proof.
  induction l as [|j r IH]; simpl; [contradiction|].
  destruct (Nat.eqb i j) eqn:E.
  - apply Nat.eqb_eq in E. subst. intros _. apply Permutation_refl.
  - intros [->|H]; [rewrite Nat.eqb_refl in E; discriminate|].
    eapply perm_trans; [apply perm_swap|]. apply perm_skip. apply IH. assumption.
Qed.

Lemma number_fst {A} (l : list A) : forall k, map fst (number k l) = seq k (length l).
Proof. induction l as [|x r IH]; intros k; simpl; [reflexivity|]. rewrite IH. reflexivity. Qed.

Section Sound.
Variable nl : netlist.
Let ns := number 0 (nets nl).

Definition outs (st : istate) : list net := map snd (rev (out st)).

Lemma avail_mono pre n w : In w (avail nl pre) -> In w (avail nl (pre ++ [n])).
Proof.
  unfold avail. rewrite !in_app_iff. intros [H|H]; [left; assumption|right].
  rewrite filter_app, map_app, in_app_iff. left. assumption.
Qed.

Lemma topo_from_app pre l n :
  topo_from nl pre (l ++ [n]) =
  topo_from nl pre l && forallb (fun a => mem_in a (avail nl (pre ++ l))) (nargs n).
Proof.
  revert pre. induction l as [|x r IH]; intros pre; simpl.
  - rewrite app_nil_r, andb_true_r. reflexivity.
  - rewrite IH. rewrite <- app_assoc. simpl. rewrite andb_assoc. reflexivity.
Qed.

Record Inv (st : istate) : Prop := {
  inv_in : forall ig, In ig (out st) -> In ig ns;
  inv_perm : Permutation (map fst (out st) ++ remaining st) (map fst ns);
  inv_avail : forall w, In w (cleared st) \/ In w (to_clear st) -> In w (avail nl (outs st));
  inv_topo : topo_from nl [] (outs st) = true
}.

Lemma set_add_in w x s : In x (set_add w s) <-> x = w \/ In x s.
Proof.
  unfold set_add. destruct (mem_in w s) eqn:E.
  - apply mem_in_In' in E. split; [auto|]. intros [->|H]; assumption.
  - rewrite in_app_iff. simpl. intuition.
Qed.

Lemma visit_inv : forall gs st st',
  (forall ig, In ig gs -> In ig ns) ->
  Inv st -> visit gs st = Some st' -> Inv st'.
Proof.
  induction gs as [|[i g] r IH]; intros st st' Hgs HI Hv; simpl in Hv.
  - injection Hv as <-. assumption.
  - destruct (forallb (fun a => mem_in a (cleared st)) (nargs g)) eqn:Eall;
      [|apply (IH st); auto; intros; apply Hgs; right; assumption].
    destruct (idx_in i (remaining st)) eqn:Ein; [|discriminate].
    apply (IH _ st' (fun ig H => Hgs ig (or_intror H))) in Hv; [assumption|].
    destruct HI as [H1 H2 H3 H4].
    assert (Houts : outs {| to_clear := if is_reg_op (nop g) || negb (has_dest (nop g))
                                         then to_clear st else set_add (ndest g) (to_clear st);
                            cleared := cleared st; remaining := remove_idx i (remaining st);
                            out := (i, g) :: out st |} = outs st ++ [g]).
    { unfold outs. simpl. rewrite map_app. reflexivity. }
    constructor; simpl.
    + intros ig [<-|H]; [apply Hgs; left; reflexivity|apply H1; assumption].
    + apply idx_in_In in Ein. eapply perm_trans; [|exact H2].
      eapply perm_trans; [apply Permutation_middle|].
      apply Permutation_app_head. apply remove_idx_perm. assumption.
    + rewrite Houts. intros w [Hc|Ht].
      * apply avail_mono. apply H3. left. assumption.
      * destruct (is_reg_op (nop g) || negb (has_dest (nop g))) eqn:Er.
        -- apply avail_mono. apply H3. right. assumption.
        -- apply set_add_in in Ht. destruct Ht as [->|Ht];
             [|apply avail_mono; apply H3; right; assumption].
           unfold avail. rewrite in_app_iff. right.
           rewrite filter_app, map_app, in_app_iff. right. simpl.
           apply orb_false_iff in Er. destruct Er as [Er1 Er2].
           rewrite Er1. apply negb_false_iff in Er2. rewrite Er2. simpl. left. reflexivity.
    + rewrite Houts. rewrite topo_from_app, H4. simpl.
      rewrite forallb_forall in Eall. apply forallb_forall. intros a Ha.
      apply mem_in_In'. apply H3. left. apply mem_in_In'. apply Eall. assumption.
Qed.

Lemma take_nth_in {A} : forall k (l : list A) x r,
  take_nth k l = Some (x, r) -> In x l /\ (forall y, In y r -> In y l).
Proof.
  induction k as [|k IH]; intros l x r H; destruct l as [|a l']; simpl in H; try discriminate.
  - injection H as <- <-. split; [left; reflexivity|intros; right; assumption].
  - destruct (take_nth k l') as [[y r']|] eqn:E; [|discriminate].
    injection H as <- <-. destruct (IH _ _ _ E) as [H1 H2]. split; [right; assumption|].
    intros z [<-|Hz]; [left; reflexivity|right; apply H2; assumption].
Qed.

Lemma readers_in w ig : In ig (readers ns w) -> In ig ns.
Proof. unfold readers. intros H. apply filter_In in H. apply H. Qed.

Lemma loop_sound : forall fuel oracle st l,
  Inv st -> iter_loop ns fuel oracle st = IOk l ->
  Permutation (map fst l) (map fst ns) /\ (forall ig, In ig l -> In ig ns)
  /\ topo_from nl [] (map snd l) = true.
Proof.
  induction fuel as [|fuel IH]; intros oracle st l HI H; simpl in H.
  - destruct (to_clear st) eqn:Et; [|discriminate].
    destruct (remaining st) eqn:Er; [|discriminate]. injection H as <-.
    destruct HI as [H1 H2 H3 H4]. rewrite Er, app_nil_r in H2. split; [|split].
    + rewrite map_rev. eapply perm_trans; [apply Permutation_sym, Permutation_rev|assumption].
    + intros ig Hig. apply H1. apply in_rev. assumption.
    + exact H4.
  - destruct (to_clear st) as [|w0 tc] eqn:Et.
    + destruct (remaining st) eqn:Er; [|discriminate]. injection H as <-.
      destruct HI as [H1 H2 H3 H4]. rewrite Er, app_nil_r in H2. split; [|split].
      * rewrite map_rev. eapply perm_trans; [apply Permutation_sym, Permutation_rev|assumption].
      * intros ig Hig. apply H1. apply in_rev. assumption.
      * exact H4.
    + destruct (take_nth _ (w0 :: tc)) as [[w rest]|] eqn:Etk; [|discriminate].
      destruct (visit (readers ns w) _) as [st2|] eqn:Ev; [|discriminate].
      apply (IH _ _ _) in H; [assumption|].
      eapply visit_inv; [intros ig; apply readers_in| |exact Ev].
      destruct HI as [H1 H2 H3 H4]. destruct (take_nth_in _ _ _ _ Etk) as [Hw Hrest].
      constructor; simpl; try assumption.
      intros x [[<-|Hc]|Hr].
      * apply H3. right. rewrite Et. assumption.
      * apply H3. left. assumption.
      * apply H3. right. rewrite Et. apply Hrest. assumption.
Qed.

Lemma inv_init :
  Inv {| to_clear := base_wires nl; cleared := []; remaining := map fst ns; out := [] |}.
Proof.
  constructor; simpl.
  - contradiction.
  - apply Permutation_refl.
  - intros w [[]|H]. unfold avail, outs. simpl. rewrite app_nil_r. assumption.
  - reflexivity.
Qed.

Theorem iterate_sound oracle l :
  iterate nl oracle = IOk l ->
  Permutation (map fst l) (seq 0 (length (nets nl)))
  /\ (forall i n, In (i, n) l -> nth_error (nets nl) i = Some n)
  /\ topo_sortedb nl (map snd l) = true.
Proof.
  unfold iterate. intros H. apply loop_sound in H; [|apply inv_init].
  destruct H as [Hp [Hin Ht]]. unfold ns in Hp. rewrite number_fst in Hp.
  split; [assumption|]. split; [|assumption].
  intros i n Hi. apply Hin in Hi. unfold ns in Hi.
  assert (Hgen : forall (l0 : list net) k, In (i, n) (number k l0) ->
            (k <= i)%nat /\ nth_error l0 (i - k) = Some n).
  { induction l0 as [|x r IHl]; intros k Hk; simpl in Hk; [contradiction|].
    destruct Hk as [Hk|Hk].
    - injection Hk as -> ->. rewrite Nat.sub_diag. split; [lia|reflexivity].
    - destruct (IHl _ Hk) as [Hle Hn]. split; [lia|].
      replace (i - k)%nat with (S (i - S k)) by lia. exact Hn. }
  destruct (Hgen _ _ Hi) as [_ Hn]. rewrite Nat.sub_0_r in Hn. exact Hn.
Qed.

End Sound.
