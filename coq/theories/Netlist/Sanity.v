(* Model of Block.sanity_check / sanity_check_net (pyrtl/core.py) over the deep
   embedding.  Definitions only; theorems in SanityCorrect.v.
   Not representable in the embedding (checked behaviourally only): op_param of
   the wrong Python type, more than one destination, wires of another block
   (modelled as: wire not declared in this netlist). *)
From PyRTL Require Export Netlist.Iter.

Section Sanity.
Variable nl : netlist.

Definition declared (w : wid) : bool :=
  match find_wire (wires nl) w with Some _ => true | None => false end.

Definition kind_is_input_or_const (w : wid) : bool :=
  match kind_of nl w with KInput | KConst _ => true | _ => false end.
Definition kind_is_output (w : wid) : bool :=
  match kind_of nl w with KOutput => true | _ => false end.
Definition kind_is_reg (w : wid) : bool :=
  match kind_of nl w with KReg _ => true | _ => false end.

Definition W : wid -> Z := width_of nl.
Definition mem_aw (m : Z) : Z := match find_mem (mems nl) m with Some x => maddrw x | None => -1 end.
Definition mem_dw (m : Z) : Z := match find_mem (mems nl) m with Some x => mdataw x | None => -1 end.

Definition is_binary (o : op) : bool :=
  match o with
  | OpAnd | OpOr | OpXor | OpNand | OpAdd | OpSub | OpMul | OpLt | OpGt | OpEq => true
  | _ => false
  end.

(* sanity_check_net: the `if ...: raise` list, in source order *)
Definition sanity_net (n : net) : bool :=
  let a := nargs n in
  let a0 := arg n 0 in let a1 := arg n 1 in let a2 := arg n 2 in
  let d := ndest n in
  let o := nop n in
  let wd := W d in
  (* wires known to this block *)
  forallb declared a && (negb (has_dest o) || declared d)
  (* Inputs, Consts cannot be destinations; Outputs cannot be arguments *)
  && (negb (has_dest o) || negb (kind_is_input_or_const d))
  && forallb (fun x => negb (kind_is_output x)) a
  (* arity *)
  && arity_ok o (length a)
  (* argument widths *)
  && match o with
     | OpMux => (W a1 =? W a2) && (W a0 =? 1)
     | OpMemRd m => W a0 =? mem_aw m
     | OpMemWr m => (W a0 =? mem_aw m) && (W a1 =? mem_dw m) && (W a2 =? 1)
     | _ => if is_binary o then W a0 =? W a1 else true
     end
  (* op_param *)
  && match o with
     | OpSelect idx => forallb (fun p => (0 <=? p) && (p <? W a0)) idx
     | _ => true
     end
  (* destination kind and width *)
  && match o with
     | OpReg => kind_is_reg d && (wd <=? W a0)
     | OpW | OpNot | OpAnd | OpOr | OpXor | OpNand => wd <=? W a0
     | OpLt | OpGt | OpEq => wd =? 1
     | OpAdd | OpSub => wd <=? W a0 + 1
     | OpMul => wd <=? 2 * W a0
     | OpMux => wd <=? W a1
     | OpConcat => wd <=? fold_right Z.add 0 (map W a)
     | OpSelect idx => wd <=? Z.of_nat (length idx)
     | OpMemRd m => wd =? mem_dw m
     | OpMemWr _ => true
     end.

Definition dests_of (ns : list net) : list wid :=
  map ndest (filter (fun n => has_dest (nop n)) ns).
Definition args_of (ns : list net) : list wid := flat_map nargs ns.

Fixpoint nodupb (l : list Z) : bool :=
  match l with
  | [] => true
  | x :: r => negb (mem_in x r) && nodupb r
  end.

Definition sanity_block : bool :=
  forallb sanity_net (nets nl)
  && forallb (fun x => 1 <=? wwidth x) (wires nl)
  (* unique names *)
  && nodupb (map wname (wires nl))
  (* a wire has at most one driver (net_connections) *)
  && nodupb (dests_of (nets nl))
  (* declared but not connected (Inputs and Consts may be unconnected) *)
  && forallb (fun x => kind_is_input_or_const (wname x)
                       || mem_in (wname x) (dests_of (nets nl))
                       || mem_in (wname x) (args_of (nets nl))) (wires nl)
  (* used but never driven *)
  && forallb (fun w => kind_is_input_or_const w || mem_in w (dests_of (nets nl)))
             (args_of (nets nl)).

(* accepted by sanity_check and by the iterator under a given schedule *)
Definition accepted (oracle : list nat) : bool :=
  sanity_block && match iterate nl oracle with IOk _ => true | _ => false end.

End Sanity.

(* harness entry: [sanity_block; iterate result code] *)
Definition sanity_case (nl : netlist) (oracle : list nat) : list Z :=
  [b2z (sanity_block nl);
   match iterate nl oracle with IOk _ => 0 | IKeyError => 1 | ILoop => 2 | IFuel => 3 end].
