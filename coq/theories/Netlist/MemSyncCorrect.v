(* Proofs about the model of Block.sanity_check_memory_sync (Netlist/MemSync.v):
   termination of the walk with the `checked` set (for every netlist, cycles included),
   divergence of the walk without it on a concrete cyclic netlist (defect N37),
   what an accepting walk establishes, and that the walk cannot hit a missing
   wire_src_dict entry once "wires used but never driven" has been ruled out. *)
From PyRTL Require Import Netlist.MemSync.

Section Proofs.
Variable nl : netlist.

Definition costf (c : list wid) (n : net) : nat :=
  if mem_in (ndest n) c then O else S (length (nargs n)).

Lemma cost_eq c : cost nl c = list_sum (map (costf c) (nets nl)).
Proof. reflexivity. Qed.

Lemma mem_in_cons w x c : mem_in w (x :: c) = (w =? x) || mem_in w c.
Proof. reflexivity. Qed.

Lemma costf_mono w c n : (costf (w :: c) n <= costf c n)%nat.
Proof.
  unfold costf. rewrite mem_in_cons.
  destruct (ndest n =? w); destruct (mem_in (ndest n) c); simpl; lia.
Qed.

Lemma sum_mono w c l : (list_sum (map (costf (w :: c)) l) <= list_sum (map (costf c) l))%nat.
Proof.
  induction l as [|x r IH]; simpl; [lia|].
  pose proof (costf_mono w c x). lia.
Qed.

Lemma sum_drop w c s l : In s l -> ndest s = w -> mem_in w c = false ->
  (list_sum (map (costf (w :: c)) l) + S (length (nargs s)) <= list_sum (map (costf c) l))%nat.
Proof.
  intros Hin Hd Hm. induction l as [|x r IH]; [contradiction|].
  simpl. destruct Hin as [->|Hin].
  - pose proof (sum_mono w c r) as Hr.
    unfold costf at 1 3. rewrite mem_in_cons, Hd, Z.eqb_refl, Hm. simpl. lia.
  - specialize (IH Hin). pose proof (costf_mono w c x). lia.
Qed.

Lemma src_net_some w s : src_net nl w = Some s -> In s (nets nl) /\ ndest s = w.
Proof.
  unfold src_net. intro H. apply find_some in H. destruct H as [Hin Hp].
  apply andb_true_iff in Hp. destruct Hp as [_ Hd]. apply Z.eqb_eq in Hd. auto.
Qed.

(* ---- termination: the fuel handed out by fuel_for is never exhausted ---- *)
Lemma walk_terminates : forall fuel todo c,
  (length todo + cost nl c < fuel)%nat -> walk nl fuel todo c <> SFuel.
Proof.
  induction fuel as [|f IH]; intros todo c Hlt; [lia|].
  destruct todo as [|w rest]; cbn [walk]; [discriminate|].
  cbn [length] in Hlt.
  destruct (is_in_or_const nl w || mem_in w c) eqn:Hskip.
  - apply IH. lia.
  - apply orb_false_iff in Hskip. destruct Hskip as [_ Hm].
    destruct (src_net nl w) as [s|] eqn:Hs; [|discriminate].
    destruct (src_net_some w s Hs) as [Hin Hd].
    pose proof (sum_drop w c s (nets nl) Hin Hd Hm) as Hdrop.
    rewrite <- !cost_eq in Hdrop.
    assert (Hreg : walk nl f rest (w :: c) <> SFuel) by (apply IH; lia).
    assert (Hprop : walk nl f (rev (nargs s) ++ rest) (w :: c) <> SFuel).
    { apply IH. rewrite app_length, rev_length. lia. }
    destruct (nop s); cbn [sync_prop]; try discriminate; assumption.
Qed.

Theorem sync_check_never_out_of_fuel sync r : In r (sync_check nl sync) -> r <> SFuel.
Proof.
  unfold sync_check. intro H. apply in_map_iff in H. destruct H as [n [<- _]].
  unfold walk_port, fuel_for. apply walk_terminates. lia.
Qed.

(* ---- what an accepting walk establishes ---- *)
Definition good (S : list wid) (w : wid) : Prop := is_in_or_const nl w = true \/ In w S.
Definition closed (S : list wid) (w : wid) : Prop :=
  exists s, src_net nl w = Some s /\
    (nop s = OpReg \/ (sync_prop (nop s) = true /\ forall a, In a (nargs s) -> good S a)).

Lemma mem_in_In w l : mem_in w l = true -> In w l.
Proof.
  unfold mem_in. rewrite existsb_exists. intros [x [Hin Heq]]. apply Z.eqb_eq in Heq. subst. assumption.
Qed.

Theorem walk_sound : forall fuel todo c S, walk nl fuel todo c = SOk S ->
  incl c S /\ (forall w, In w todo -> good S w) /\ (forall w, In w S -> In w c \/ closed S w).
Proof.
  induction fuel as [|f IH]; intros todo c S H; [discriminate|].
  destruct todo as [|w rest]; cbn [walk] in H.
  - injection H as <-. split; [apply incl_refl|]. split; [intros w []|]. intros w Hw. left. assumption.
  - destruct (is_in_or_const nl w || mem_in w c) eqn:Hskip.
    + destruct (IH _ _ _ H) as [Hinc [Hgood Hcl]].
      split; [assumption|]. split; [|assumption].
      intros x [<-|Hx]; [|apply Hgood; assumption].
      apply orb_true_iff in Hskip. destruct Hskip as [Hio|Hm]; [left; assumption|].
      right. apply Hinc. apply mem_in_In. assumption.
    + destruct (src_net nl w) as [s|] eqn:Hs; [|discriminate].
      assert (Hreg : nop s = OpReg -> walk nl f rest (w :: c) = SOk S ->
                incl c S /\ (forall x, In x (w :: rest) -> good S x) /\
                (forall x, In x S -> In x c \/ closed S x)).
      { intros Hop Hw. destruct (IH _ _ _ Hw) as [Hinc [Hgood Hcl]].
        split; [intros x Hx; apply Hinc; right; assumption|].
        split.
        - intros x [<-|Hx]; [right; apply Hinc; left; reflexivity|apply Hgood; assumption].
        - intros x Hx. destruct (Hcl x Hx) as [[<-|Hc]|Hc]; [|left; assumption|right; assumption].
          right. exists s. split; [assumption|]. left. assumption. }
      assert (Hprop : sync_prop (nop s) = true ->
                walk nl f (rev (nargs s) ++ rest) (w :: c) = SOk S ->
                incl c S /\ (forall x, In x (w :: rest) -> good S x) /\
                (forall x, In x S -> In x c \/ closed S x)).
      { intros Hop Hw. destruct (IH _ _ _ Hw) as [Hinc [Hgood Hcl]].
        split; [intros x Hx; apply Hinc; right; assumption|].
        split.
        - intros x [<-|Hx]; [right; apply Hinc; left; reflexivity|].
          apply Hgood. apply in_or_app. right. assumption.
        - intros x Hx. destruct (Hcl x Hx) as [[<-|Hc]|Hc]; [|left; assumption|right; assumption].
          right. exists s. split; [assumption|]. right. split; [assumption|].
          intros a Ha. apply Hgood. apply in_or_app. left. apply in_rev in Ha. assumption. }
      destruct (nop s) eqn:Hop; cbn [sync_prop] in H; try discriminate H;
        first [apply Hreg; [reflexivity|assumption] | apply Hprop; [reflexivity|assumption]].
Qed.

(* ---- no KeyError once undriven wires are excluded ---- *)
Definition driven_or_io (w : wid) : Prop := is_in_or_const nl w = true \/ exists s, src_net nl w = Some s.

Theorem walk_no_keyerror :
  (forall n a, In n (nets nl) -> In a (nargs n) -> driven_or_io a) ->
  forall fuel todo c, (forall w, In w todo -> driven_or_io w) ->
  forall x, walk nl fuel todo c <> SKeyError x.
Proof.
  intros Hall. induction fuel as [|f IH]; intros todo c Htodo x; [discriminate|].
  destruct todo as [|w rest]; cbn [walk]; [discriminate|].
  assert (Hrest : forall y, In y rest -> driven_or_io y) by (intros y Hy; apply Htodo; right; assumption).
  destruct (is_in_or_const nl w || mem_in w c) eqn:Hskip; [apply IH; assumption|].
  apply orb_false_iff in Hskip. destruct Hskip as [Hio _].
  destruct (src_net nl w) as [s|] eqn:Hs.
  - destruct (src_net_some w s Hs) as [Hin _].
    assert (Hreg : walk nl f rest (w :: c) <> SKeyError x) by (apply IH; assumption).
    assert (Hprop : walk nl f (rev (nargs s) ++ rest) (w :: c) <> SKeyError x).
    { apply IH. intros y Hy. apply in_app_or in Hy. destruct Hy as [Hy|Hy]; [|apply Hrest; assumption].
      apply in_rev in Hy. apply (Hall s y); assumption. }
    destruct (nop s); cbn [sync_prop]; try discriminate; assumption.
  - exfalso. destruct (Htodo w (or_introl eq_refl)) as [H|[s H]]; [rewrite H in Hio; discriminate|].
    rewrite H in Hs. discriminate.
Qed.

End Proofs.

(* ---- defect N37: without the `checked` set the walk never ends on a cyclic index ---- *)
Definition loop_nl : netlist :=
  mkNetlist [mkWire 1 2 KWire; mkWire 2 4 KWire]
            [mkNet OpW [1] 1; mkNet (OpMemRd 7) [1] 2]
            [mkMem 7 2 4 None].

Theorem walk_old_diverges : forall fuel, walk_old loop_nl fuel [1] = SFuel.
Proof. induction fuel as [|f IH]; [reflexivity|]. cbn. exact IH. Qed.

Theorem walk_new_rejects_nothing_but_ends :
  memsync_case loop_nl [7] = [[0; 0]].
Proof. vm_compute. reflexivity. Qed.
