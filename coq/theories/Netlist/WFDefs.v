(* Boolean well-formedness of a netlist: plain definitions only (no proofs), so
   that the executable harness keeps running when a proof obligation breaks. *)
From PyRTL Require Export Netlist.Sem.

Definition mem_in (w : wid) (l : list wid) : bool := existsb (Z.eqb w) l.

Section WF.
Variable nl : netlist.

Definition is_base (w : wid) : bool :=
  match find_wire (wires nl) w with
  | Some x => match wkind x with
              | KConst _ | KInput | KReg _ => true
              | _ => false
              end
  | None => false
  end.

Definition arity_ok (o : op) (k : nat) : bool :=
  match o with
  | OpW | OpNot | OpSelect _ | OpReg | OpMemRd _ => Nat.eqb k 1
  | OpMux | OpMemWr _ => Nat.eqb k 3
  | OpConcat => true
  | _ => Nat.eqb k 2
  end.

Definition op_ok (n : net) : bool :=
  let wd := width_of nl (ndest n) in
  match nop n with
  | OpNot => wd <=? width_of nl (arg n 0)
  | OpNand => wd <=? Z.max (width_of nl (arg n 0)) (width_of nl (arg n 1))
  | OpSelect idx => forallb (fun i => 0 <=? i) idx
  | _ => true
  end.

Definition net_ok (rdy : list wid) (n : net) : bool :=
  if is_comb (nop n) then
    forallb (fun a => mem_in a rdy) (nargs n) && negb (mem_in (ndest n) rdy)
    && arity_ok (nop n) (length (nargs n)) && op_ok n
  else true.

Definition rdy_next (rdy : list wid) (n : net) : list wid :=
  if is_comb (nop n) then ndest n :: rdy else rdy.

Fixpoint nets_ok (rdy : list wid) (ns : list net) : bool :=
  match ns with
  | [] => true
  | n :: r => net_ok rdy n && nets_ok (rdy_next rdy n) r
  end.

Definition rdy0 : list wid := filter is_base (map wname (wires nl)).
Definition rdy_final : list wid := fold_left rdy_next (nets nl) rdy0.

(* Boolean well-formedness: every hypothesis of the refinement theorem that
   concerns the netlist alone.  It is evaluated on every design the
   correspondence check dumps from PyRTL, so the theorem's premises are known
   to hold of the designs the implementation was run on. *)
Definition wfb : bool :=
  forallb (fun x => 0 <=? wwidth x) (wires nl)
  && forallb (fun x => match wkind x with
                       | KConst c => inrangeb c (wwidth x)
                       | _ => true
                       end) (wires nl)
  && nets_ok rdy0 (nets nl)
  && forallb (fun n => if is_comb (nop n) then true
                       else forallb (fun a => mem_in a rdy_final) (nargs n)
                            && arity_ok (nop n) (length (nargs n))) (nets nl)
  && forallb (fun x => mem_in (wname x) rdy_final) (wires nl).

End WF.
