(* Reference semantics of PyRTL netlists = the documented op table
   (pyrtl/core.py LogicNet docstring, Block docstring) and the documented
   cycle semantics (Simulation.step docstring):
     1. registers show the value captured at the end of the previous cycle,
     2. inputs/registers/constants propagate through the combinational nets,
     3. enabled memory writes are applied,
     4. next register values are captured.
   Everything here is a mathematical integer function reduced mod 2^width of
   the destination; nothing refers to Python's int tricks (masks, ~, shifts).
   This file is the oracle all simulators, passes and exporters are related to. *)
From PyRTL Require Export Netlist.Syntax.

(* concat: first argument most significant *)
Definition concat_spec (args : list (Z * Z)) : Z :=
  fold_left (fun acc vw => acc * 2 ^ (snd vw) + fst vw) args 0.

(* select: bit j of the result is bit idx[j] of the source *)
Definition select_spec (src : Z) (idx : list Z) : Z :=
  fold_right (fun i acc => b2z (Z.testbit src i) + 2 * acc) 0 idx.

(* args are (value, bitwidth) pairs *)
Definition op_spec (o : op) (a : list (Z * Z)) : option Z :=
  match o, a with
  | OpW, [(x, _)] => Some x
  | OpNot, [(x, w)] => Some (2 ^ w - 1 - x)
  | OpAnd, [(x, _); (y, _)] => Some (Z.land x y)
  | OpOr, [(x, _); (y, _)] => Some (Z.lor x y)
  | OpXor, [(x, _); (y, _)] => Some (Z.lxor x y)
  | OpNand, [(x, wx); (y, wy)] => Some (2 ^ (Z.max wx wy) - 1 - Z.land x y)
  | OpAdd, [(x, _); (y, _)] => Some (x + y)
  | OpSub, [(x, _); (y, _)] => Some (x - y)
  | OpMul, [(x, _); (y, _)] => Some (x * y)
  | OpLt, [(x, _); (y, _)] => Some (b2z (x <? y))
  | OpGt, [(x, _); (y, _)] => Some (b2z (x >? y))
  | OpEq, [(x, _); (y, _)] => Some (b2z (x =? y))
  | OpMux, [(s, _); (f, _); (t, _)] => Some (if s =? 0 then f else t)
  | OpConcat, _ => Some (concat_spec a)
  | OpSelect idx, [(x, _)] => Some (select_spec x idx)
  | _, _ => None
  end.

Record state := mkState {
  sregs : wid -> Z;           (* value each register shows this cycle *)
  smems : Z -> Z -> Z         (* memid -> address -> word *)
}.

Definition rom_read (data : list (Z * Z)) (a : Z) : Z := assoc_d data a 0.

Definition mem_read (nl : netlist) (st : state) (m a : Z) : Z :=
  match find_mem (mems nl) m with
  | Some mm => match mrom mm with
               | Some data => rom_read data a
               | None => smems st m a
               end
  | None => smems st m a
  end.

Section WithNetlist.
Variable nl : netlist.

(* cycle-start valuation: constants, inputs, registers; [dflt] elsewhere *)
Definition base_val (dflt : Z) (st : state) (ins : wid -> Z) : wid -> Z :=
  fun w => match find_wire (wires nl) w with
           | Some x => match wkind x with
                       | KConst c => c
                       | KInput => ins w
                       | KReg _ => sregs st w
                       | _ => dflt
                       end
           | None => dflt
           end.

Definition argvals (v : wid -> Z) (n : net) : list (Z * Z) :=
  map (fun a => (v a, width_of nl a)) (nargs n).

Definition exec_spec (st : state) (v : wid -> Z) (n : net) : wid -> Z :=
  match nop n with
  | OpReg | OpMemWr _ => v
  | OpMemRd m =>
      upd v (ndest n) (mem_read nl st m (v (arg n 0)) mod 2 ^ width_of nl (ndest n))
  | o => match op_spec o (argvals v n) with
         | Some r => upd v (ndest n) (r mod 2 ^ width_of nl (ndest n))
         | None => v
         end
  end.

Definition comb (st : state) (v0 : wid -> Z) : wid -> Z :=
  fold_left (exec_spec st) (nets nl) v0.

Definition write_spec (v : wid -> Z) (ms : Z -> Z -> Z) (n : net) : Z -> Z -> Z :=
  match nop n with
  | OpMemWr m =>
      if v (arg n 2) =? 0 then ms
      else upd ms m (upd (ms m) (v (arg n 0)) (v (arg n 1)))
  | _ => ms
  end.

Definition regnext_spec (v : wid -> Z) (rg : wid -> Z) (n : net) : wid -> Z :=
  match nop n with
  | OpReg => upd rg (ndest n) (v (arg n 0) mod 2 ^ width_of nl (ndest n))
  | _ => rg
  end.

(* one clock cycle: the valuation of every wire during the cycle and the
   state shown at the start of the next cycle *)
Definition step (dflt : Z) (st : state) (ins : wid -> Z) : (wid -> Z) * state :=
  let v := comb st (base_val dflt st ins) in
  (v, {| sregs := fold_left (regnext_spec v) (nets nl) (sregs st);
         smems := fold_left (write_spec v) (nets nl) (smems st) |}).

Fixpoint run (dflt : Z) (st : state) (inss : list (wid -> Z)) : list (wid -> Z) * state :=
  match inss with
  | [] => ([], st)
  | ins :: rest =>
      let '(v, st') := step dflt st ins in
      let '(vs, st'') := run dflt st' rest in
      (v :: vs, st'')
  end.

End WithNetlist.

(* initial state: register_value_map > reset_value > default ; memory_value_map > default *)
Definition init_reg (nl : netlist) (dflt : Z) (regmap : list (Z * Z)) (r : wid) : Z :=
  match assoc regmap r with
  | Some v => v
  | None => match kind_of nl r with
            | KReg (Some v) => v
            | _ => dflt
            end
  end.

Definition init_state (nl : netlist) (dflt : Z) (regmap : list (Z * Z))
           (memmap : list (Z * list (Z * Z))) : state :=
  {| sregs := init_reg nl dflt regmap;
     smems := fun m a =>
       match find (fun p => fst p =? m) memmap with
       | Some (_, d) => assoc_d d a dflt
       | None => dflt
       end |}.
