(* The guard list REGENERATED from the current source of Block.sanity_check_net
   (Gen/SanityNet.v, py/genfrag_C10.py) and the hand model Sanity.sanity_net agree
   on every net of every netlist:

       Gen.SanityNet.rejects (shape_of nl n) = negb (sanity_net nl n).

   Deleting or weakening any `if ...: raise` of the source changes Gen/SanityNet.v
   and breaks this proof (the rejection theorems of SanityCorrect.v are stated over
   the hand model).  Guards that cannot fire on the shape of an embedded net (Python
   type tests, legal_ops membership, destination count, memid consistency) are
   shown not to fire. *)
From PyRTL Require Import Netlist.Sanity Gen.SanityNet Netlist.Accepted.
From Coq Require Import ZArith List Bool Lia ZifyBool.
Import ListNotations.

Definition isSome (o : option Z) : bool := match o with Some _ => true | None => false end.

Lemma isSome_if_some (c : bool) k r : isSome (if c then Some k else r) = c || isSome r.
Proof. destruct c; reflexivity. Qed.

Lemma isSome_if_none (c : bool) a : isSome (if c then a else None) = c && isSome a.
Proof. destruct c; reflexivity. Qed.

Lemma isSome_orelse a b : isSome (orelse a b) = isSome a || isSome b.
Proof. destruct a; reflexivity. Qed.

Lemma isSome_none : isSome None = false.
Proof. reflexivity. Qed.

Lemma isSome_first_err {A} (f : A -> option Z) l :
  isSome (first_err f l) = existsb (fun x => isSome (f x)) l.
Proof.
  induction l as [|x r IH]; [reflexivity|].
  cbn [first_err fold_right existsb]. fold (first_err f r). rewrite isSome_orelse, IH. reflexivity.
Qed.

Lemma existsb_map' {A B} (f : B -> bool) (g : A -> B) l :
  existsb f (map g l) = existsb (fun x => f (g x)) l.
Proof. induction l as [|x r IH]; [reflexivity|]. cbn [map existsb]. rewrite IH. reflexivity. Qed.

Lemma existsb_negb_forallb {A} (f g : A -> bool) l :
  (forall x, f x = negb (g x)) -> existsb f l = negb (forallb g l).
Proof.
  intros H. induction l as [|x r IH]; [reflexivity|].
  cbn [existsb forallb]. rewrite IH, H, negb_andb. reflexivity.
Qed.

Lemma sum_widths nl a :
  fold_right Z.add 0 (map ws_width (map (wshape_of nl) a)) = fold_right Z.add 0 (map (W nl) a).
Proof. induction a as [|x r IH]; [reflexivity|]. cbn [map fold_right]. rewrite IH. reflexivity. Qed.

(* kind tests of the generated guards = kind tests of the hand model *)
Lemma k_in_const nl x :
  k_input (wshape_of nl x) || k_const (wshape_of nl x) = kind_is_input_or_const nl x.
Proof.
  unfold k_input, k_const, kind_is_input_or_const, wshape_of. cbn [ws_kind].
  destruct (kind_of nl x); reflexivity.
Qed.

Lemma k_out nl x : k_output (wshape_of nl x) = kind_is_output nl x.
Proof. reflexivity. Qed.

Lemma k_reg nl x : k_register (wshape_of nl x) = kind_is_reg nl x.
Proof. reflexivity. Qed.

(* turn the option-valued guard chain into a boolean formula *)
Ltac norm_opt :=
  repeat (rewrite isSome_if_some || rewrite isSome_if_none || rewrite isSome_orelse
          || rewrite isSome_first_err || rewrite isSome_none).

(* evaluate the tests on the (now concrete) op character *)
Ltac eval_op_tests :=
  repeat match goal with
  | |- context [op_in ?c ?l] =>
      let b := eval vm_compute in (op_in c l) in change (op_in c l) with b
  | |- context [Z.eqb (op_code ?o) ?k] =>
      let b := eval vm_compute in (Z.eqb (op_code o) k) in change (Z.eqb (op_code o) k) with b
  end.

Ltac prep :=
  cbn [has_dest pshape_of p_is_none p_is_tuple p_len p_elems p_fst_is_int p_snd_is_mem p_fst
       p_mem_id p_mem_aw p_mem_dw is_binary arity_ok existsb length map nth ws_nth Nat.eqb];
  eval_op_tests; norm_opt;
  cbn [ws_width ws_inblock ws_inset wshape_of andb orb negb];
  rewrite ?k_in_const, ?k_reg.

Theorem gen_agrees nl n : rejects (shape_of nl n) = negb (sanity_net nl n).
Proof.
  change (rejects (shape_of nl n)) with (isSome (check (shape_of nl n))).
  destruct n as [o a d].
  unfold check, shape_of. cbn [sh_op sh_args sh_dests sh_param nop nargs ndest].
  norm_opt.
  (* the loop over net.args + net.dests, bad_args: generic in the argument list *)
  rewrite existsb_app, !existsb_map'.
  rewrite (existsb_negb_forallb _ (declared nl) a)
    by (intros x; norm_opt; cbn; destruct (declared nl x); reflexivity).
  rewrite (existsb_negb_forallb _ (fun x => negb (kind_is_output nl x)) a)
    by (intros x; rewrite k_out, negb_involutive; reflexivity).
  rewrite sum_widths.
  unfold sanity_net. cbn [nop nargs ndest]. unfold arg, W. cbn [nargs].
  rewrite map_length.
  destruct o as [ | | | | | | | | | | | | | |idx| |m|m].
  15: {
    (* select: the `for p in net.op_param` loop *)
    destruct a as [|a0 [|a1 r]]; prep.
    2: rewrite (existsb_negb_forallb _ (fun p => (0 <=? p) && (p <? width_of nl a0)) idx)
         by (intros p; norm_opt; cbn [negb]; lia).
    all: lia. }
  all: destruct a as [|a0 [|a1 [|a2 [|a3 r]]]]; prep; lia.
Qed.

(* a net on which some `raise` of the CURRENT source fires makes the model of
   sanity_check reject the block; on an accepted block no raise fires on any net *)
Corollary source_guard_rejects nl n :
  In n (nets nl) -> rejects (shape_of nl n) = true -> sanity_block nl = false.
Proof.
  intros Hn Hr. rewrite gen_agrees in Hr. apply negb_true_iff in Hr.
  destruct (sanity_block nl) eqn:E; [|reflexivity]. exfalso.
  unfold sanity_block in E. repeat (apply andb_true_iff in E; destruct E as [E ?]).
  rewrite forallb_forall in E. rewrite (E n Hn) in Hr. discriminate.
Qed.

Corollary accepted_no_raise nl n :
  sanity_block nl = true -> In n (nets nl) -> check (shape_of nl n) = None.
Proof.
  intros Hs Hn. destruct (check (shape_of nl n)) as [k|] eqn:E; [|reflexivity]. exfalso.
  assert (Hr : rejects (shape_of nl n) = true) by (unfold rejects; rewrite E; reflexivity).
  rewrite (source_guard_rejects nl n Hn Hr) in Hs. discriminate.
Qed.

(* the harness's copy of the side condition is the one the theorems use *)
Lemma comb_dest_not_reg_b_eq nl : comb_dest_not_reg_b nl = comb_dest_not_reg nl.
Proof. reflexivity. Qed.
