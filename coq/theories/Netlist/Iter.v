(* Model of Block.__iter__ (pyrtl/core.py): a Kahn worklist whose only
   nondeterminism is `to_clear.pop()` (an arbitrary element of a set).  The
   choice is an explicit oracle, so theorems quantify over every schedule.
   Definitions only (evaluated by py/checks/C10.py); proofs in IterCorrect.v. *)
From PyRTL Require Export Netlist.Sem Netlist.WFDefs.

(* nets are identified by their position in (nets nl) *)
Definition inet := (nat * net)%type.

Fixpoint number {A} (k : nat) (l : list A) : list (nat * A) :=
  match l with
  | [] => []
  | x :: r => (k, x) :: number (S k) r
  end.

Definition idx_in (i : nat) (l : list nat) : bool := existsb (Nat.eqb i) l.

Fixpoint remove_idx (i : nat) (l : list nat) : list nat :=
  match l with
  | [] => []
  | j :: r => if Nat.eqb i j then r else j :: remove_idx i r
  end.

(* set.update with one element *)
Definition set_add (w : wid) (s : list wid) : list wid := if mem_in w s then s else s ++ [w].

Record istate := mkI {
  to_clear : list wid;
  cleared : list wid;
  remaining : list nat;       (* indices of nets not yet yielded *)
  out : list inet             (* yielded nets, most recent first *)
}.

Inductive ires :=
| IOk (l : list inet)
| IKeyError                    (* "Cannot Iterate through malformed block" *)
| ILoop                        (* "Failure in Block Iterator due to non-register loops" *)
| IFuel.

Definition is_reg_op (o : op) : bool := match o with OpReg => true | _ => false end.
Definition has_dest (o : op) : bool := match o with OpMemWr _ => false | _ => true end.

(* for gate in dest_dict[wire]: if all args cleared: yield; remaining.remove; to_clear.update(dests) *)
Fixpoint visit (gs : list inet) (st : istate) : option istate :=
  match gs with
  | [] => Some st
  | (i, g) :: r =>
      if forallb (fun a => mem_in a (cleared st)) (nargs g) then
        if idx_in i (remaining st) then
          visit r {| to_clear := if is_reg_op (nop g) || negb (has_dest (nop g)) then to_clear st
                                 else set_add (ndest g) (to_clear st);
                     cleared := cleared st;
                     remaining := remove_idx i (remaining st);
                     out := (i, g) :: out st |}
        else None
      else visit r st
  end.

(* dest_dict[w]: nets reading w, in block.logic order, each once *)
Definition readers (ns : list inet) (w : wid) : list inet :=
  filter (fun ig => mem_in w (nargs (snd ig))) ns.

Fixpoint take_nth {A} (k : nat) (l : list A) : option (A * list A) :=
  match l, k with
  | [], _ => None
  | x :: r, O => Some (x, r)
  | x :: r, S k' => match take_nth k' r with
                    | Some (y, r') => Some (y, x :: r')
                    | None => None
                    end
  end.

Fixpoint iter_loop (ns : list inet) (fuel : nat) (oracle : list nat) (st : istate) : ires :=
  match to_clear st with
  | [] => match remaining st with
          | [] => IOk (rev (out st))
          | _ => ILoop
          end
  | _ =>
    match fuel with
    | O => IFuel
    | S fuel' =>
      let c := match oracle with [] => O | c :: _ => c end in
      match take_nth (Nat.modulo c (length (to_clear st))) (to_clear st) with
      | None => IFuel
      | Some (w, rest) =>
          let st1 := {| to_clear := rest; cleared := w :: cleared st;
                        remaining := remaining st; out := out st |} in
          match visit (readers ns w) st1 with
          | None => IKeyError
          | Some st2 => iter_loop ns fuel' (tl oracle) st2
          end
      end
    end
  end.

Definition base_wires (nl : netlist) : list wid := rdy0 nl.

Definition iterate (nl : netlist) (oracle : list nat) : ires :=
  let ns := number 0 (nets nl) in
  iter_loop ns (length (wires nl) + length (nets nl) + 1) oracle
    {| to_clear := base_wires nl; cleared := []; remaining := map fst ns; out := [] |}.

(* ---- what "dependency order" means ------------------------------------- *)

(* wires available before a net: sources + destinations of earlier non-register nets *)
Definition avail (nl : netlist) (pre : list net) : list wid :=
  base_wires nl ++ map ndest (filter (fun n => negb (is_reg_op (nop n)) && has_dest (nop n)) pre).

Fixpoint topo_from (nl : netlist) (pre : list net) (l : list net) : bool :=
  match l with
  | [] => true
  | n :: r => forallb (fun a => mem_in a (avail nl pre)) (nargs n) && topo_from nl (pre ++ [n]) r
  end.

Definition topo_sortedb (nl : netlist) (l : list net) : bool := topo_from nl [] l.

Fixpoint is_perm_idx (l : list nat) (n : nat) : bool :=
  (* l is a permutation of 0..n-1 *)
  Nat.eqb (length l) n && forallb (fun i => idx_in i l) (seq 0 n).

(* harness entry: result code, yielded indices *)
Definition iter_case (nl : netlist) (oracle : list nat) : list (list Z) :=
  match iterate nl oracle with
  | IOk l => [[0]; map (fun ig => Z.of_nat (fst ig)) l;
              [b2z (topo_sortedb nl (map snd l)); b2z (is_perm_idx (map fst l) (length (nets nl)))]]
  | IKeyError => [[1]]
  | ILoop => [[2]]
  | IFuel => [[3]]
  end.
