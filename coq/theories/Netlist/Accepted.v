(* "Never silently simulated": every netlist that the model of sanity_check
   accepts and that the iterator (under ANY schedule) manages to order satisfies
   `wfb`, the hypothesis of the C01 refinement theorem -- so what the simulators
   accept is simulated according to the documented semantics.
   Two side conditions are outside sanity_check's own rules and are stated
   explicitly: constants hold values representable in their width (guaranteed
   by the Const constructor), and no combinational net drives a Register
   (guaranteed by the construction API: `reg <<= x` raises). *)
From PyRTL Require Import Netlist.Sanity Netlist.IterCorrect Netlist.SanityCorrect.
From Coq Require Import Permutation.

Section Accepted.
Variable nl : netlist.

Definition consts_ok : bool :=
  forallb (fun x => match wkind x with
                    | KConst c => inrangeb c (wwidth x)
                    | _ => true
                    end) (wires nl).

Definition comb_dest_not_reg : bool :=
  forallb (fun n => negb (is_comb (nop n)) || negb (kind_is_reg nl (ndest n))) (nets nl).

Definition with_nets (l : list net) : netlist := {| wires := wires nl; nets := l; mems := mems nl |}.

Lemma rdy0_with l : rdy0 (with_nets l) = rdy0 nl.
Proof. reflexivity. Qed.

Lemma is_comb_split o : is_comb o = negb (is_reg_op o) && has_dest o.
Proof. destruct o; reflexivity. Qed.

(* the ready list after a prefix = sources + destinations of its combinational nets *)
Lemma ready_after pre : forall rdy w,
  In w (fold_left rdy_next pre rdy) <->
  In w rdy \/ In w (map ndest (filter (fun n => negb (is_reg_op (nop n)) && has_dest (nop n)) pre)).
Proof.
  induction pre as [|n r IH]; intros rdy w; simpl; [tauto|].
  rewrite IH. unfold rdy_next. rewrite is_comb_split.
  destruct (negb (is_reg_op (nop n)) && has_dest (nop n)); simpl; tauto.
Qed.

Lemma avail_ready pre w : In w (avail nl pre) <-> In w (fold_left rdy_next pre (rdy0 nl)).
Proof. unfold avail, base_wires. rewrite in_app_iff, ready_after. tauto. Qed.

Hypothesis Hs : sanity_block nl = true.
Hypothesis Hc : consts_ok = true.
Hypothesis Hr : comb_dest_not_reg = true.

Lemma kind_base w : In w (rdy0 nl) ->
  kind_is_input_or_const nl w = true \/ kind_is_reg nl w = true.
Proof.
  unfold rdy0. intros H. apply filter_In in H. destruct H as [_ H].
  unfold is_base in H. unfold kind_is_input_or_const, kind_is_reg, kind_of.
  destruct (find_wire (wires nl) w) as [x|]; [|discriminate].
  destruct (wkind x); try discriminate; auto.
Qed.

Lemma base_of_kind w :
  declared nl w = true ->
  kind_is_input_or_const nl w = true \/ kind_is_reg nl w = true -> In w (rdy0 nl).
Proof.
  unfold declared, kind_is_input_or_const, kind_is_reg, kind_of, rdy0. intros Hd Hk.
  destruct (find_wire (wires nl) w) as [x|] eqn:E; [|discriminate].
  apply filter_In. split.
  - apply in_map_iff. exists x.
    assert (Hx := E). clear Hk Hd.
    revert Hx. generalize (wires nl). induction l as [|y r IH]; simpl; [discriminate|].
    destruct (wname y =? w) eqn:Ey.
    + intros H. injection H as <-. split; [lia|left; reflexivity].
    + intros H. destruct (IH H). split; [assumption|right; assumption].
  - unfold is_base. rewrite E. destruct (wkind x); destruct Hk as [Hk|Hk]; try discriminate; reflexivity.
Qed.

Lemma sanity_net_opok n : sanity_net nl n = true -> op_ok nl n = true.
Proof.
  unfold sanity_net, op_ok, W. intros H.
  repeat (apply andb_true_iff in H; destruct H as [H ?]).
  destruct (nop n); try reflexivity.
  - (* Not *) lia.
  - (* Nand *) lia.
  - (* Select *)
    match goal with Hp : forallb _ idx = true |- _ => rename Hp into Hidx end.
    rewrite forallb_forall in Hidx. apply forallb_forall. intros i Hi. specialize (Hidx i Hi). lia.
Qed.

(* main induction: a dependency order of nets that all pass sanity_net, with
   pairwise distinct destinations, satisfies nets_ok *)
Lemma topo_nets_ok : forall l pre,
  (forall n, In n l -> sanity_net nl n = true) ->
  (forall n, In n l -> is_comb (nop n) = true -> kind_is_reg nl (ndest n) = false) ->
  NoDup (dests_of (pre ++ l)) ->
  topo_from nl pre l = true ->
  nets_ok nl (fold_left rdy_next pre (rdy0 nl)) l = true.
Proof.
  induction l as [|n r IH]; intros pre Hsan Hreg Hnd Ht; simpl; [reflexivity|].
  simpl in Ht. apply andb_true_iff in Ht. destruct Ht as [Hargs Hrest].
  apply andb_true_iff. split.
  - unfold net_ok. destruct (is_comb (nop n)) eqn:Ecomb; [|reflexivity].
    pose proof (Hsan n (or_introl eq_refl)) as Hsn.
    destruct (sanity_net_parts nl n Hsn) as [_ [Hdecl [Hnotic [_ Har]]]].
    assert (Hhd : has_dest (nop n) = true).
    { rewrite is_comb_split in Ecomb. apply andb_true_iff in Ecomb. apply Ecomb. }
    repeat (apply andb_true_iff; split).
    + rewrite forallb_forall in Hargs. apply forallb_forall. intros a Ha.
      apply mem_in_In'. apply avail_ready. apply mem_in_In'. apply Hargs. assumption.
    + apply negb_true_iff. destruct (mem_in (ndest n) _) eqn:E; [|reflexivity]. exfalso.
      apply mem_in_In' in E. apply ready_after in E. destruct E as [E|E].
      * apply kind_base in E. destruct E as [E|E].
        -- rewrite (Hnotic Hhd) in E. discriminate.
        -- rewrite (Hreg n (or_introl eq_refl) Ecomb) in E. discriminate.
      * (* destination already driven by an earlier net: contradicts NoDup *)
        unfold dests_of in Hnd. rewrite filter_app, map_app in Hnd. simpl in Hnd.
        rewrite Hhd in Hnd. simpl in Hnd. apply NoDup_remove_2 in Hnd. apply Hnd.
        rewrite in_app_iff. left.
        apply in_map_iff in E. destruct E as [m [Hm1 Hm2]]. apply filter_In in Hm2.
        apply in_map_iff. exists m. split; [assumption|]. apply filter_In.
        destruct Hm2 as [Hm2 Hm3]. split; [assumption|].
        apply andb_true_iff in Hm3. apply Hm3.
    + assumption.
    + apply sanity_net_opok. assumption.
  - replace (rdy_next (fold_left rdy_next pre (rdy0 nl)) n)
      with (fold_left rdy_next (pre ++ [n]) (rdy0 nl)) by (rewrite fold_left_app; reflexivity).
    apply IH.
    + intros m Hm. apply Hsan. right. assumption.
    + intros m Hm. apply Hreg. right. assumption.
    + rewrite <- app_assoc. simpl. assumption.
    + assumption.
Qed.

Lemma dests_perm l1 l2 : Permutation l1 l2 -> Permutation (dests_of l1) (dests_of l2).
Proof.
  intros H. unfold dests_of. apply Permutation_map.
  induction H; simpl.
  - constructor.
  - destruct (has_dest (nop x)); [constructor|]; assumption.
  - destruct (has_dest (nop x)), (has_dest (nop y)); try apply perm_swap; apply Permutation_refl.
  - eapply perm_trans; eassumption.
Qed.

Lemma args_perm l1 l2 : Permutation l1 l2 -> forall a, In a (args_of l1) -> In a (args_of l2).
Proof.
  intros H a Ha. unfold args_of in *. apply in_flat_map in Ha. destruct Ha as [n [Hn Ha]].
  apply in_flat_map. exists n. split; [eapply Permutation_in; eassumption|assumption].
Qed.

(* every argument of a net at position k of a dependency order is available in the end *)
Lemma topo_args_final : forall l pre n a,
  topo_from nl pre l = true -> In n l -> In a (nargs n) ->
  In a (fold_left rdy_next (pre ++ l) (rdy0 nl)).
Proof.
  induction l as [|m r IH]; intros pre n a Ht Hn Ha; [contradiction|].
  simpl in Ht. apply andb_true_iff in Ht. destruct Ht as [Hargs Hrest].
  destruct Hn as [<-|Hn].
  - rewrite forallb_forall in Hargs. specialize (Hargs a Ha). apply mem_in_In' in Hargs.
    apply avail_ready in Hargs. rewrite fold_left_app.
    revert Hargs. generalize (fold_left rdy_next pre (rdy0 nl)).
    generalize (m :: r). induction l as [|x xs IHx]; intros rdy Hin; simpl; [assumption|].
    apply IHx. unfold rdy_next. destruct (is_comb (nop x)); [right|]; assumption.
  - replace (pre ++ m :: r) with ((pre ++ [m]) ++ r) by (rewrite <- app_assoc; reflexivity).
    eapply IH; eassumption.
Qed.

Theorem accepted_implies_wfb oracle l :
  iterate nl oracle = IOk l -> wfb (with_nets (map snd l)) = true.
Proof.
  intros Hit. apply iterate_sound in Hit. destruct Hit as [Hp [Hnth Htopo]].
  pose proof (yielded_perm nl l Hp Hnth) as Hperm.
  destruct (sanity_block_parts nl Hs) as [Hall [Hw [_ [Hnd [Hconn Hdrv]]]]].
  set (l' := map snd l) in *.
  assert (Hsan : forall n, In n l' -> sanity_net nl n = true).
  { intros n Hn. rewrite forallb_forall in Hall. apply Hall.
    eapply Permutation_in; eassumption. }
  assert (Hreg : forall n, In n l' -> is_comb (nop n) = true -> kind_is_reg nl (ndest n) = false).
  { intros n Hn Hcomb. unfold comb_dest_not_reg in Hr. rewrite forallb_forall in Hr.
    specialize (Hr n (Permutation_in _ Hperm Hn)). rewrite Hcomb in Hr. simpl in Hr.
    apply negb_true_iff. assumption. }
  assert (Hnd' : NoDup (dests_of l')).
  { eapply Permutation_NoDup; [apply Permutation_sym, dests_perm; exact Hperm|assumption]. }
  unfold wfb. cbn [wires nets with_nets].
  repeat (apply andb_true_iff; split).
  - rewrite forallb_forall in Hw. apply forallb_forall. intros x Hx. specialize (Hw x Hx). lia.
  - exact Hc.
  - change (nets_ok (with_nets l') (rdy0 (with_nets l')) l' = true).
    rewrite rdy0_with.
    change (nets_ok (with_nets l')) with (nets_ok nl).
    apply (topo_nets_ok l' []); assumption.
  - apply forallb_forall. intros n Hn. destruct (is_comb (nop n)) eqn:Ecomb; [reflexivity|].
    apply andb_true_iff. split.
    + apply forallb_forall. intros a Ha. apply mem_in_In'.
      change (rdy_final (with_nets l')) with (fold_left rdy_next ([] ++ l') (rdy0 nl)).
      eapply topo_args_final; eassumption.
    + destruct (sanity_net_parts nl n (Hsan n Hn)) as [_ [_ [_ [_ Har]]]]. assumption.
  - apply forallb_forall. intros x Hx. apply mem_in_In'.
    change (rdy_final (with_nets l')) with (fold_left rdy_next l' (rdy0 nl)).
    apply ready_after.
    rewrite forallb_forall in Hconn, Hdrv, Hw. specialize (Hconn x Hx).
    assert (Hdecl : declared nl (wname x) = true).
    { unfold declared. clear - Hx. induction (wires nl) as [|y r IH]; [contradiction|]. simpl.
      destruct (wname y =? wname x) eqn:E; [reflexivity|].
      destruct Hx as [->|Hx]; [rewrite Z.eqb_refl in E; discriminate|apply IH; assumption]. }
    assert (Hdriven : kind_is_input_or_const nl (wname x) = true \/ In (wname x) (dests_of (nets nl))).
    { apply orb_true_iff in Hconn. destruct Hconn as [Hconn|Hconn].
      - apply orb_true_iff in Hconn. destruct Hconn as [Hconn|Hconn]; [left; assumption|].
        right. apply mem_in_In'. assumption.
      - apply mem_in_In' in Hconn. specialize (Hdrv _ Hconn).
        apply orb_true_iff in Hdrv. destruct Hdrv as [Hd|Hd]; [left; assumption|].
        right. apply mem_in_In'. assumption. }
    destruct Hdriven as [Hk|Hd].
    + left. apply base_of_kind; [assumption|left; assumption].
    + (* driven by some net: combinational -> its destination is ready; register net -> a source *)
      apply (Permutation_in _ (dests_perm _ _ (Permutation_sym Hperm))) in Hd.
      unfold dests_of in Hd. apply in_map_iff in Hd. destruct Hd as [n [Hn1 Hn2]].
      apply filter_In in Hn2. destruct Hn2 as [Hn2 Hhd].
      destruct (is_reg_op (nop n)) eqn:Ereg.
      * left. apply base_of_kind; [assumption|]. right.
        pose proof (Hsan n Hn2) as Hsn. unfold sanity_net in Hsn.
        destruct (nop n); try discriminate Ereg.
        repeat (apply andb_true_iff in Hsn; destruct Hsn as [Hsn ?]).
        match goal with Hk : kind_is_reg nl (ndest n) && _ = true |- _ =>
          apply andb_true_iff in Hk; destruct Hk as [Hk _]; rewrite Hn1 in Hk; exact Hk end.
      * right. apply in_map_iff. exists n. split; [assumption|]. apply filter_In.
        split; [assumption|]. rewrite Ereg, Hhd. reflexivity.
Qed.

End Accepted.
