#!/bin/bash
# tools/faultgen.sh <ID> : run ./check <ID> quick from a scratch copy of /verif with every translated fragment
# forced UNTRANSLATABLE (VERIF_FAULT_GEN=all).  Expected: exit 1 with "no-failing-input-found" (the unchanged code has no
# failing input), the broken replay names the fragments, and the implementation-only searches still ran
# (evaluations > 0, no 'harness-error' entry).
ID=$1
S=$(mktemp -d /tmp/faultgen.XXXXXX)
rsync -a --exclude work --exclude replays --exclude .git /verif/ $S/verif/
cd $S/verif
VERIF_FAULT_GEN=all ./check $ID --tier quick > $S/out.txt 2>&1
grep -E "^$ID tier" $S/out.txt
grep -c "^VIOLATION" $S/out.txt | sed "s/^/$ID violation lines: /"
grep "^VIOLATION" $S/out.txt | grep -v no-failing-input-found | head -3
python3 - <<PY
import json,glob
for f in glob.glob('$S/verif/replays/$ID-broken-*.json'):
    d=json.load(open(f))
    for b in d['broken']:
        if b['kind']=='harness-error': print('$ID HARNESS-ERROR', b['log'][-600:].replace('\n',' | '))
        if b['kind']=='correspondence': print('$ID correspondence entries:', len(b['cases']), b['cases'][0]['what'][:200])
PY
cd /; rm -rf $S
