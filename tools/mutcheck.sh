#!/bin/bash
# tools/mutcheck.sh <ID> <patch.diff> [tier] [seed-id]   (seed-id: record the outcome in seeded/<seed-id>/meta.json)
# Runs ./check <ID> against a scratch copy of /repo with the patch applied, from a scratch copy of /verif
# (so that /repo and /verif's build tree stay untouched while other work is going on).
set -e
ID=$1; PATCH=$(readlink -f "$2"); TIER=${3:-quick}; SID=$4
S=$(mktemp -d /tmp/mutcheck.XXXXXX)
git -C /repo worktree add -q --detach $S/repo HEAD
git -C $S/repo apply "$PATCH"
rsync -a --exclude work --exclude replays --exclude .git /verif/ $S/verif/
cd $S/verif
PYRTL_REPO=$S/repo ./check $ID --tier $TIER > $S/out.txt 2>&1 || true
[ -n "$KEEP_OUT" ] && cp $S/out.txt "$KEEP_OUT" && cp -r $S/verif/replays "$KEEP_OUT.replays" 2>/dev/null
grep -E "^(VIOLATION|KNOWN-FINDING|$ID tier)" $S/out.txt || tail -5 $S/out.txt
for r in $(grep -o 'replay=[^ ]*' $S/out.txt | cut -d= -f2 | head -2); do echo "--- $r"; python3 -c "
import json,sys; d=json.load(open('$r')); print(json.dumps({k:(v if k!='replay' else '...') for k,v in d.items()})[:600])"; done
if [ -n "$SID" ] && [ -f /verif/seeded/$SID/meta.json ]; then
python3 - <<PY
import json,re
p='/verif/seeded/$SID/meta.json'
m=json.load(open(p))
out=open('$S/out.txt').read()
lines=[l for l in out.split('\n') if l.startswith(('VIOLATION','KNOWN-FINDING','$ID tier'))]
whats=[]
for r in re.findall(r'replay=(\S+)', out)[:3]:
    try:
        d=json.load(open(r)); whats.append(d.get('what') or json.dumps(d.get('broken'))[:300])
    except Exception as e: pass
m['check_run']={'command':'PYRTL_REPO=<scratch worktree with patch applied> ./check $ID --tier $TIER (tools/mutcheck.sh)',
  'detected': any(l.startswith('VIOLATION') for l in lines),
  'with_concrete_input': any(l.startswith('VIOLATION') and 'no-failing-input-found' not in l for l in lines),
  'lines':[re.sub(r'replay=\S+','replay=<path>',l) for l in lines], 'what': whats}
json.dump(m,open(p,'w'),indent=1)
PY
fi
cd /; git -C /repo worktree remove --force $S/repo; rm -rf $S
