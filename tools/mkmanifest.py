"""Regenerate MANIFEST.json from tools/manifest_src.json (claimed checks), tools/texts/<ID>.json (level text, note,
technique per property) and properties.jsonl; and DESIGN.md section 11 from the same tools/texts files."""
import json, os
ROOT = os.path.dirname(os.path.dirname(os.path.abspath(__file__)))
src = json.load(open(os.path.join(ROOT, 'tools', 'manifest_src.json')))
props = [json.loads(l) for l in open(os.path.join(ROOT, 'properties.jsonl'))]
checks = []
na = []
for p in props:
    pid = p['id']
    c = src['checks'].get(pid)
    tf = os.path.join(ROOT, 'tools', 'texts', pid + '.json')
    if c is not None and os.path.exists(tf):     # per-property texts (maintained next to each check) win
        t = json.load(open(tf))
        c = dict(c, text=t['text'], note=t['note'], technique=t.get('technique', c['technique']))
    if c is None:
        na.append({'property_id': pid, 'reason': src['not_applicable'].get(pid, 'check not built yet in this round; planned (see DESIGN.md section 5)')})
        continue
    checks.append({
        'property_id': pid,
        'quick_cmd': './check %s --tier quick' % pid,
        'thorough_cmd': './check %s --tier thorough' % pid,
        'evidence_file': '/verif/evidence/%s.json' % pid,
        'replay_cmd_template': './check %s --replay {path}' % pid,
        'engine': 'coq-proof+correspondence',
        'level_claimed': {'category': 'proof', 'text': c['text'], 'design_ref': c.get('design_ref', 'DESIGN.md section 5 / ' + pid)},
        'level_note': c['note'],
        'technique': c['technique'],
    })
m = {
    'version': 1,
    'setup_cmd': './tools/setup.sh',
    'hooks': src['hooks'],
    'engines': [{'name': 'coq-proof+correspondence', 'path': '/verif/check',
                 'serves_properties': [c['property_id'] for c in checks],
                 'kind_free_text': 'Coq 8.16 theorems over a Gallina model (coq/theories), model tied to /repo by a Python->Gallina translator (py/gen_coq.py, regenerated every run) and by differential correspondence (py/checks/*.py evaluating the model with vm_compute)'}],
    'checks': checks,
    'notes': src.get('notes', ''),
    'not_applicable': na,
}
json.dump(m, open(os.path.join(ROOT, 'MANIFEST.json'), 'w'), indent=1)
print('checks:', [c['property_id'] for c in checks], 'n/a:', len(na))

# DESIGN.md section 11 is generated from tools/texts/_intro.md and the design_title/design fields
dp = os.path.join(ROOT, 'DESIGN.md')
d = open(dp).read()
i, j = d.index('## 11. As built'), d.index('## 12. Defects found')
sec = open(os.path.join(ROOT, 'tools', 'texts', '_intro.md')).read().rstrip('\n') + '\n'
for pr in props:
    tf = os.path.join(ROOT, 'tools', 'texts', pr['id'] + '.json')
    if os.path.exists(tf):
        t = json.load(open(tf))
        sec += '\n### %s %s\n%s\n' % (pr['id'], t['design_title'], t['design'].strip('\n'))
open(dp, 'w').write(d[:i] + sec + '\n' + d[j:])
