#!/bin/bash
# tools/seed_batch.sh <ID> [srcdir]  : confirm + mutcheck every m<k> under srcdir (default /root/mutwork/out_<ID>)
ID=$1; SRC=${2:-/root/mutwork/out_$ID}
for d in $(ls -d $SRC/m* 2>/dev/null | sort); do
  k=$(basename $d)
  echo "=== $ID-$k"
  [ -f /verif/seeded/$ID-$k/meta.json ] || /verif/tools/confirm_seed.sh $ID $d $ID-$k
  if [ -f /verif/seeded/$ID-$k/meta.json ]; then
    /verif/tools/mutcheck.sh $ID /verif/seeded/$ID-$k/patch.diff quick $ID-$k | grep -E "^(VIOLATION|KNOWN|$ID tier)" | cut -c1-160
  fi
done
