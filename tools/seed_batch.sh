#!/bin/bash
# tools/seed_batch.sh <ID> [srcroot]  : confirm + mutcheck the three seeds of a property
ID=$1; SRC=${2:-/root/mutwork/out_$ID}
for k in 1 2 3; do
  [ -d $SRC/m$k ] || continue
  echo "=== $ID-m$k"
  [ -f /verif/seeded/$ID-m$k/meta.json ] || /verif/tools/confirm_seed.sh $ID $SRC/m$k $ID-m$k
  if [ -f /verif/seeded/$ID-m$k/meta.json ]; then
    /verif/tools/mutcheck.sh $ID /verif/seeded/$ID-m$k/patch.diff quick $ID-m$k | grep -E "^(VIOLATION|KNOWN|$ID tier)" | cut -c1-160
  fi
done
