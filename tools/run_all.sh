#!/bin/bash
# tools/run_all.sh [tier] : run every claimed check once, sequentially, and summarise
cd "$(dirname "$0")/.."
TIER=${1:-quick}
for id in $(python3 -c "import json; print(' '.join(c['property_id'] for c in json.load(open('MANIFEST.json'))['checks']))"); do
  s=$(date +%s)
  out=$(./check $id --tier $TIER 2>&1)
  rc=$?
  e=$(date +%s)
  echo "== $id rc=$rc $((e-s))s"
  echo "$out" | grep -E "^(VIOLATION|KNOWN-FINDING)" | cut -c1-200
  echo "$out" | tail -1
done
