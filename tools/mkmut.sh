#!/bin/bash
# tools/mkmut.sh <ID>  -> creates /tmp/mut/<ID> worktree (fresh from /repo HEAD) and /tmp/mut/prompt_<ID>.txt
ID=$1
[ -d /tmp/mut/$ID ] && git -C /repo worktree remove --force /tmp/mut/$ID
git -C /repo worktree add -q --detach /tmp/mut/$ID HEAD
python3 - <<PY
t=open('/tmp/mut/template.txt').read()
p=open('/tmp/mut/prop_$ID.txt').read()
open('/tmp/mut/prompt_$ID.txt','w').write(t.replace('__WT__','/tmp/mut/$ID').replace('__PROP__',p).replace('__ID__','$ID'))
PY
echo "/tmp/mut/prompt_$ID.txt"
