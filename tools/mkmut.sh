#!/bin/bash
# tools/mkmut.sh <ID>  -> creates /root/mutwork/<ID> (a fresh clone of /repo HEAD) and /root/mutwork/prompt_<ID>.txt
ID=$1
rm -rf /root/mutwork/$ID
git clone -q /repo /root/mutwork/$ID
python3 - <<PY
t=open('/root/mutwork/template.txt').read()
p=open('/root/mutwork/prop_$ID.txt').read()
open('/root/mutwork/prompt_$ID.txt','w').write(t.replace('__WT__','/root/mutwork/$ID').replace('__PROP__',p).replace('__ID__','$ID'))
PY
echo "/root/mutwork/prompt_$ID.txt"
