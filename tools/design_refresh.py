"""Fill the computed blocks of DESIGN.md: the table of regenerated files (section 3), the obligation and
plug-in counts (section 7) and the seeded-change summary (section 13).  Run after tools/mkmanifest.py and
after the evidence files were written by a full pass."""
import glob, json, os, re, subprocess, sys
ROOT = os.path.dirname(os.path.dirname(os.path.abspath(__file__)))
p = os.path.join(ROOT, 'DESIGN.md')
s = open(p).read()


def block(tag, text):
    global s
    a, b = '<!-- %s -->' % tag, '<!-- /%s -->' % tag
    i, j = s.index(a), s.index(b)
    s = s[:i + len(a)] + text + s[j:]


table = subprocess.run([sys.executable, os.path.join(ROOT, 'tools', 'gen_table.py')], capture_output=True, text=True).stdout
block('GEN-TABLE', '\n' + table)
tot = dis = 0
per = []
for f in sorted(glob.glob(os.path.join(ROOT, 'evidence', 'C*.json'))):
    e = json.load(open(f))
    c = e.get('coverage', {})
    o, d = c.get('obligations', 0), c.get('discharged', 0)
    if isinstance(o, list):
        o = len(o)
    if isinstance(d, list):
        d = len(d)
    tot += o
    dis += d
    per.append('%s %s' % (e.get('property_id'), o))
block('OBLIG', 'all %d obligations of the 20 properties (%s; %d discharged on the last full pass)' % (tot, ', '.join(per), dis))
plug = sorted(os.path.basename(x) for x in glob.glob(os.path.join(ROOT, 'py', 'genfrag_*.py')))
block('PLUGINS', '%d plug-ins `py/genfrag_C*.py` (%d lines; `py/pyfrag.py` %d lines)' % (
    len(plug), sum(len(open(os.path.join(ROOT, 'py', x)).read().splitlines()) for x in plug),
    len(open(os.path.join(ROOT, 'py', 'pyfrag.py')).read().splitlines())))
out = subprocess.run([sys.executable, os.path.join(ROOT, 'tools', 'seeded_report.py')], capture_output=True, text=True).stdout
rows = ['| round | seeds | first run: concrete input | first run: tie-only | first run: missed | now detected with a concrete input |', '|---|---|---|---|---|---|']
for line in out.splitlines():
    m = re.match(r'round (\d+) (\{.*\})', line)
    if m:
        d = eval(m.group(2))
        n = d.get('first:concrete', 0) + d.get('first:tie-only', 0) + d.get('first:missed', 0)
        rows.append('| %s | %d | %d | %d | %d | %d |' % (m.group(1), n, d.get('first:concrete', 0), d.get('first:tie-only', 0),
                                                    d.get('first:missed', 0), d.get('final:DETECTED', 0)))
block('SEEDED-SUMMARY', '\n' + '\n'.join(rows) + '\n')
open(p, 'w').write(s)
print('DESIGN.md refreshed: %d obligations, %d plug-ins' % (tot, len(plug)))
