"""Markdown table of the seeded changes and which check catches them (from seeded/*/meta.json)."""
import json, os, glob
root = os.path.join(os.path.dirname(os.path.dirname(os.path.abspath(__file__))), 'seeded')
hist = json.load(open(os.path.join(root, 'history.json')))
rows = []
for d in sorted(glob.glob(os.path.join(root, 'C*-m*'))):
    m = json.load(open(os.path.join(d, 'meta.json')))
    sid = m['seed_id']
    cr = m.get('check_run', {})
    if not cr:
        status = 'not yet run'
    elif cr.get('with_concrete_input'):
        status = 'DETECTED (concrete failing input)'
    elif cr.get('detected'):
        status = 'detected (broken tie/proof, no-failing-input-found)'
    else:
        status = 'MISSED'
    notes = (m.get('needs_to_manifest') or '').strip().split('\n')
    what = ' '.join(notes)[:230].replace('|', '/')
    rows.append('| %s | %s | %s | %s |' % (sid, what, status, hist.get(sid, '')))
print('| seed | change and what it needs to manifest | ./check %s quick on the changed tree | history |' % '<ID>')
print('|---|---|---|---|')
print('\n'.join(rows))
