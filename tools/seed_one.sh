#!/bin/bash
# tools/seed_one.sh <ID> <srcdir> <k>  : confirm one seeded change then run ./check <ID> quick against it (scratch copies)
ID=$1; D=$2; K=$3
[ -f /verif/seeded/$ID-$K/meta.json ] || /verif/tools/confirm_seed.sh $ID $D $ID-$K
if [ -f /verif/seeded/$ID-$K/meta.json ]; then
  /verif/tools/mutcheck.sh $ID /verif/seeded/$ID-$K/patch.diff quick $ID-$K | cut -c1-300
fi
