#!/bin/bash
# tools/run_ids.sh <tier> <ID>... : run the listed checks one after the other and summarise
cd "$(dirname "$0")/.."
TIER=$1; shift
for id in "$@"; do
  s=$(date +%s)
  out=$(./check $id --tier $TIER 2>&1)
  rc=$?
  e=$(date +%s)
  echo "== $id rc=$rc $((e-s))s"
  echo "$out" | grep -E "^(VIOLATION|KNOWN-FINDING)" | cut -c1-200
  echo "$out" | tail -1
done
