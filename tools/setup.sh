#!/bin/bash
# Build the framework from files on disk only (offline).  Each ./check rebuilds
# what it needs under a lock, so a failure of one proof file here must not stop
# the others from being built: make -k, and report.
cd "$(dirname "$0")/.."
export PYTHONPATH=/repo PYTHONHASHSEED=0
/venv/bin/python py/gen_coq.py || echo "setup: translator reported a problem (checks will report it)"
cd coq
find theories -name '*.v' | sort > .vfiles.tmp
coq_makefile -f _CoqProject $(cat .vfiles.tmp) -o Makefile > /dev/null
rm -f .vfiles.tmp .vfiles
timeout 3000 make -k -j16 > setup_build.log 2>&1
rc=$?
tail -5 setup_build.log
echo "setup: make exit $rc (non-zero means some proof file did not build; the affected check will report it)"
exit 0
