#!/bin/bash
# Build the framework from files on disk only (offline).
set -e
cd "$(dirname "$0")/.."
export PYTHONPATH=/repo PYTHONHASHSEED=0
/venv/bin/python py/gen_coq.py || true
cd coq
coq_makefile -f _CoqProject $(find theories -name '*.v' | sort) -o Makefile > /dev/null
find theories -name '*.v' | sort | sed 's#^\./##' | tr '\n' '\n' > /dev/null
timeout 3000 make -j16
