#!/bin/bash
# tools/snapshot_gen.sh : regenerate Gen/*.v from /repo's working tree and store them as coq/baseline_gen/ (the
# "last known model" the runner falls back to, for the search only, when the translator refuses a fragment).
# Run on the unchanged tree only (after a fix: commit in /repo).
cd "$(dirname "$0")/.."
PYTHONPATH=/repo PYTHONHASHSEED=0 /venv/bin/python py/gen_coq.py > /tmp/snapshot_gen.$$ || { echo "translator reported a problem"; cat /tmp/snapshot_gen.$$; rm -f /tmp/snapshot_gen.$$; exit 1; }
rm -f /tmp/snapshot_gen.$$
mkdir -p coq/baseline_gen
rm -f coq/baseline_gen/*.v
cp coq/theories/Gen/*.v coq/baseline_gen/
grep -l "FALLBACK\|untranslatable" coq/baseline_gen/*.v && { echo "refusing: a snapshot file is a stub/fallback"; exit 1; }
ls coq/baseline_gen | wc -l
