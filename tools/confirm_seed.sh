#!/bin/bash
# tools/confirm_seed.sh <PROP> <srcdir with patch.diff demo.py notes.txt> <seed-id>
# Confirms in a scratch worktree: demo passes clean, fails with patch, test suite still passes with patch.
# On success stores /verif/seeded/<seed-id>/{patch.diff,demo.py,notes.txt,meta.json}
PROP=$1; SRC=$(readlink -f $2); SID=$3
S=$(mktemp -d /tmp/confirm.XXXXXX)
git -C /repo worktree add -q --detach $S/repo HEAD
cd $S/repo
PYTHONPATH=$S/repo PYTHONHASHSEED=0 timeout 600 /venv/bin/python $SRC/demo.py > $S/clean.txt 2>&1; RC_CLEAN=$?
if ! git apply $SRC/patch.diff 2> $S/apply.txt; then echo "PATCH DOES NOT APPLY: $(head -3 $S/apply.txt)"; cd /; git -C /repo worktree remove --force $S/repo; rm -rf $S; exit 2; fi
PYTHONPATH=$S/repo PYTHONHASHSEED=0 timeout 600 /venv/bin/python $SRC/demo.py > $S/mut.txt 2>&1; RC_MUT=$?
PYTHONPATH=$S/repo timeout 1200 /venv/bin/python -m pytest -q -p no:cacheprovider --timeout=900 tests --deselect tests/test_examples.py 2>&1 | tail -1 > $S/tests.txt
TESTS=$(cat $S/tests.txt)
echo "clean rc=$RC_CLEAN mutated rc=$RC_MUT tests: $TESTS"
OK=0
if [ $RC_CLEAN -eq 0 ] && [ $RC_MUT -ne 0 ] && echo "$TESTS" | grep -q "1151 passed" && ! echo "$TESTS" | grep -q failed; then OK=1; fi
if [ $OK -eq 1 ]; then
  mkdir -p /verif/seeded/$SID
  cp $SRC/patch.diff $SRC/demo.py /verif/seeded/$SID/
  [ -f $SRC/notes.txt ] && cp $SRC/notes.txt /verif/seeded/$SID/
  python3 - <<PY
import json
json.dump({"property": "$PROP", "seed_id": "$SID",
 "needs_to_manifest": open("$SRC/notes.txt").read() if __import__('os').path.exists("$SRC/notes.txt") else "",
 "confirmed": {"demo_clean_rc": $RC_CLEAN, "demo_mutated_rc": $RC_MUT, "tests_with_patch": """$TESTS""".strip(),
   "how": "tools/confirm_seed.sh: scratch worktree of /repo HEAD; demo.py on clean tree, git apply patch.diff, demo.py again, pytest tests (test_examples deselected)",
   "repo_head": "$(git -C /repo rev-parse --short HEAD)"},
 "demo_output_mutated": open("$S/mut.txt").read()[-800:]}, open("/verif/seeded/$SID/meta.json","w"), indent=1)
PY
  echo "CONFIRMED -> /verif/seeded/$SID"
else
  echo "NOT CONFIRMED"; tail -3 $S/clean.txt; tail -3 $S/mut.txt
fi
cd /; git -C /repo worktree remove --force $S/repo; rm -rf $S
