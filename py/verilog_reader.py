"""Reader for exactly the Verilog-2001 subset written by
pyrtl.output_to_verilog / output_verilog_testbench (C05).

parse_module(text)    -> Module   (string identifiers)
parse_testbench(text) -> Testbench
Module.coq(idmap)     -> Coq term of type IO.VerilogSyn.vmodule
Anything outside the subset raises ReaderError (fail closed)."""
import re


class ReaderError(Exception):
    pass


# IEEE 1364-2001 Annex B: reserved keywords (cannot be simple identifiers)
KEYWORDS = frozenset("""always and assign automatic begin buf bufif0 bufif1 case casex casez cell cmos
config deassign default defparam design disable edge else end endcase endconfig endfunction
endgenerate endmodule endprimitive endspecify endtable endtask event for force forever fork
function generate genvar highz0 highz1 if ifnone incdir include initial inout input instance
integer join large liblist library localparam macromodule medium module nand negedge nmos nor
noshowcancelled not notif0 notif1 or output parameter pmos posedge primitive pull0 pull1 pulldown
pullup pulsestyle_onevent pulsestyle_ondetect rcmos real realtime reg release repeat rnmos rpmos
rtran rtranif0 rtranif1 scalared showcancelled signed small specify specparam strong0 strong1
supply0 supply1 table task time tran tranif0 tranif1 tri tri0 tri1 triand trior trireg unsigned
use vectored wait wand weak0 weak1 while wire wor xnor xor""".split())
MAX_IDENT = 1024    # the standard guarantees at least 1024 characters


TOKEN = re.compile(r"""
    (?P<ws>\s+|//[^\n]*)
  | (?P<sized>\d+'[hd][0-9a-fA-F]+)
  | (?P<num>\d+)
  | (?P<id>[A-Za-z_][A-Za-z0-9_$]*|\$[a-z]+)
  | (?P<str>"[^"\n]*")
  | (?P<sym><=|==|\+\+|[()\[\]{},;:=?~&|^+\-*<>@\#.`])
""", re.X)

BINOPS = {'&': 'BAnd', '|': 'BOr', '^': 'BXor', '+': 'BAdd', '-': 'BSub', '*': 'BMul'}
CMPOPS = {'<': 'CLt', '>': 'CGt', '==': 'CEq'}
# Verilog precedence, loosest first
LEVELS = [['|'], ['^'], ['&'], ['=='], ['<', '>'], ['+', '-'], ['*']]


MAX_WIDTH = 1 << 16   # no vector / literal / memory of the subset is anywhere near this; larger = absurd text


def tokenize(text):
    pos, out, lines, line = 0, [], [], 1
    while pos < len(text):
        m = TOKEN.match(text, pos)
        if not m:
            raise ReaderError('cannot tokenize: line %d: %r' % (line, text[pos:pos + 40]))
        k = m.lastgroup
        if k != 'ws':
            out.append((k, m.group()))
            lines.append(line)
        line += text.count('\n', pos, m.end())
        pos = m.end()
    tokenize.last_lines = lines
    return out


class P(object):
    def __init__(self, toks):
        self.t, self.i = toks, 0

    def peek(self, k=0):
        return self.t[self.i + k] if self.i + k < len(self.t) else ('eof', '')

    def next(self):
        tok = self.peek()
        self.i += 1
        return tok

    def at(self, *vals):
        return all(self.peek(j)[1] == v for j, v in enumerate(vals))

    def eat(self, val):
        tok = self.next()
        if tok[1] != val:
            raise ReaderError('expected %r, got %r (token %d)' % (val, tok[1], self.i))

    def ident(self):
        k, v = self.next()
        if k != 'id':
            raise ReaderError('expected identifier, got %r' % v)
        return v

    def number(self):
        k, v = self.next()
        if k != 'num':
            raise ReaderError('expected number, got %r' % v)
        return int(v)

    def range_width(self):
        """optional [n:0] -> n+1, absent -> 1"""
        if not self.at('['):
            return 1
        self.eat('[')
        hi = self.number()
        self.eat(':')
        if self.number() != 0:
            raise ReaderError('range must end at 0')
        self.eat(']')
        if hi + 1 > MAX_WIDTH:
            raise ReaderError('range wider than %d bits: [%d:0]' % (MAX_WIDTH, hi))
        return hi + 1

    # ---- expressions
    def expr(self):
        c = self.binary(0)
        if self.at('?'):
            self.eat('?')
            t = self.expr()
            self.eat(':')
            f = self.expr()
            return ('cond', c, t, f)
        return c

    def binary(self, lvl):
        if lvl == len(LEVELS):
            return self.unary()
        a = self.binary(lvl + 1)
        while self.peek()[0] == 'sym' and self.peek()[1] in LEVELS[lvl]:
            op = self.next()[1]
            b = self.binary(lvl + 1)
            a = ('cmp', op, a, b) if op in CMPOPS else ('bin', op, a, b)
        return a

    def unary(self):
        if self.at('~'):
            self.eat('~')
            return ('not', self.unary())
        return self.primary()

    def primary(self):
        k, v = self.next()
        if k == 'sized':
            w, rest = v.split("'")
            if not 1 <= int(w) <= MAX_WIDTH:
                raise ReaderError('sized literal with a size outside 1..%d: %s' % (MAX_WIDTH, v[:60]))
            return ('sized', int(w), int(rest[1:], 16 if rest[0] == 'h' else 10))
        if k == 'num':
            return ('dec', int(v))
        if k == 'id':
            if self.at('['):
                self.eat('[')
                if self.peek()[0] == 'num':
                    i = self.number()
                    self.eat(']')
                    return ('bit', v, i)
                a = self.ident()
                self.eat(']')
                return ('idx', v, a)
            return ('id', v)
        if v == '{':
            es = [self.expr()]
            while self.at(','):
                self.eat(',')
                es.append(self.expr())
            self.eat('}')
            return ('cat', es)
        if v == '(':
            e = self.expr()
            self.eat(')')
            return e
        raise ReaderError('unexpected token %r in expression' % v)


def memid(name):
    m = re.match(r'mem_(\d+)$', name)
    if not m:
        raise ReaderError('not a memory name: %r' % name)
    return int(m.group(1))


class Module(object):
    def __init__(self):
        self.ports = []
        self.has_rst = False
        self.inputs, self.outputs, self.regs, self.wires = [], [], [], []
        self.mems = []      # (id, width, depth)
        self.roms = []      # (id, [(addr, expr)])
        self.assigns = []   # (lhs, expr)
        self.memrds = []    # (lhs, memid, addr ident)
        self.mode = 'none'
        self.resets, self.updates = [], []
        self.memwrs = []    # (memid, [(en, addr, data)])
        self.n_always_reg = 0

    def declared(self):
        return dict(self.inputs + self.outputs + self.regs + self.wires)

    def idents_in(self, e, acc):
        if e[0] in ('id', 'bit'):
            acc.add(e[1])
        elif e[0] == 'not':
            self.idents_in(e[1], acc)
        elif e[0] in ('bin', 'cmp'):
            self.idents_in(e[2], acc)
            self.idents_in(e[3], acc)
        elif e[0] == 'cond':
            for x in e[1:]:
                self.idents_in(x, acc)
        elif e[0] == 'cat':
            for x in e[1]:
                self.idents_in(x, acc)
        elif e[0] == 'idx':
            raise ReaderError('memory index inside an expression')

    def check_selects(self, e, decl):
        """a bit-select needs a vector and an index inside its range"""
        if e[0] == 'bit':
            if decl[e[1]] == 1:
                raise ReaderError('bit-select of a scalar: %s[%d]' % (e[1], e[2]))
            if not 0 <= e[2] < decl[e[1]]:
                raise ReaderError('bit-select out of range: %s[%d]' % (e[1], e[2]))
        elif e[0] in ('not', 'bin', 'cmp', 'cond'):
            for x in e[1:]:
                if isinstance(x, tuple):
                    self.check_selects(x, decl)
        elif e[0] == 'cat':
            for x in e[1]:
                self.check_selects(x, decl)

    def validate(self):
        names = [n for n, _ in self.inputs + self.outputs + self.regs + self.wires]
        names += ['mem_%d' % i for i, _, _ in self.mems] + ['clk'] + (['rst'] if self.has_rst else [])
        dup = sorted({n for n in names if names.count(n) > 1})
        if dup:
            raise ReaderError('identifier declared more than once: %s' % ', '.join(dup[:5]))
        kw = sorted(n for n in names if n in KEYWORDS)
        if kw:
            raise ReaderError('reserved keyword used as identifier: %s' % ', '.join(kw[:5]))
        if any(len(n) > MAX_IDENT for n in names):
            raise ReaderError('identifier longer than %d characters' % MAX_IDENT)
        decl = self.declared()
        used = set()
        for _, e in self.assigns + self.resets + self.updates:
            self.idents_in(e, used)
        for lhs, _ in self.assigns + self.resets + self.updates:
            used.add(lhs)
        for lhs, _, a in self.memrds:
            used.update([lhs, a])
        for _, ws in self.memwrs:
            for w in ws:
                used.update(w)
        und = sorted(u for u in used if u not in decl)
        if und:
            raise ReaderError('undeclared identifier(s): %s' % ', '.join(und[:5]))
        for _, e in self.assigns + self.resets + self.updates:
            self.check_selects(e, decl)
        want = ['clk'] + (['rst'] if self.has_rst else []) + [n for n, _ in self.inputs] + \
               [n for n, _ in self.outputs]
        if self.ports != want:
            raise ReaderError('port list %r differs from the input/output declarations %r' % (self.ports, want))
        memids = {i for i, _, _ in self.mems}
        for i in [i for i, _ in self.roms] + [i for _, i, _ in self.memrds] + [i for i, _ in self.memwrs]:
            if i not in memids:
                raise ReaderError('undeclared memory mem_%d' % i)
        regnames = {n for n, _ in self.regs}
        for lhs, _ in self.resets + self.updates:
            if lhs not in regnames:
                raise ReaderError('non-blocking assignment to non-reg %s' % lhs)
        for lhs, _ in self.assigns:
            if lhs in regnames or lhs in dict(self.inputs):
                raise ReaderError('continuous assignment to reg/input %s' % lhs)
        # every wire and output needs exactly one driver (an undriven net is z, two drivers fight)
        drivers = [lhs for lhs, _ in self.assigns] + [lhs for lhs, _, _ in self.memrds]
        for n, _ in self.wires + self.outputs:
            if drivers.count(n) == 0:
                raise ReaderError('wire or output without a driver: %s' % n)
            if drivers.count(n) > 1:
                raise ReaderError('wire or output with several drivers: %s' % n)

    # ---- Coq term
    def same_but_reset(self, other):
        """equal in everything except the reset structure (mode, reset branch, rst port)"""
        f = lambda m: (m.inputs, m.outputs, m.regs, m.wires, m.mems, m.roms, m.assigns, m.memrds, m.updates,
                       m.memwrs)
        return f(self) == f(other)

    def coq(self, idmap, only_mode_resets=False):
        def z(v):
            return str(v) if v >= 0 else '(%d)' % v

        def ex(e):
            k = e[0]
            if k == 'id':
                return '(VId %d)' % idmap[e[1]]
            if k == 'bit':
                return '(VBit %d %d)' % (idmap[e[1]], e[2])
            if k == 'dec':
                return '(VDec %s)' % z(e[1])
            if k == 'sized':
                return '(VSized %d %s)' % (e[1], z(e[2]))
            if k == 'not':
                return '(VNot %s)' % ex(e[1])
            if k == 'bin':
                return '(VBin %s %s %s)' % (BINOPS[e[1]], ex(e[2]), ex(e[3]))
            if k == 'cmp':
                return '(VCmp %s %s %s)' % (CMPOPS[e[1]], ex(e[2]), ex(e[3]))
            if k == 'cond':
                return '(VCond %s %s %s)' % (ex(e[1]), ex(e[2]), ex(e[3]))
            if k == 'cat':
                return '(VCat [%s])' % '; '.join(ex(x) for x in e[1])
            raise ReaderError('bad expression node %r' % (k,))

        def decls(l):
            return '[' + '; '.join('(%d, %d)' % (idmap[n], w) for n, w in l) + ']'

        def items(l):
            return '[' + '; '.join('(%d, %s)' % (idmap[n], ex(e)) for n, e in l) + ']'

        if only_mode_resets:
            return {'none': 'RNone', 'sync': 'RSync', 'async': 'RAsync'}[self.mode], items(self.resets)
        mode = {'none': 'RNone', 'sync': 'RSync', 'async': 'RAsync'}[self.mode]
        mems = '[' + '; '.join('(%d, (%d, %d))' % t for t in self.mems) + ']'
        roms = '[' + '; '.join('(%d, [%s])' % (i, '; '.join('(%d, %s)' % (a, ex(e)) for a, e in tab))
                               for i, tab in self.roms) + ']'
        memrds = '[' + '; '.join('(%d, (%d, %d))' % (idmap[l], i, idmap[a]) for l, i, a in self.memrds) + ']'
        memwrs = '[' + '; '.join(
            '(%d, [%s])' % (i, '; '.join('mkVW %d %d %d' % (idmap[e], idmap[a], idmap[d]) for e, a, d in ws))
            for i, ws in self.memwrs) + ']'
        return '(mkVModule %s %s %s %s %s %s %s %s %s %s %s %s)' % (
            decls(self.inputs), decls(self.outputs), decls(self.regs), decls(self.wires), mems, roms,
            items(self.assigns), memrds, mode, items(self.resets), items(self.updates), memwrs)


def _with_context(fn, text, *args):
    """run a parser; a ReaderError raised while tokens remain gets the offending source line appended"""
    p = P(tokenize(text))
    lines = tokenize.last_lines
    try:
        return fn(p, *args)
    except ReaderError as e:
        if 0 < p.i <= len(lines) and p.peek()[0] != 'eof':
            ln = lines[p.i - 1]
            raise ReaderError('%s  [line %d: %s]' % (e, ln, text.split('\n')[ln - 1].strip()[:160]))
        raise
    except (RecursionError, MemoryError, OverflowError, ValueError) as e:
        raise ReaderError('reader gave up: %s: %s' % (type(e).__name__, str(e)[:100]))


def parse_module(text, reset_port=None):
    """reset_port: True = the module was exported with add_reset (first `input rst;` is the reset port),
    False = `rst` is an ordinary identifier, None = infer from the port list"""
    return _with_context(_parse_module, text, reset_port)


def _parse_module(p, reset_port):
    m = Module()
    p.eat('module')
    if p.ident() != 'toplevel':
        raise ReaderError('module is not named toplevel')
    p.eat('(')
    m.ports.append(p.ident())
    while p.at(','):
        p.eat(',')
        m.ports.append(p.ident())
    p.eat(')')
    p.eat(';')
    while not p.at('endmodule'):
        kw = p.ident()
        if kw in ('input', 'output', 'wire'):
            w = p.range_width()
            name = p.ident()
            p.eat(';')
            if kw == 'input' and name == 'clk' and w == 1:
                continue
            if kw == 'input' and name == 'rst' and w == 1 and 'rst' in m.ports[:2] and not m.has_rst \
                    and not m.inputs and reset_port is not False:
                m.has_rst = True
                continue
            {'input': m.inputs, 'output': m.outputs, 'wire': m.wires}[kw].append((name, w))
        elif kw == 'reg':
            w = p.range_width()
            name = p.ident()
            if p.at('['):
                m.mems.append((memid(name), w, p.range_width()))
            else:
                m.regs.append((name, w))
            p.eat(';')
        elif kw == 'initial':
            p.eat('begin')
            tab, mid = [], None
            while not p.at('end'):
                i = memid(p.ident())
                if mid not in (None, i):
                    raise ReaderError('initial block mixes memories')
                mid = i
                p.eat('[')
                a = p.number()
                p.eat(']')
                p.eat('=')
                e = p.expr()
                if e[0] != 'sized':
                    raise ReaderError('ROM word is not a sized literal')
                p.eat(';')
                tab.append((a, e))
            p.eat('end')
            m.roms.append((mid, tab))
        elif kw == 'assign':
            lhs = p.ident()
            p.eat('=')
            e = p.expr()
            p.eat(';')
            if e[0] == 'idx':
                m.memrds.append((lhs, memid(e[1]), e[2]))
            else:
                m.assigns.append((lhs, e))
        elif kw == 'always':
            parse_always(p, m)
        else:
            raise ReaderError('unexpected item %r' % kw)
    p.eat('endmodule')
    if p.peek()[0] != 'eof':
        raise ReaderError('text after endmodule')
    if reset_port is True and not m.has_rst:
        raise ReaderError('no rst port although the module was exported with a reset option')
    m.validate()
    return m


def parse_always(p, m):
    p.eat('@')
    p.eat('(')
    p.eat('posedge')
    p.eat('clk')
    is_async = False
    if p.at('or'):
        p.eat('or')
        p.eat('posedge')
        p.eat('rst')
        is_async = True
    p.eat(')')
    p.eat('begin')

    def nb_list():
        out = []
        p.eat('begin')
        while not p.at('end'):
            lhs = p.ident()
            p.eat('<=')
            e = p.expr()
            p.eat(';')
            out.append((lhs, e))
        p.eat('end')
        return out

    # memory write block: if (en) begin mem_N[a] <= d; end ...
    if p.at('if', '(') and p.peek(4)[1] == 'begin' and re.match(r'mem_\d+$', p.peek(5)[1]) \
            and p.peek(6)[1] == '[':
        if is_async:
            raise ReaderError('memory block with asynchronous event control')
        ws, mid = [], None
        while p.at('if'):
            p.eat('if')
            p.eat('(')
            en = p.ident()
            p.eat(')')
            p.eat('begin')
            i = memid(p.ident())
            if mid not in (None, i):
                raise ReaderError('write block mixes memories')
            mid = i
            p.eat('[')
            a = p.ident()
            p.eat(']')
            p.eat('<=')
            d = p.ident()
            p.eat(';')
            p.eat('end')
            ws.append((en, a, d))
        p.eat('end')
        m.memwrs.append((mid, ws))
        return
    m.n_always_reg += 1
    if m.n_always_reg > 1:
        raise ReaderError('more than one register block')
    if p.at('if'):
        p.eat('if')
        p.eat('(')
        p.eat('rst')
        p.eat(')')
        if not m.has_rst:
            raise ReaderError('if (rst) without a rst port')
        m.resets = nb_list()
        p.eat('else')
        m.updates = nb_list()
        m.mode = 'async' if is_async else 'sync'
    else:
        if is_async:
            raise ReaderError('asynchronous event control without reset branch')
        m.updates = nb_list()
        m.mode = 'none'
    p.eat('end')


# ---------------------------------------------------------------- testbench

class Testbench(object):
    def __init__(self):
        self.regs = []        # declared reg (name, width): clk/rst excluded
        self.wires = []
        self.has_rst = False
        self.conns = []
        self.clk_init = None
        self.rst_init = None
        self.reg_init = []    # (name, value)            block.<name> = v;
        self.mem_fill = []    # (memid, count, value)    for (...) block.mem_N[tb_iter] = v;
        self.mem_init = []    # (memid, addr, value)     block.mem_N[a] = v;
        self.cycles = []      # per cycle: [(name, width, value)]
        self.init = []        # the three kinds above, in text order

    def coq(self, idmap):
        def trip(l):
            return '[' + '; '.join('(%d, (%d, %d))' % t for t in l) + ']'

        def stmt(t):
            if t[0] == 'reg':
                return 'TReg %d %d' % (idmap[t[1]], t[2])
            return '%s %d %d %d' % (('TFill' if t[0] == 'fill' else 'TMem',) + t[1:])
        cyc = '[' + '; '.join(trip([(idmap[n], w, v) for n, w, v in c]) for c in self.cycles) + ']'
        return '(mkTB [%s] %s)' % ('; '.join(stmt(t) for t in self.init), cyc)


def parse_testbench(text, reset_port=None):
    return _with_context(_parse_testbench, text, reset_port)


def _parse_testbench(p, reset_port):
    tb = Testbench()
    if p.at('`'):
        p.eat('`')
        p.eat('include')
        p.next()
    p.eat('module')
    p.eat('tb')
    p.eat('(')
    p.eat(')')
    p.eat(';')
    while p.at('reg') or p.at('wire'):
        kw = p.ident()
        w = p.range_width()
        name = p.ident()
        p.eat(';')
        if kw == 'reg' and name == 'clk' and w == 1:
            continue
        if kw == 'reg' and name == 'rst' and w == 1 and not tb.regs and not tb.has_rst and reset_port is not False:
            tb.has_rst = True
            continue
        (tb.regs if kw == 'reg' else tb.wires).append((name, w))
    p.eat('integer')
    p.eat('tb_iter')
    p.eat(';')
    p.eat('toplevel')
    p.eat('block')
    p.eat('(')
    while True:
        p.eat('.')
        a = p.ident()
        p.eat('(')
        b = p.ident()
        p.eat(')')
        if a != b:
            raise ReaderError('port %s connected to %s' % (a, b))
        tb.conns.append(a)
        if not p.at(','):
            break
        p.eat(',')
    p.eat(')')
    p.eat(';')
    for t in ['always', '#', '5', 'clk', '=', '~', 'clk', ';', 'initial', 'begin']:
        p.eat(t)
    if p.at('$dumpfile'):
        p.eat('$dumpfile')
        p.eat('(')
        p.next()
        p.eat(')')
        p.eat(';')
        p.eat('$dumpvars')
        p.eat(';')
    cur = []
    started = False      # becomes True at the first input drive / delay
    widths = dict(tb.regs)
    while not p.at('$finish'):
        if p.at('#'):
            p.eat('#')
            if p.number() != 10:
                raise ReaderError('cycle delay is not #10')
            tb.cycles.append(cur)
            cur = []
            started = True
        elif p.at('for'):
            for t in ['for', '(', 'tb_iter', '=', '0', ';', 'tb_iter', '<']:
                p.eat(t)
            cnt = p.number()
            for t in [';', 'tb_iter', '++', ')', 'begin', 'block', '.']:
                p.eat(t)
            i = memid(p.ident())
            for t in ['[', 'tb_iter', ']', '=']:
                p.eat(t)
            v = p.number()
            p.eat(';')
            p.eat('end')
            if started:
                raise ReaderError('memory initialisation after the first cycle')
            tb.mem_fill.append((i, cnt, v))
            tb.init.append(('fill', i, cnt, v))
        elif p.at('block', '.'):
            p.eat('block')
            p.eat('.')
            name = p.ident()
            if p.at('['):
                p.eat('[')
                a = p.number()
                p.eat(']')
                p.eat('=')
                v = p.number()
                tb.mem_init.append((memid(name), a, v))
                tb.init.append(('mem', memid(name), a, v))
            else:
                p.eat('=')
                v = p.number()
                tb.reg_init.append((name, v))
                tb.init.append(('reg', name, v))
            p.eat(';')
            if started:
                raise ReaderError('state initialisation after the first cycle')
        else:
            name = p.ident()
            p.eat('=')
            k, v = p.next()
            p.eat(';')
            if name == 'clk' and k == 'num' and not started and tb.clk_init is None:
                tb.clk_init = int(v)
            elif name == 'rst' and tb.has_rst and k == 'num' and not started and tb.rst_init is None \
                    and name not in widths:
                tb.rst_init = int(v)
            else:
                if k != 'sized' or "'d" not in v:
                    raise ReaderError('input %s driven with %r (not a sized decimal literal)' % (name, v))
                if name not in widths:
                    raise ReaderError('drive of undeclared reg %s' % name)
                w, val = v.split("'d")
                cur.append((name, int(w), int(val)))
                started = True
    if cur:
        raise ReaderError('input drives after the last delay')
    for t in ['$finish', ';', 'end', 'endmodule']:
        p.eat(t)
    if p.peek()[0] != 'eof':
        raise ReaderError('text after endmodule')
    names = [n for n, _ in tb.regs + tb.wires] + ['clk', 'tb_iter', 'block'] + (['rst'] if tb.has_rst else [])
    dup = sorted({n for n in names if names.count(n) > 1})
    if dup:
        raise ReaderError('testbench identifier declared more than once: %s' % ', '.join(dup))
    want = ['clk'] + (['rst'] if tb.has_rst else []) + [n for n, _ in tb.regs] + [n for n, _ in tb.wires]
    if tb.conns != want:
        raise ReaderError('instance connections %r differ from declarations %r' % (tb.conns, want))
    if tb.clk_init != 0:
        raise ReaderError('clk not initialised to 0')
    return tb
