"""C13 translator plug-in: regenerates coq/theories/Gen/C13Src.v from the current source of
pyrtl/rtllib/adders.py, multipliers.py and libutils.py.

Every function the models Lib/Adders.v, Lib/Mult.v, Lib/SeqMult.v were written against is matched,
statement by statement, against a TEMPLATE (py/c13_src_templates.py): the function's body with its
gate expressions, width formulas, loop conditions and guards replaced by named holes `__h_<name>__`.

  * a hole's expression is TRANSLATED (fail closed) into a Gallina definition `src_<name>` over
    bool (one-bit wires / bitwise wirevector operators: ^ & | -> xorb andb orb) or Z (lengths,
    indices, widths, comparisons; int(math.ceil(math.log(x, 2))) -> Z.log2_up x;
    int(x * 3 / 2) -> (x * 3) / 2).  Lib/C13SrcTie.v proves, for all arguments, that each of these
    regenerated definitions is the expression the model uses at that place, so the exactness
    theorems are re-checked against what the file says now;
  * everything else (the control skeleton: loops, index arithmetic inside subscripts, list
    manipulation, calls, conditional_assignment blocks) must be AST-identical to the template, i.e.
    to the text the model was written against; any difference raises Untranslatable (tie broken).

`python py/genfrag_C13.py --bootstrap` rewrites py/c13_src_templates.py from the current source (to be
run only after the models have been brought in line with a source change)."""
import ast
import os
import sys

import pyfrag

HERE = os.path.dirname(os.path.abspath(__file__))

# (file, function) -> list of (hole name, expression text)
#   the text is only used by --bootstrap to locate the hole; at run time the template decides.
# hole name -> (params [(python expression text, coq name, type)], result type)
B, Z = 'bool', 'Z'
FUNCS = [
    ('adders', 'kogge_stone', [
        ('ks_prop', 'a ^ b'), ('ks_gen', 'a & b'),
        ('ks_fold', 'gen_bits[0] | (prop_bits[0] & cin)'),
        ('ks_loop_cond', 'prop_dist < len(a)'),
        ('ks_upd_gen', 'gen_bits[i] | (prop_old & gen_bits[i - prop_dist])'),
        ('ks_guard', 'i >= prop_dist * 2'),
        ('ks_upd_prop', 'prop_old & prop_bits[i - prop_dist]')]),
    ('adders', 'one_bit_add', []),
    ('adders', '_one_bit_add_no_concat', [('fa_sum', 'a ^ b ^ cin'), ('fa_cout', 'a & b | a & cin | b & cin')]),
    ('adders', 'half_adder', [('ha_sum', 'a ^ b'), ('ha_cout', 'a & b')]),
    ('adders', 'ripple_add', [('rp_swap', 'len(a) < len(b)'), ('rp_a1', 'len(a) == 1'), ('rp_b1', 'len(b) == 1')]),
    ('adders', 'ripple_half_add', [('rh_a1', 'len(a) == 1')]),
    ('adders', 'carrysave_adder', [('cs_sum', 'a ^ b ^ c'), ('cs_carry', '(a | b) & (a | c) & (b | c)')]),
    ('adders', 'cla_adder', [('cla_fits', 'len(a) <= la_unit_len')]),
    ('adders', '_cla_adder_unit', [
        ('cla_gen', 'a & b'), ('cla_prop', 'a ^ b'),
        ('cla_c0', 'gen[0] | prop[0] & cin'), ('cla_s0', 'prop[0] ^ cin'),
        ('cla_cur_gen', 'gen[i] | (prop[i] & cur_gen)'), ('cla_cur_prop', 'cur_prop & prop[i]'),
        ('cla_sumbit', 'prop[i] ^ carry[i - 1]'), ('cla_carry', 'gen[i] | (prop[i] & carry[i - 1])'),
        ('cla_cout', 'cur_gen | (cur_prop & cin)')]),
    ('adders', 'wallace_reducer', [
        ('wl_done', 'len(i) <= 2'), ('wl_rows', 'result_bitwidth + 1'), ('wl_full', 'len(w_array) >= 3'),
        ('wl_half', 'len(w_array) == 2'), ('wl_trunc', 'len(result) > result_bitwidth')]),
    ('adders', 'dada_reducer', [
        ('dd_sched_cond', 'reduction_schedule[-1] <= max_width'),
        ('dd_sched_next', 'int(reduction_schedule[-1] * 3 / 2)'),
        ('dd_rows', 'result_bitwidth + 1'),
        ('dd_more', 'len(w_array) + len(deferred[i]) > reduction_target'),
        ('dd_full', 'len(w_array) + len(deferred[i]) - reduction_target >= 2'),
        ('dd_err', 'len(deferred[i]) > reduction_target'),
        ('dd_trunc', 'len(result) > result_bitwidth')]),
    ('adders', '_sparse_adder', [('sp_two', 'len(wire_array_2[single_w_index]) == 2')]),
    ('adders', 'fast_group_adder', [
        ('fga_width', 'longest_wire_len + int(math.ceil(math.log(len(wires_to_add), 2)))')]),
    ('multipliers', 'simple_mult', [('sm_w', 'blen + alen')]),
    ('multipliers', '_trivial_mult', [('tm_b1', 'len(B) == 1'), ('tm_a1', 'len(A) == 1')]),
    ('multipliers', 'complex_mult', [('cm_w', 'alen + blen'), ('cm_guard', '(shifts > alen) or (shifts > blen)')]),
    ('multipliers', '_one_cycle_mult', [
        ('oc_done', 'rem_bits == 0'), ('oc_first', 'curr_bit == 0'), ('oc_dec', 'rem_bits - 1'),
        ('oc_inc', 'curr_bit + 1')]),
    ('multipliers', 'tree_multiplier', [('tree_len', 'len(A) + len(B)'), ('tree_idx', 'i + j'), ('tree_pp', 'a & b')]),
    ('multipliers', 'signed_tree_multiplier', [
        ('st_guard', 'len(A) == 1 or len(B) == 1'), ('st_len', 'len(A) + len(B)'), ('st_sign', 'aneg ^ bneg')]),
    ('multipliers', '_twos_comp_conditional', []),
    ('multipliers', 'fused_multiply_adder', []),
    ('multipliers', 'generalized_fma', [
        ('fma_pairlen', 'len(m[0]) + len(m[1]) - 1'), ('fma_idx', 'i + j'), ('fma_pp', 'a & b'),
        ('fma_width', 'longest_wire_len + int(math.ceil(math.log(len(add_wires) + len(mult_pairs), 2)))')]),
    ('libutils', 'match_bitwidth', []),
    ('libutils', '_shifted_reg_next', [('sr_over', 'num >= len(reg)')]),
]

HOLES = {
    'ks_prop': ([('a', 'a', B), ('b', 'b', B)], B),
    'ks_gen': ([('a', 'a', B), ('b', 'b', B)], B),
    'ks_fold': ([('gen_bits[0]', 'g0', B), ('prop_bits[0]', 'p0', B), ('cin', 'cin', B)], B),
    'ks_loop_cond': ([('prop_dist', 'd', Z), ('len(a)', 'n', Z)], B),
    'ks_upd_gen': ([('gen_bits[i]', 'gi', B), ('prop_old', 'pold', B), ('gen_bits[i - prop_dist]', 'gsrc', B)], B),
    'ks_guard': ([('i', 'i', Z), ('prop_dist', 'd', Z)], B),
    'ks_upd_prop': ([('prop_old', 'pold', B), ('prop_bits[i - prop_dist]', 'psrc', B)], B),
    'fa_sum': ([('a', 'a', B), ('b', 'b', B), ('cin', 'cin', B)], B),
    'fa_cout': ([('a', 'a', B), ('b', 'b', B), ('cin', 'cin', B)], B),
    'ha_sum': ([('a', 'a', B), ('b', 'b', B)], B),
    'ha_cout': ([('a', 'a', B), ('b', 'b', B)], B),
    'rp_swap': ([('len(a)', 'la', Z), ('len(b)', 'lb', Z)], B),
    'rp_a1': ([('len(a)', 'la', Z)], B),
    'rp_b1': ([('len(b)', 'lb', Z)], B),
    'rh_a1': ([('len(a)', 'la', Z)], B),
    'cs_sum': ([('a', 'a', B), ('b', 'b', B), ('c', 'c', B)], B),
    'cs_carry': ([('a', 'a', B), ('b', 'b', B), ('c', 'c', B)], B),
    'cla_fits': ([('len(a)', 'la', Z), ('la_unit_len', 'unit', Z)], B),
    'cla_gen': ([('a', 'a', B), ('b', 'b', B)], B),
    'cla_prop': ([('a', 'a', B), ('b', 'b', B)], B),
    'cla_c0': ([('gen[0]', 'g0', B), ('prop[0]', 'p0', B), ('cin', 'cin', B)], B),
    'cla_s0': ([('prop[0]', 'p0', B), ('cin', 'cin', B)], B),
    'cla_cur_gen': ([('gen[i]', 'g', B), ('prop[i]', 'p', B), ('cur_gen', 'cur_gen', B)], B),
    'cla_cur_prop': ([('cur_prop', 'cur_prop', B), ('prop[i]', 'p', B)], B),
    'cla_sumbit': ([('prop[i]', 'p', B), ('carry[i - 1]', 'cprev', B)], B),
    'cla_carry': ([('gen[i]', 'g', B), ('prop[i]', 'p', B), ('carry[i - 1]', 'cprev', B)], B),
    'cla_cout': ([('cur_gen', 'cur_gen', B), ('cur_prop', 'cur_prop', B), ('cin', 'cin', B)], B),
    'wl_done': ([('len(i)', 'h', Z)], B),
    'wl_rows': ([('result_bitwidth', 'rw', Z)], Z),
    'wl_full': ([('len(w_array)', 'lw', Z)], B),
    'wl_half': ([('len(w_array)', 'lw', Z)], B),
    'wl_trunc': ([('len(result)', 'lr', Z), ('result_bitwidth', 'rw', Z)], B),
    'dd_sched_cond': ([('reduction_schedule[-1]', 'last', Z), ('max_width', 'maxw', Z)], B),
    'dd_sched_next': ([('reduction_schedule[-1]', 'last', Z)], Z),
    'dd_rows': ([('result_bitwidth', 'rw', Z)], Z),
    'dd_more': ([('len(w_array)', 'lw', Z), ('len(deferred[i])', 'ld', Z), ('reduction_target', 't', Z)], B),
    'dd_full': ([('len(w_array)', 'lw', Z), ('len(deferred[i])', 'ld', Z), ('reduction_target', 't', Z)], B),
    'dd_err': ([('len(deferred[i])', 'ld', Z), ('reduction_target', 't', Z)], B),
    'dd_trunc': ([('len(result)', 'lr', Z), ('result_bitwidth', 'rw', Z)], B),
    'sp_two': ([('len(wire_array_2[single_w_index])', 'h', Z)], B),
    'fga_width': ([('longest_wire_len', 'longest', Z), ('len(wires_to_add)', 'k', Z)], Z),
    'sm_w': ([('alen', 'alen', Z), ('blen', 'blen', Z)], Z),
    'tm_b1': ([('len(B)', 'lb', Z)], B),
    'tm_a1': ([('len(A)', 'la', Z)], B),
    'cm_w': ([('alen', 'alen', Z), ('blen', 'blen', Z)], Z),
    'cm_guard': ([('shifts', 'shifts', Z), ('alen', 'alen', Z), ('blen', 'blen', Z)], B),
    'oc_done': ([('rem_bits', 'rem', Z)], B),
    'oc_first': ([('curr_bit', 'cb', Z)], B),
    'oc_dec': ([('rem_bits', 'rem', Z)], Z),
    'oc_inc': ([('curr_bit', 'cb', Z)], Z),
    'tree_len': ([('len(A)', 'la', Z), ('len(B)', 'lb', Z)], Z),
    'tree_idx': ([('i', 'i', Z), ('j', 'j', Z)], Z),
    'tree_pp': ([('a', 'a', B), ('b', 'b', B)], B),
    'st_guard': ([('len(A)', 'la', Z), ('len(B)', 'lb', Z)], B),
    'st_len': ([('len(A)', 'la', Z), ('len(B)', 'lb', Z)], Z),
    'st_sign': ([('aneg', 'aneg', B), ('bneg', 'bneg', B)], B),
    'fma_pairlen': ([('len(m[0])', 'la', Z), ('len(m[1])', 'lb', Z)], Z),
    'fma_idx': ([('i', 'i', Z), ('j', 'j', Z)], Z),
    'fma_pp': ([('a', 'a', B), ('b', 'b', B)], B),
    'fma_width': ([('longest_wire_len', 'longest', Z), ('len(add_wires)', 'nadd', Z),
                   ('len(mult_pairs)', 'npairs', Z)], Z),
    'sr_over': ([('num', 'num', Z), ('len(reg)', 'lreg', Z)], B),
}

HEADER = ('(* GENERATED by py/genfrag_C13.py from pyrtl/rtllib/adders.py, multipliers.py, libutils.py -- do not edit.\n'
          '   One definition per expression hole of py/c13_src_templates.py; the rest of each function body\n'
          '   was checked to be AST-identical to its template.  bool = a one-bit wire (or one bit position of a\n'
          '   bitwise wirevector operator); Z = a Python int (length, index, width). *)\n'
          'From PyRTL Require Import Base.PyZ.\n\n')


def norm(text):
    return pyfrag.dump_noctx(ast.parse(text, mode='eval').body)


def strip_doc(node):
    """remove docstring / bare-string statements everywhere (they are not part of the behaviour)"""
    for n in ast.walk(node):
        if hasattr(n, 'body') and isinstance(n.body, list):
            n.body = [s for s in n.body if not (isinstance(s, ast.Expr) and isinstance(s.value, ast.Constant)
                                                and isinstance(s.value.value, str))] or [ast.Pass()]
    return node


def find_fn(repo, fname, qual):
    tree = pyfrag.parse_file(os.path.join(repo, 'pyrtl', 'rtllib', fname + '.py'))
    fn = pyfrag.find_def(tree, qual)
    if fn is None:
        raise pyfrag.Untranslatable('%s.py: function %s not found' % (fname, qual))
    return strip_doc(fn)


# ------------------------------------------------------------------ template matching

def is_hole(t):
    return isinstance(t, ast.Name) and t.id.startswith('__h_') and t.id.endswith('__')


def unify(t, s, binds, where):
    """template node t against source node s; holes bind source expressions"""
    if is_hole(t):
        name = t.id[4:-2]
        if not isinstance(s, ast.expr):
            raise pyfrag.Untranslatable('%s: hole %s is not an expression in the source' % (where, name))
        d = pyfrag.dump_noctx(s)
        if name in binds and pyfrag.dump_noctx(binds[name]) != d:
            raise pyfrag.Untranslatable('%s: the occurrences of expression `%s` differ: `%s` / `%s`' % (
                where, name, ast.unparse(binds[name]), ast.unparse(s)))
        binds[name] = s
        return
    if type(t) is not type(s):
        raise pyfrag.Untranslatable('%s: control skeleton differs from the modelled text near line %s: expected %s, '
                                    'found `%s`' % (where, getattr(s, 'lineno', '?'), type(t).__name__,
                                                    ast.unparse(s)[:120] if isinstance(s, ast.AST) else s))
    for f in t._fields:
        if f in ('ctx', 'type_comment', 'kind'):
            continue
        tv, sv = getattr(t, f, None), getattr(s, f, None)
        if isinstance(tv, list):
            if not isinstance(sv, list) or len(tv) != len(sv):
                raise pyfrag.Untranslatable('%s: control skeleton differs from the modelled text near line %s '
                                            '(%s: %d items expected, %d found)' % (
                                                where, getattr(s, 'lineno', '?'), f, len(tv),
                                                len(sv) if isinstance(sv, list) else -1))
            for a, b in zip(tv, sv):
                unify_any(a, b, binds, where)
        else:
            unify_any(tv, sv, binds, where)


def unify_any(tv, sv, binds, where):
    if isinstance(tv, ast.AST):
        if not isinstance(sv, ast.AST):
            raise pyfrag.Untranslatable('%s: control skeleton differs from the modelled text' % where)
        unify(tv, sv, binds, where)
    elif tv != sv:
        raise pyfrag.Untranslatable('%s: control skeleton differs from the modelled text: expected %r, found %r' % (
            where, tv, sv))


# ------------------------------------------------------------------ expression translation

def tr(node, env, where):
    d = pyfrag.dump_noctx(node)
    if d in env:
        return env[d]
    if isinstance(node, ast.Constant) and isinstance(node.value, int) and not isinstance(node.value, bool):
        return ('%d' % node.value if node.value >= 0 else '(%d)' % node.value, Z)
    if isinstance(node, ast.BinOp):
        # int(x * 3 / 2) and int(math.ceil(math.log(x, 2))) are handled at the Call
        l, r = tr(node.left, env, where), tr(node.right, env, where)
        if isinstance(node.op, (ast.BitXor, ast.BitAnd, ast.BitOr)) and l[1] == B and r[1] == B:
            f = {ast.BitXor: 'xorb', ast.BitAnd: 'andb', ast.BitOr: 'orb'}[type(node.op)]
            return ('(%s %s %s)' % (f, l[0], r[0]), B)
        if isinstance(node.op, (ast.Add, ast.Sub, ast.Mult)) and l[1] == Z and r[1] == Z:
            f = {ast.Add: '+', ast.Sub: '-', ast.Mult: '*'}[type(node.op)]
            return ('(%s %s %s)' % (l[0], f, r[0]), Z)
    if isinstance(node, ast.Compare) and len(node.ops) == 1:
        l, r = tr(node.left, env, where), tr(node.comparators[0], env, where)
        ops = {ast.Lt: 'Z.ltb', ast.LtE: 'Z.leb', ast.Gt: 'Z.gtb', ast.GtE: 'Z.geb', ast.Eq: 'Z.eqb'}
        if type(node.ops[0]) in ops and l[1] == Z and r[1] == Z:
            return ('(%s %s %s)' % (ops[type(node.ops[0])], l[0], r[0]), B)
    if isinstance(node, ast.BoolOp):
        parts = [tr(v, env, where) for v in node.values]
        if all(p[1] == B for p in parts):
            f = 'orb' if isinstance(node.op, ast.Or) else 'andb'
            txt = parts[0][0]
            for p in parts[1:]:
                txt = '(%s %s %s)' % (f, txt, p[0])
            return (txt, B)
    if isinstance(node, ast.Call) and isinstance(node.func, ast.Name) and node.func.id == 'int' \
            and len(node.args) == 1 and not node.keywords:
        a = node.args[0]
        # int(math.ceil(math.log(x, 2)))  (x >= 1)  ->  Z.log2_up x
        if isinstance(a, ast.Call) and ast.unparse(a.func) == 'math.ceil' and len(a.args) == 1:
            lg = a.args[0]
            if isinstance(lg, ast.Call) and ast.unparse(lg.func) == 'math.log' and len(lg.args) == 2 \
                    and isinstance(lg.args[1], ast.Constant) and lg.args[1].value == 2:
                x = tr(lg.args[0], env, where)
                if x[1] == Z:
                    return ('(Z.log2_up %s)' % x[0], Z)
        # int(x * 3 / 2)  (x >= 0)  ->  (x * 3) / 2
        if isinstance(a, ast.BinOp) and isinstance(a.op, ast.Div):
            n, dn = tr(a.left, env, where), tr(a.right, env, where)
            if n[1] == Z and dn[1] == Z:
                return ('(Z.div %s %s)' % (n[0], dn[0]), Z)
    raise pyfrag.Untranslatable('%s: expression `%s` is outside the translated subset (or mentions something the '
                                'model does not)' % (where, ast.unparse(node)))


def load_templates():
    sys.path.insert(0, HERE)
    import importlib
    import c13_src_templates
    importlib.reload(c13_src_templates)
    return c13_src_templates.TEMPLATES


def generate(repo):
    templates = load_templates()
    out = [HEADER]
    for fname, qual, holes in FUNCS:
        where = '%s.%s' % (fname, qual)
        fn = find_fn(repo, fname, qual)
        if where not in templates:
            raise pyfrag.Untranslatable('%s: no template' % where)
        tmpl = strip_doc(ast.parse(templates[where]).body[0])
        binds = {}
        unify(tmpl, fn, binds, where)
        out.append('(* %s.py %s *)\n' % (fname, qual))
        for name, _ in holes:
            if name not in binds:
                raise pyfrag.Untranslatable('%s: hole %s not present in the template' % (where, name))
            params, rtype = HOLES[name]
            env = {norm(py): (coq, ty) for (py, coq, ty) in params}
            txt, ty = tr(binds[name], env, '%s hole %s' % (where, name))
            if ty != rtype:
                raise pyfrag.Untranslatable('%s hole %s: type %s, expected %s' % (where, name, ty, rtype))
            out.append('(* `%s` *)\n' % ast.unparse(binds[name]))
            out.append('Definition src_%s %s : %s :=\n  %s.\n' % (
                name, ' '.join('(%s : %s)' % (coq, ty_) for (_, coq, ty_) in params), rtype, txt))
        out.append('\n')
    return ''.join(out)


# ------------------------------------------------------------------ bootstrap

class _Holer(ast.NodeTransformer):
    def __init__(self, holes):
        self.holes = [(name, norm(text)) for name, text in holes]
        self.used = set()

    def visit(self, node):
        if isinstance(node, ast.expr):
            d = pyfrag.dump_noctx(node)
            for name, hd in self.holes:
                if d == hd:
                    self.used.add(name)
                    return ast.copy_location(ast.Name(id='__h_%s__' % name, ctx=ast.Load()), node)
        return self.generic_visit(node)


def bootstrap(repo):
    lines = ['"""FROZEN templates of the rtllib functions modelled for C13 (written by\n'
             '`python py/genfrag_C13.py --bootstrap`): the function text the Coq models were written against,\n'
             'with the translated expressions replaced by holes __h_<name>__.  See py/genfrag_C13.py."""\n',
             'TEMPLATES = {}\n']
    for fname, qual, holes in FUNCS:
        fn = find_fn(repo, fname, qual)
        h = _Holer(holes)
        fn2 = ast.fix_missing_locations(h.visit(fn))
        missing = [n for n, _ in holes if n not in h.used]
        if missing:
            raise SystemExit('%s.%s: hole expressions not found: %s' % (fname, qual, missing))
        lines.append("\nTEMPLATES['%s.%s'] = '''\\\n%s\n'''\n" % (fname, qual, ast.unparse(fn2)))
    with open(os.path.join(HERE, 'c13_src_templates.py'), 'w') as f:
        f.write(''.join(lines))


if __name__ == '__main__':
    repo = os.environ.get('PYRTL_REPO', '/repo')
    if '--bootstrap' in sys.argv:
        bootstrap(repo)
        print('templates written')
    else:
        sys.stdout.write(generate(repo))
else:
    from gen_coq import generator

    @generator('C13Src')
    def gen_c13src(repo):
        return generate(repo)
