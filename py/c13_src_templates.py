"""FROZEN templates of the rtllib functions modelled for C13 (written by
`python py/genfrag_C13.py --bootstrap`): the function text the Coq models were written against,
with the translated expressions replaced by holes __h_<name>__.  See py/genfrag_C13.py."""
TEMPLATES = {}

TEMPLATES['adders.kogge_stone'] = '''\
def kogge_stone(a, b, cin=0):
    a, b = libutils.match_bitwidth(a, b)
    prop_orig = __h_ks_prop__
    prop_bits = [i for i in prop_orig]
    gen_bits = [i for i in __h_ks_gen__]
    cin = pyrtl.as_wires(cin)
    gen_bits[0] = __h_ks_fold__
    prop_dist = 1
    while __h_ks_loop_cond__:
        for i in reversed(range(prop_dist, len(a))):
            prop_old = prop_bits[i]
            gen_bits[i] = __h_ks_upd_gen__
            if __h_ks_guard__:
                prop_bits[i] = __h_ks_upd_prop__
        prop_dist *= 2
    gen_bits.insert(0, cin)
    return pyrtl.concat_list(gen_bits) ^ prop_orig
'''

TEMPLATES['adders.one_bit_add'] = '''\
def one_bit_add(a, b, cin=0):
    return pyrtl.concat(*_one_bit_add_no_concat(a, b, cin))
'''

TEMPLATES['adders._one_bit_add_no_concat'] = '''\
def _one_bit_add_no_concat(a, b, cin=0):
    cin = pyrtl.as_wires(cin)
    assert len(a) == len(b) == len(cin) == 1
    sum = __h_fa_sum__
    cout = __h_fa_cout__
    return (cout, sum)
'''

TEMPLATES['adders.half_adder'] = '''\
def half_adder(a, b):
    assert len(a) == len(b) == 1
    sum = __h_ha_sum__
    cout = __h_ha_cout__
    return (cout, sum)
'''

TEMPLATES['adders.ripple_add'] = '''\
def ripple_add(a, b, cin=0):
    if __h_rp_swap__:
        b, a = (a, b)
    cin = pyrtl.as_wires(cin)
    if __h_rp_a1__:
        return one_bit_add(a, b, cin)
    else:
        ripplecarry = one_bit_add(a[0], b[0], cin)
        if __h_rp_b1__:
            msbits = ripple_half_add(a[1:], ripplecarry[1])
        else:
            msbits = ripple_add(a[1:], b[1:], ripplecarry[1])
        return pyrtl.concat(msbits, ripplecarry[0])
'''

TEMPLATES['adders.ripple_half_add'] = '''\
def ripple_half_add(a, cin=0):
    cin = pyrtl.as_wires(cin)
    if __h_rh_a1__:
        return pyrtl.concat(*half_adder(a, cin))
    else:
        ripplecarry = half_adder(a[0], cin)
        msbits = ripple_half_add(a[1:], ripplecarry[0])
        return pyrtl.concat(msbits, ripplecarry[1])
'''

TEMPLATES['adders.carrysave_adder'] = '''\
def carrysave_adder(a, b, c, final_adder=ripple_add):
    a, b, c = libutils.match_bitwidth(a, b, c)
    partial_sum = __h_cs_sum__
    shift_carry = __h_cs_carry__
    return final_adder(partial_sum, pyrtl.concat(shift_carry, pyrtl.Const(0, bitwidth=1)))
'''

TEMPLATES['adders.cla_adder'] = '''\
def cla_adder(a, b, cin=0, la_unit_len=4):
    a, b = pyrtl.match_bitwidth(a, b)
    if __h_cla_fits__:
        sum, cout = _cla_adder_unit(a, b, cin)
        return pyrtl.concat(cout, sum)
    else:
        sum, cout = _cla_adder_unit(a[0:la_unit_len], b[0:la_unit_len], cin)
        msbits = cla_adder(a[la_unit_len:], b[la_unit_len:], cout, la_unit_len)
        return pyrtl.concat(msbits, sum)
'''

TEMPLATES['adders._cla_adder_unit'] = '''\
def _cla_adder_unit(a, b, cin):
    gen = __h_cla_gen__
    prop = __h_cla_prop__
    assert len(prop) == len(gen)
    carry = [__h_cla_c0__]
    sum_bit = __h_cla_s0__
    cur_gen = gen[0]
    cur_prop = prop[0]
    for i in range(1, len(prop)):
        cur_gen = __h_cla_cur_gen__
        cur_prop = __h_cla_cur_prop__
        sum_bit = pyrtl.concat(__h_cla_sumbit__, sum_bit)
        carry.append(__h_cla_carry__)
    cout = __h_cla_cout__
    return (sum_bit, cout)
'''

TEMPLATES['adders.wallace_reducer'] = '''\
def wallace_reducer(wire_array_2, result_bitwidth, final_adder=kogge_stone):
    for wire_set in wire_array_2:
        for a_wire in wire_set:
            if not isinstance(a_wire, pyrtl.WireVector) or len(a_wire) != 1:
                raise pyrtl.PyrtlError('The item {} is not a valid element for the wire_array_2. It must be a WireVector of bitwidth 1'.format(a_wire))
    while not all((__h_wl_done__ for i in wire_array_2)):
        deferred = [[] for weight in range(__h_wl_rows__)]
        for i, w_array in enumerate(wire_array_2):
            while __h_wl_full__:
                cout, sum = _one_bit_add_no_concat(*(w_array.pop(0) for j in range(3)))
                deferred[i].append(sum)
                deferred[i + 1].append(cout)
            if __h_wl_half__:
                cout, sum = half_adder(*w_array)
                deferred[i].append(sum)
                deferred[i + 1].append(cout)
            else:
                deferred[i].extend(w_array)
        wire_array_2 = deferred[:result_bitwidth]
    result = _sparse_adder(wire_array_2, final_adder)
    if __h_wl_trunc__:
        return result[:result_bitwidth]
    else:
        return result
'''

TEMPLATES['adders.dada_reducer'] = '''\
def dada_reducer(wire_array_2, result_bitwidth, final_adder=kogge_stone):
    import math
    for wire_set in wire_array_2:
        for a_wire in wire_set:
            if not isinstance(a_wire, pyrtl.WireVector) or len(a_wire) != 1:
                raise pyrtl.PyrtlError('The item {} is not a valid element for the wire_array_2. It must be a WireVector of bitwidth 1'.format(a_wire))
    max_width = max((len(i) for i in wire_array_2))
    reduction_schedule = [2]
    while __h_dd_sched_cond__:
        reduction_schedule.append(__h_dd_sched_next__)
    for reduction_target in reversed(reduction_schedule[:-1]):
        deferred = [[] for weight in range(__h_dd_rows__)]
        last_round = max((len(i) for i in wire_array_2)) == 3
        for i, w_array in enumerate(wire_array_2):
            while __h_dd_more__:
                if __h_dd_full__:
                    cout, sum = _one_bit_add_no_concat(*(w_array.pop(0) for j in range(3)))
                    deferred[i].append(sum)
                    deferred[i + 1].append(cout)
                else:
                    cout, sum = half_adder(*(w_array.pop(0) for j in range(2)))
                    deferred[i].append(sum)
                    deferred[i + 1].append(cout)
            deferred[i].extend(w_array)
            if __h_dd_err__:
                raise pyrtl.PyrtlError('Expected that the code would be able to reduce more wires')
        wire_array_2 = deferred[:result_bitwidth]
    result = _sparse_adder(wire_array_2, final_adder)
    if __h_dd_trunc__:
        return result[:result_bitwidth]
    else:
        return result
'''

TEMPLATES['adders._sparse_adder'] = '''\
def _sparse_adder(wire_array_2, adder):
    result = []
    for single_w_index in range(len(wire_array_2)):
        if __h_sp_two__:
            break
        result.append((wire_array_2[single_w_index] or [pyrtl.Const(0)])[0])
    else:
        return pyrtl.concat_list(result)
    wires_to_zip = wire_array_2[single_w_index:]
    add_wires = tuple(itertools.zip_longest(*wires_to_zip, fillvalue=pyrtl.Const(0)))
    adder_result = adder(pyrtl.concat_list(add_wires[0]), pyrtl.concat_list(add_wires[1]))
    return pyrtl.concat(adder_result, *reversed(result))
'''

TEMPLATES['adders.fast_group_adder'] = '''\
def fast_group_adder(wires_to_add, reducer=wallace_reducer, final_adder=kogge_stone):
    import math
    longest_wire_len = max((len(w) for w in wires_to_add))
    result_bitwidth = __h_fga_width__
    bits = [[] for i in range(longest_wire_len)]
    for wire in wires_to_add:
        for bit_loc, bit in enumerate(wire):
            bits[bit_loc].append(bit)
    return reducer(bits, result_bitwidth, final_adder)
'''

TEMPLATES['multipliers.simple_mult'] = '''\
def simple_mult(A, B, start):
    triv_result = _trivial_mult(A, B)
    if triv_result is not None:
        return (triv_result, pyrtl.Const(1, 1))
    alen = len(A)
    blen = len(B)
    areg = pyrtl.Register(alen)
    breg = pyrtl.Register(__h_sm_w__)
    accum = pyrtl.Register(__h_sm_w__)
    done = areg == 0
    with pyrtl.conditional_assignment:
        with start:
            areg.next |= A
            breg.next |= B
            accum.next |= 0
        with ~done:
            areg.next |= areg[1:]
            breg.next |= pyrtl.concat(breg, pyrtl.Const(0, 1))
            a_0_val = areg[0].sign_extended(len(accum))
            accum.next |= accum + (a_0_val & breg)
    return (accum, done)
'''

TEMPLATES['multipliers._trivial_mult'] = '''\
def _trivial_mult(A, B):
    if __h_tm_b1__:
        A, B = (B, A)
    if __h_tm_a1__:
        a_vals = A.sign_extended(len(B))
        return pyrtl.concat_list([a_vals & B, pyrtl.Const(0)])
'''

TEMPLATES['multipliers.complex_mult'] = '''\
def complex_mult(A, B, shifts, start):
    alen = len(A)
    blen = len(B)
    areg = pyrtl.Register(alen)
    breg = pyrtl.Register(__h_cm_w__)
    accum = pyrtl.Register(__h_cm_w__)
    done = areg == 0
    if __h_cm_guard__:
        raise pyrtl.PyrtlError('shift is larger than one or both of the parameters A or B,please choose smaller shift')
    with pyrtl.conditional_assignment:
        with start:
            areg.next |= A
            breg.next |= B
            accum.next |= 0
        with ~done:
            areg.next |= libutils._shifted_reg_next(areg, 'r', shifts)
            breg.next |= libutils._shifted_reg_next(breg, 'l', shifts)
            accum.next |= accum + _one_cycle_mult(areg, breg, shifts)
    return (accum, done)
'''

TEMPLATES['multipliers._one_cycle_mult'] = '''\
def _one_cycle_mult(areg, breg, rem_bits, sum_sf=0, curr_bit=0):
    if __h_oc_done__:
        return sum_sf
    else:
        a_curr_val = areg[curr_bit].sign_extended(len(breg))
        if __h_oc_first__:
            return _one_cycle_mult(areg, breg, __h_oc_dec__, sum_sf + (a_curr_val & breg), __h_oc_inc__)
        else:
            return _one_cycle_mult(areg, breg, __h_oc_dec__, sum_sf + (a_curr_val & pyrtl.concat(breg, pyrtl.Const(0, curr_bit))), __h_oc_inc__)
'''

TEMPLATES['multipliers.tree_multiplier'] = '''\
def tree_multiplier(A, B, reducer=adders.wallace_reducer, adder_func=adders.kogge_stone):
    triv_res = _trivial_mult(A, B)
    if triv_res is not None:
        return triv_res
    bits_length = __h_tree_len__
    bits = [[] for weight in range(bits_length)]
    for i, a in enumerate(A):
        for j, b in enumerate(B):
            bits[__h_tree_idx__].append(__h_tree_pp__)
    return reducer(bits, bits_length, adder_func)
'''

TEMPLATES['multipliers.signed_tree_multiplier'] = '''\
def signed_tree_multiplier(A, B, reducer=adders.wallace_reducer, adder_func=adders.kogge_stone):
    if __h_st_guard__:
        raise pyrtl.PyrtlError('sign bit required, one or both wires too small')
    aneg, bneg = (A[-1], B[-1])
    a = _twos_comp_conditional(A, aneg)
    b = _twos_comp_conditional(B, bneg)
    res = tree_multiplier(a, b).zero_extended(__h_st_len__)
    return _twos_comp_conditional(res, __h_st_sign__)
'''

TEMPLATES['multipliers._twos_comp_conditional'] = '''\
def _twos_comp_conditional(orig_wire, sign_bit, bw=None):
    if bw is None:
        bw = len(orig_wire)
    new_wire = pyrtl.WireVector(bw)
    with pyrtl.conditional_assignment:
        with sign_bit:
            new_wire |= ~orig_wire + 1
        with pyrtl.otherwise:
            new_wire |= orig_wire
    return new_wire
'''

TEMPLATES['multipliers.fused_multiply_adder'] = '''\
def fused_multiply_adder(mult_A, mult_B, add, signed=False, reducer=adders.wallace_reducer, adder_func=adders.kogge_stone):
    return generalized_fma(((mult_A, mult_B),), (add,), signed, reducer, adder_func)
'''

TEMPLATES['multipliers.generalized_fma'] = '''\
def generalized_fma(mult_pairs, add_wires, signed=False, reducer=adders.wallace_reducer, adder_func=adders.kogge_stone):
    if mult_pairs:
        mult_max = max((__h_fma_pairlen__ for m in mult_pairs))
    else:
        mult_max = 0
    if add_wires:
        add_max = max((len(x) for x in add_wires))
    else:
        add_max = 0
    longest_wire_len = max(add_max, mult_max)
    bits = [[] for i in range(longest_wire_len)]
    for mult_a, mult_b in mult_pairs:
        for i, a in enumerate(mult_a):
            for j, b in enumerate(mult_b):
                bits[__h_fma_idx__].append(__h_fma_pp__)
    for wire in add_wires:
        for bit_loc, bit in enumerate(wire):
            bits[bit_loc].append(bit)
    import math
    result_bitwidth = __h_fma_width__
    return reducer(bits, result_bitwidth, adder_func)
'''

TEMPLATES['libutils.match_bitwidth'] = '''\
def match_bitwidth(*args):
    return pyrtl.match_bitwidth(*args)
'''

TEMPLATES['libutils._shifted_reg_next'] = '''\
def _shifted_reg_next(reg, direct, num=1):
    if direct == 'l':
        if __h_sr_over__:
            return 0
        else:
            return pyrtl.concat(reg, pyrtl.Const(0, num))
    elif direct == 'r':
        if __h_sr_over__:
            return 0
        else:
            return reg[num:]
    else:
        raise pyrtl.PyrtlError("direction must be specified with 'direct'parameter as either 'l' or 'r'")
'''
