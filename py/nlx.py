"""NLX: serialise a pyrtl Block as a Coq `netlist` term (Netlist/Syntax.v).

Reads private attributes (block.logic, net.op_param, Register.reset_value,
RomBlock.data) but calls no PyRTL algorithm except Block.__iter__ for the net
order (any topological order is acceptable to the model; the model's `wfb`
re-checks it inside Coq)."""
import pyrtl

OPNAME = {
    'w': 'OpW', '~': 'OpNot', '&': 'OpAnd', '|': 'OpOr', '^': 'OpXor', 'n': 'OpNand',
    '+': 'OpAdd', '-': 'OpSub', '*': 'OpMul', '<': 'OpLt', '>': 'OpGt', '=': 'OpEq',
    'x': 'OpMux', 'c': 'OpConcat', 'r': 'OpReg',
}


def zlit(v):
    v = int(v)          # a Python bool is a legal value (True == 1)
    return str(v) if v >= 0 else '(%d)' % v


def zlist(vs):
    return '[' + '; '.join(zlit(v) for v in vs) + ']'


def pairs(d):
    return '[' + '; '.join('(%s, %s)' % (zlit(k), zlit(v)) for k, v in d) + ']'


def rom_table(m):
    """ROM contents read straight from romdata (list / dict / function), NOT through
    RomBlock._get_read_data (which is code under test): missing entries are 0 when
    pad_with_zeros, else left out."""
    tab = []
    d = m.data
    for a in range(1 << m.addrwidth):
        try:
            if callable(d):
                v = d(a)
            else:
                v = d[a]
        except (KeyError, IndexError):
            if getattr(m, 'pad_with_zeros', False):
                v = 0
            else:
                continue
        tab.append((a, int(v)))
    return tab


class Dump(object):
    """wire ids by sorted name; nets in block iteration order"""

    def __init__(self, block, net_order=None):
        self.block = block
        self.wires = sorted(block.wirevector_set, key=lambda w: w.name)
        self.wid = {w: i + 1 for i, w in enumerate(self.wires)}
        self.nets = list(net_order) if net_order is not None else list(block)
        self.mems = {}
        for n in self.nets:
            if n.op in 'm@':
                self.mems[n.op_param[0]] = n.op_param[1]

    def kind(self, w):
        if isinstance(w, pyrtl.Input):
            return 'KInput'
        if isinstance(w, pyrtl.Output):
            return 'KOutput'
        if isinstance(w, pyrtl.Const):
            return '(KConst %s)' % zlit(w.val)
        if isinstance(w, pyrtl.Register):
            rv = w.reset_value
            return '(KReg %s)' % ('None' if rv is None else '(Some %s)' % zlit(rv))
        return 'KWire'

    def net(self, n):
        if n.op == 's':
            op = '(OpSelect %s)' % zlist(n.op_param)
        elif n.op == 'm':
            op = '(OpMemRd %d)' % n.op_param[0]
        elif n.op == '@':
            op = '(OpMemWr %d)' % n.op_param[0]
        else:
            op = OPNAME[n.op]
        dest = self.wid[n.dests[0]] if n.dests else 0
        return 'mkNet %s %s %d' % (op, zlist([self.wid[a] for a in n.args]), dest)

    def mem(self, memid, m):
        if isinstance(m, pyrtl.RomBlock):
            rom = '(Some %s)' % pairs(rom_table(m))
        else:
            rom = 'None'
        return 'mkMem %d %d %d %s' % (memid, m.addrwidth, m.bitwidth, rom)

    def coq(self):
        ws = '; '.join('mkWire %d %d %s' % (self.wid[w], w.bitwidth, self.kind(w))
                       for w in self.wires)
        ns = '; '.join(self.net(n) for n in self.nets)
        ms = '; '.join(self.mem(i, m) for i, m in sorted(self.mems.items()))
        return '(mkNetlist [%s] [%s] [%s])' % (ws, ns, ms)

    def names(self):
        return [w.name for w in self.wires]

    def regmap(self, regmap):
        return pairs(sorted((self.wid[r], v) for r, v in regmap.items()))

    def memmap(self, memmap):
        return '[' + '; '.join('(%d, %s)' % (m.id, pairs(sorted(d.items())))
                               for m, d in sorted(memmap.items(), key=lambda kv: kv[0].id)) + ']'

    def inputs(self, seq):
        byname = self.block.wirevector_by_name
        return '[' + '; '.join(
            pairs(sorted((self.wid[byname[nm]], v) for nm, v in step.items()))
            for step in seq) + ']'
