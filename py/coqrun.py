"""Evaluate Gallina expressions inside Coq (vm_compute) and parse the results.

eval_exprs(exprs, imports, workdir, tag) -> list of Python values (nested lists of ints)
Each expression must have a type printed as nested lists/tuples of Z / bool."""
import ast
import os
import re
import subprocess
import concurrent.futures

COQ_DIR = os.path.join(os.path.dirname(os.path.dirname(os.path.abspath(__file__))), 'coq')


class CoqError(Exception):
    pass


def parse_value(txt):
    txt = txt.replace('%Z', '').replace('%nat', '').replace('%positive', '')
    txt = txt.replace(';', ',').replace('\n', ' ')
    txt = re.sub(r'\btrue\b', 'True', txt)
    txt = re.sub(r'\bfalse\b', 'False', txt)
    txt = re.sub(r'\bSome\b', '', txt)
    txt = re.sub(r'\bNone\b', 'None', txt)
    return ast.literal_eval(txt.strip())


def split_outputs(out):
    """coqc prints '     = value\n     : type' per Eval"""
    vals = []
    cur = None
    for line in out.split('\n'):
        if line.startswith('     = '):
            if cur is not None:
                vals.append('\n'.join(cur))
            cur = [line[7:]]
        elif line.startswith('     : ') and cur is not None:
            vals.append('\n'.join(cur))
            cur = None
        elif cur is not None:
            cur.append(line)
    if cur is not None:
        vals.append('\n'.join(cur))
    return vals


class CoqTimeout(CoqError):
    pass


def run_file(path, timeout=600):
    cmd = ['coqc', '-Q', os.path.join(COQ_DIR, 'theories'), 'PyRTL', path]
    try:
        p = subprocess.run(['timeout', str(timeout)] + cmd, capture_output=True, text=True,
                           cwd=os.path.dirname(path))
    except Exception as e:  # pragma: no cover
        raise CoqError(str(e))
    if p.returncode in (124, 137, -9):
        raise CoqTimeout('coqc exceeded %ss on %s' % (timeout, path))
    if p.returncode != 0:
        raise CoqError('coqc failed on %s:\n%s\n%s' % (path, p.stdout[-2000:], p.stderr[-4000:]))
    return p.stdout


def _cleanup(path):
    for ext in ('.v', '.vo', '.vok', '.vos', '.glob'):
        try:
            os.remove(path[:-2] + ext)
        except OSError:
            pass
    try:
        os.remove(os.path.join(os.path.dirname(path), '.' + os.path.basename(path)[:-2] + '.aux'))
    except OSError:
        pass


def eval_shard(exprs, imports, workdir, name, timeout):
    """one coqc run over the expressions; a run that exceeds the time limit (a loaded machine, one unusually
    heavy case) is split in two and retried, down to single expressions, instead of failing the whole check"""
    path = os.path.join(workdir, name + '.v')
    with open(path, 'w') as f:
        f.write(imports + '\n')
        for e in exprs:
            f.write('Eval vm_compute in (%s).\n' % e)
    try:
        out = run_file(path, timeout)
    except CoqTimeout:
        _cleanup(path)
        if len(exprs) <= 1:
            raise
        h = len(exprs) // 2
        return (eval_shard(exprs[:h], imports, workdir, name + 'a', timeout)
                + eval_shard(exprs[h:], imports, workdir, name + 'b', timeout))
    vals = split_outputs(out)
    if len(vals) != len(exprs):
        raise CoqError('expected %d results from %s, got %d' % (len(exprs), path, len(vals)))
    res = [parse_value(v) for v in vals]
    _cleanup(path)
    return res


def eval_exprs(exprs, imports, workdir, tag, shard=60, jobs=8, timeout=900):
    os.makedirs(workdir, exist_ok=True)
    chunks = [(exprs[k:k + shard], '%s_%d' % (tag, k // shard)) for k in range(0, len(exprs), shard)]
    with concurrent.futures.ThreadPoolExecutor(max_workers=jobs) as ex:
        outs = list(ex.map(lambda cn: eval_shard(cn[0], imports, workdir, cn[1], timeout), chunks))
    results = []
    for o in outs:
        results.extend(o)
    return results
