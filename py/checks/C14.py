"""C14: multiplexing and bit-manipulation helpers select exactly the documented bits.

Every helper configuration is built with the real PyRTL API (many configurations
share one block and one pool of Input wires), simulated with pyrtl.Simulation on
ALL values of the pool, and the complete output table is compared with
  (a) the Coq model (Front/Mux.v, Bitfield.v, Pattern.v, Struct.v, BarrelC14.v,
      SliceC14.v) evaluated through Front/C14Harness.v       -> tie
  (b) a plain-Python oracle written from the documentation   -> search.
"""
import concurrent.futures
import contextlib
import enum
import io
import itertools
import json
import multiprocessing
import random
import time
import warnings

import pyrtl
from pyrtl.rtllib import muxes, barrel, libutils

RULE = ('[bitfield_update(_set) new values: wires of every width relation and Python ints of every kind (negative / zero / positive x fits / too wide) x truncating True/False, simulated] [match_bitpattern field_map: every order of the map keys, extra keys, a missing key; fields read positionally AND by mapped name] [slice model: proved = CPython slice.indices = the declarative Python slice for all lengths/bounds (Props/C14Slice.v); still compared with list(range(n))[s:e] for n<=9 on every run] [calling forms: every fixed-signature helper is called positionally, by keywords (both orders) and mixed, '
        'round-robin; mux also in its deprecated truecase=/falsecase= keyword form and its keyword misuses] '
        '[bitfield_update_set: EVERY ordered pair of distinct (start,end) keys over {None,-n-1..n+1} for n<=3 (4 in '
        'thorough), ordered triples / wider wires with one alias per bit interval; overlap decided on bit sets] '
        '[cross family: every helper also applied to wire_struct/wire_matrix instances and components, compared '
        'with the helper on the equivalent plain wire] configurations of mux/select/enum_mux/sparse_mux/prioritized_mux/MultiSelector/demux/'
        'barrel_shifter/bitfield_update(_set)/match_bitpattern/chop/partition_wire/wire_struct/'
        'wire_matrix (select widths 1-4, input counts incl. non powers of two, default present/absent, '
        'slice bounds from {None,-n-1..n+1}, patterns over {0,1,?,a,b,_,space} up to length 8, schemas '
        'nested to depth 3); each configuration is simulated on EVERY value of its input pool '
        '(total width <= 12) and the whole table compared; a case is distinct by (family, parameters) '
        'and non-trivial when it raises or at least one output takes two different values')
IMPORTS = ('From Coq Require Import ZArith List Ascii String.\n'
           'From PyRTL Require Import Front.SliceC14 Front.Mux Front.Struct Front.C14Harness.\n'
           'Import ListNotations. Open Scope Z_scope. Open Scope string_scope.')
COQ_TARGETS = ['theories/Front/C14Harness.vo']
PROPS_FILES = ['theories/Props/C14.v', 'theories/Props/C14Tie.v', 'theories/Props/C14Slice.v']
TRUSTED = ['py/genfrag_C14.py: fragment locator + pyfrag expression translator (Gen/MuxRules.v); py/genfrag_C16.py for '
           'Gen/Conv.v convert_int (used by C14_int_newvalue_tie)',
           'py/checks/C14.py oracles: plain-Python bit-level reading of the docstrings of the helpers',
           'Front/PySliceProofs.v is_slice_of: the declarative statement of Python slicing from the language reference '
           '(shared with C06).  Front/SliceC14.v pyslice is NO LONGER trusted: Props/C14Slice.v proves, for every length '
           'and all bounds, that it equals C06\'s transcription of CPython slice.indices and is the unique list '
           'satisfying is_slice_of; the run-time comparison with list(range(n))[s:e] (n <= 9, bounds {None,-n-2..n+2}) '
           'now checks that shared statement against Python itself']
ASSUMPTIONS = ['bit_in, direction and every prioritized_mux select are 1-bit wires',
               'segment widths, partition sizes, component bitwidths and matrix sizes are positive',
               'pattern characters are ASCII; field letters are valid Python identifiers',
               'MultiSelector.default is called at most once; dictionary keys are ints or "default"',
               'MultiSelector option values are non-negative ints (bitfield_update(_set) int new values: any sign)',
               'wire identity in sparse_mux (_is_equivalent) is modelled by tags supplied by the harness',
               'wire_struct/wire_matrix components are driven by ints, WireVectors of any width (<<= truncates '
               'or zero-extends) or slices; Input/Register component types are not exercised']


# ------------------------------------------------------------------ sources
def minw(v):
    return max(1, v.bit_length())


def s_coq(s, dw=None):
    if s[0] == 'W':
        return '(SW %d)' % s[1]
    if s[0] == 'C':
        return '(SC %d %d)' % (s[1], s[2])
    if s[0] == 'I':
        return '(SC %d %d)' % (minw(s[1]) if dw is None else dw, s[1])
    if s[0] == 'S':
        return '(SS %d %d %d)' % (s[1], s[2], s[3])
    if s[0] == 'P':       # component `path` of the instance of schema built from pool wire 0
        return '(SP %s (SW 0) %s)' % (sch_coq(s[1]), nats(s[2]))
    if s[0] == 'MSB':
        return '(SMsb %s)' % s_coq(s[1])
    raise ValueError(s)


def s_build(P, s):
    if s[0] == 'W':
        return P[s[1]]
    if s[0] == 'C':
        return pyrtl.Const(s[2], bitwidth=s[1])
    if s[0] == 'I':
        return s[1]
    if s[0] == 'S':
        return P[s[1]][s[2]:s[3]]
    raise ValueError(s)


def s_val(ws, env, s):
    """(bitwidth, value) of a source under an assignment of the pool"""
    if s[0] == 'W':
        return ws[s[1]], env[s[1]]
    if s[0] == 'C':
        return s[1], s[2]
    if s[0] == 'I':
        return minw(s[1]), s[1]
    if s[0] == 'S':
        return s[3] - s[2], (env[s[1]] >> s[2]) & ((1 << (s[3] - s[2])) - 1)
    raise ValueError(s)


def s_tag(s):
    if s[0] == 'W':
        return 'Some %d' % s[1]
    if s[0] == 'C':
        return 'Some %d' % (1000 + s[2] * 64 + s[1])
    if s[0] == 'I':
        return 'Some %d' % (500000 + s[1])
    return 'None'


def ts_coq(s, dw=None):
    if s[0] == 'I' and dw is not None:      # as_wires(int, bitwidth) -> Const(v, bitwidth)
        return '(Some %d, (SC %d %d))' % (1000 + s[1] * 64 + dw, dw, s[1])
    return '(%s, %s)' % (s_tag(s), s_coq(s))


def oz(b):
    return 'None' if b is None else '(Some (%d))' % b


def lst(items):
    return '[' + '; '.join(items) + ']'


def nats(ws):
    return '[' + '; '.join(str(w) for w in ws) + ']%nat'


def opt(x):
    return 'None' if x is None else '(Some %s)' % x


def bl(b):
    return 'true' if b else 'false'


ERR = 'ERR'     # the documentation says this use is an error: the helper must raise
ERRU = 'ERRU'   # the code is expected to raise, the documentation is silent (checked against the model only)
ANY = None      # value left open by the documentation


# ------------------------------------------------------------------ families
# Each family: build(cfg, P) -> list of wires; coq(cfg) -> expr; oracle(cfg, ws, env) -> ERR | [value|ANY]
# oracle values are (value) only; widths are checked against the model.

# ---- calling forms: every helper is called in every form its signature accepts
FORMS = ('pos', 'kw', 'kw_rev', 'mixed', 'mixed2')


def call(fn, form, args, **extra):
    """args = [(parameter name, value), ...] in signature order; `form` decides which are passed by keyword"""
    vals = [v for _, v in args]
    if form == 'kw':
        return fn(**dict(args), **extra)
    if form == 'kw_rev':
        return fn(**dict(reversed(args)), **extra)
    if form == 'mixed':                       # first argument positional, the others by keyword
        return fn(vals[0], **dict(args[1:]), **extra)
    if form == 'mixed2':                      # all but the last positional
        return fn(*vals[:-1], **dict(args[-1:]), **extra)
    return fn(*vals, **extra)


def form_of(c):
    return c.get('form', 'pos')


# ---- select
def b_select(c, P):
    return [call(pyrtl.select, form_of(c), [('sel', s_build(P, c['s'])), ('truecase', s_build(P, c['t'])),
                                            ('falsecase', s_build(P, c['f']))])]


def q_select(c):
    return 't_select %s %s %s %s' % (nats(c['ws']), s_coq(c['s']), s_coq(c['t']), s_coq(c['f']))


def o_select(c, ws, env):
    s = s_val(ws, env, c['s'])[1]
    return [s_val(ws, env, c['t'])[1] if s else s_val(ws, env, c['f'])[1]]


# ---- mux
def b_mux(c, P):
    ins = [s_build(P, s) for s in c['ins']]
    idx = s_build(P, c['idx'])
    form = form_of(c)
    if form in ('kwcase', 'kwcase_rev'):
        # the deprecated but accepted predicate form: ins = [falsecase, truecase] (the index == 0 case first)
        kw = [('truecase', ins[1]), ('falsecase', ins[0])]
        return [pyrtl.mux(idx, **dict(kw if form == 'kwcase' else reversed(kw)))]
    if form == 'kwcase_one':                  # only one of the two cases
        return [pyrtl.mux(idx, truecase=ins[1])]
    if form == 'kw_unknown':                  # "only default is allowed as kwarg"
        return [pyrtl.mux(idx, *ins, default=s_build(P, c['dflt']), foo=1)]
    if form == 'kw_index':
        kw = {} if c['dflt'] is None else {'default': s_build(P, c['dflt'])}
        return [pyrtl.mux(*ins, index=idx, **kw)]       # binds ins[0] to `index` as well -> TypeError
    if c['dflt'] is None:
        return [pyrtl.mux(idx, *ins)]
    return [pyrtl.mux(idx, *ins, default=s_build(P, c['dflt']))]


def q_mux(c):
    if form_of(c) in ('kwcase', 'kwcase_rev'):      # documented as select(index, truecase, falsecase)
        return 't_select %s %s %s %s' % (nats(c['ws']), s_coq(c['idx']), s_coq(c['ins'][1]), s_coq(c['ins'][0]))
    if form_of(c) in ('kwcase_one', 'kw_unknown', 'kw_index'):
        return 't_mux %s %s [] None' % (nats(c['ws']), s_coq(c['idx']))      # raises
    return 't_mux %s %s %s %s' % (nats(c['ws']), s_coq(c['idx']), lst(s_coq(s) for s in c['ins']),
                                  opt(s_coq(c['dflt'])) if c['dflt'] else 'None')


def o_mux(c, ws, env):
    k, i = s_val(ws, env, c['idx'])
    n = len(c['ins'])
    if form_of(c) in ('kwcase_one', 'kw_unknown', 'kw_index'):
        return ERRU
    if form_of(c) in ('kwcase', 'kwcase_rev'):       # truecase when the predicate is 1, falsecase when it is 0
        return [s_val(ws, env, c['ins'][1])[1] if i else s_val(ws, env, c['ins'][0])[1]]
    if n > (1 << k):
        return ERRU
    if n < (1 << k) and c['dflt'] is None:
        return ERR                              # "you need to specify a value for those other" indices
    if i < n:
        return [s_val(ws, env, c['ins'][i])[1]]
    return [s_val(ws, env, c['dflt'])[1]]       # a default only beyond the list


# ---- prioritized_mux
def b_pmux(c, P):
    return [call(muxes.prioritized_mux, form_of(c), [('selects', [s_build(P, s) for s in c['sels']]),
                                                     ('vals', [s_build(P, s) for s in c['vals']])])]


def q_pmux(c):
    return 't_pmux %s %s %s' % (nats(c['ws']), lst(s_coq(s) for s in c['sels']), lst(s_coq(s) for s in c['vals']))


def o_pmux(c, ws, env):
    if len(c['sels']) != len(c['vals']) or not c['vals']:
        return ERRU
    for s, v in zip(c['sels'], c['vals']):
        if s_val(ws, env, s)[1]:
            return [s_val(ws, env, v)[1]]       # first wire whose select bit is 1
    return [s_val(ws, env, c['vals'][-1])[1]]   # none high: the last val


# ---- sparse_mux
def b_sparse(c, P):
    vals = {k: s_build(P, s) for k, s in c['vals']}
    if c['dflt'] is not None:
        vals['default'] = s_build(P, c['dflt'])
    return [call(muxes.sparse_mux, form_of(c), [('sel', s_build(P, c['sel'])),
                                                ('vals', dict(vals))])]      # sparse_mux mutates its argument
    # (it replaces the 'default' entry by one entry per unlisted index: the same function, so a reused dict is fine)


def q_sparse(c):
    return 't_sparse %s %s %s %s' % (
        nats(c['ws']), s_coq(c['sel']), lst('(%d, %s)' % (k, ts_coq(s)) for k, s in c['vals']),
        opt(ts_coq(c['dflt'])) if c['dflt'] else 'None')


def o_sparse(c, ws, env):
    k, i = s_val(ws, env, c['sel'])
    d = dict(c['vals'])
    if any(key < 0 or key >= (1 << k) for key in d):
        return ERRU
    if not d and c['dflt'] is None:
        return ERRU
    if i in d:
        return [s_val(ws, env, d[i])[1]]
    if c['dflt'] is not None:
        return [s_val(ws, env, c['dflt'])[1]]
    return [ANY]                                # unlisted without default: don't care


# ---- enum_mux
def b_enum(c, P):
    E = enum.IntEnum('E', {'M%d' % v: v for v in c['members']})
    table = {}
    for k, s in c['table']:
        table[pyrtl.otherwise if k is None else E(k)] = s_build(P, s)
    d = None if c['dflt'] is None else s_build(P, c['dflt'])
    args = [('cntrl', s_build(P, c['cntrl'])), ('table', table), ('default', d), ('strict', c['strict'])]
    if c.get('reuse'):
        # a design-wide table: the SAME dict object serves a first mux, the mux under test is the second one built
        # from it (the documented result depends on the table's contents, not on how often it has been used)
        call(pyrtl.enum_mux, form_of(c), args)
    return [call(pyrtl.enum_mux, form_of(c), args)]


def q_enum(c):
    return 't_enum %s %s %s %s %s %s' % (
        nats(c['ws']), s_coq(c['cntrl']), lst(str(m) for m in c['members']),
        lst('(%s, %s)' % (oz(k), ts_coq(s)) for k, s in c['table']),
        opt(ts_coq(c['dflt'])) if c['dflt'] else 'None', bl(c['strict']))


def o_enum(c, ws, env):
    k, i = s_val(ws, env, c['cntrl'])
    tab = {kk: s for kk, s in c['table'] if kk is not None}
    ow = [s for kk, s in c['table'] if kk is None]
    if ow and c['dflt'] is not None:
        return ERR
    d = ow[0] if ow else c['dflt']
    if not tab:
        return ERRU
    if c['strict'] and d is None and any(m not in tab for m in c['members']):
        return ERR
    if any(key >= (1 << k) for key in tab):
        return ERRU
    if i in tab:
        return [s_val(ws, env, tab[i])[1]]
    if d is not None:
        return [s_val(ws, env, d)[1]]
    return [ANY]


# ---- MultiSelector
def b_multi(c, P):
    dests = [pyrtl.WireVector(w) for w in c['dws']]

    def fill(ms):
        for k, data in c['opts']:
            if k is None:
                ms.default(*[s_build(P, s) for s in data])
            else:
                ms.option(k, *[s_build(P, s) for s in data])
    if form_of(c) in ('kw_rev', 'mixed2'):           # without the `with` statement: explicit finalize()
        ms = muxes.MultiSelector(s_build(P, c['sel']), *dests)
        fill(ms)
        ms.finalize()
        return dests
    with contextlib.redirect_stdout(io.StringIO()), muxes.MultiSelector(s_build(P, c['sel']), *dests) as ms:
        fill(ms)
    return dests


def q_multi(c):
    opts = []
    for k, data in c['opts']:
        opts.append('(%s, %s)' % (oz(k), lst(ts_coq(s, dw) for s, dw in zip(data, c['dws']))))
    return 't_multi %s %s %s %s' % (nats(c['ws']), s_coq(c['sel']), nats(c['dws']), lst(opts))


def o_multi(c, ws, env):
    k, i = s_val(ws, env, c['sel'])
    keys = [kk for kk, _ in c['opts'] if kk is not None]
    if len(set(keys)) != len(keys) or any(kk >= (1 << k) for kk in keys):
        return ERRU
    row = None
    for kk, data in c['opts']:
        if kk == i:
            row = data
    if row is None:
        for kk, data in c['opts']:
            if kk is None:
                row = data
    if row is None:
        return [ANY] * len(c['dws'])
    return [s_val(ws, env, s)[1] & ((1 << dw) - 1) for s, dw in zip(row, c['dws'])]


# ---- demux
def b_demux(c, P):
    return list(call(muxes.demux, form_of(c), [('select', s_build(P, c['sel']))]))


def q_demux(c):
    return 't_demux %s %s' % (nats(c['ws']), s_coq(c['sel']))


def o_demux(c, ws, env):
    k, i = s_val(ws, env, c['sel'])
    return [1 if j == i else 0 for j in range(1 << k)]


# ---- barrel_shifter
def b_barrel(c, P):
    extra = {'wrap_around': c['wrap']} if 'wrap' in c else {}
    return [call(barrel.barrel_shifter, form_of(c), [('bits_to_shift', s_build(P, c['x'])),
                                                     ('bit_in', s_build(P, c['bit_in'])),
                                                     ('direction', s_build(P, c['dir'])),
                                                     ('shift_dist', s_build(P, c['sd']))], **extra)]


def q_raises(c):
    return 't_chop %s (SW 0) []%%nat' % nats(c['ws'])       # a model expression that is None (= raises)


def q_barrel(c):
    if c.get('wrap'):
        return q_raises(c)
    return 't_barrel %s %s %s %s %s' % (nats(c['ws']), s_coq(c['x']), s_coq(c['bit_in']), s_coq(c['dir']),
                                        s_coq(c['sd']))


def o_barrel(c, ws, env):
    if c.get('wrap'):
        return ERR                               # wrap_around: "currently not implemented"
    n, x = s_val(ws, env, c['x'])
    b = s_val(ws, env, c['bit_in'])[1]
    d = s_val(ws, env, c['dir'])[1]
    s = s_val(ws, env, c['sd'])[1]
    bits = [(x >> i) & 1 for i in range(n)]
    out = []
    for j in range(n):
        src = j - s if d else j + s              # 1 = shift up (towards the msb)
        out.append(bits[src] if 0 <= src < n else b)
    return [sum(bit << j for j, bit in enumerate(out))]


# ---- bitfield_update
def py_indices(n, s, e):
    return list(range(n))[s:e]


def b_bfu(c, P):
    return [call(pyrtl.bitfield_update, form_of(c), [('w', s_build(P, c['w'])), ('range_start', c['s']),
                                                     ('range_end', c['e']), ('newvalue', s_build(P, c['nv'])),
                                                     ('truncating', c['tr'])])]


def q_bfu(c):
    if c['nv'][0] == 'I':
        return 't_bfui %s %s %s %s (%d) %s' % (nats(c['ws']), s_coq(c['w']), oz(c['s']), oz(c['e']), c['nv'][1],
                                               bl(c['tr']))
    return 't_bfu %s %s %s %s %s %s' % (nats(c['ws']), s_coq(c['w']), oz(c['s']), oz(c['e']), s_coq(c['nv']),
                                        bl(c['tr']))


def o_bfu(c, ws, env):
    n, x = s_val(ws, env, c['w'])
    idx = py_indices(n, c['s'], c['e'])
    if not idx:
        return ERRU
    v = field_value(ws, env, c['nv'], len(idx), c['tr'])
    if v is ERR:
        return ERR
    bits = [(x >> i) & 1 for i in range(n)]
    for j, i in enumerate(idx):
        bits[i] = (v >> j) & 1
    return [sum(bit << j for j, bit in enumerate(bits))]


def field_value(ws, env, nv, m, tr):
    """what a new value writes into a field of m bits: a wire is zero-extended, or clipped when truncating;
    a Python int of either sign is stored in two's complement AT THE FIELD WIDTH (sign-filled), clipped when
    truncating; a value that does not fit raises unless truncating"""
    mask = (1 << m) - 1
    if nv[0] == 'I':
        v = nv[1]
        fits = (v < (1 << m)) if v >= 0 else (v >= -(1 << (m - 1)))
        if not fits and not tr:
            return ERR
        return v & mask
    wd, v = s_val(ws, env, nv)
    if wd > m and not tr:
        return ERR
    return v & mask


# ---- bitfield_update_set
def b_bfus(c, P):
    ups = {(s, e): s_build(P, nv) for (s, e, nv) in c['ups']}        # dict order = the order in c['ups']
    return [call(pyrtl.bitfield_update_set, form_of(c), [('w', s_build(P, c['w'])), ('update_set', ups),
                                                         ('truncating', c['tr'])])]


def vs_coq(nv):
    return '(VI (%d))' % nv[1] if nv[0] == 'I' else '(VS %s)' % s_coq(nv)


def q_bfus(c):
    return 't_bfus %s %s %s %s' % (
        nats(c['ws']), s_coq(c['w']),
        lst('((%s, %s), %s)' % (oz(s), oz(e), vs_coq(nv)) for (s, e, nv) in c['ups']), bl(c['tr']))


def o_bfus(c, ws, env):
    n, x = s_val(ws, env, c['w'])
    bits = [(x >> i) & 1 for i in range(n)]
    taken = set()
    for (s, e, nv) in c['ups']:
        idx = py_indices(n, s, e)
        if not idx:
            return ERRU
        if taken & set(idx):
            return ERR                           # only non-overlapping fields may be updated together
        taken |= set(idx)
        v = field_value(ws, env, nv, len(idx), c['tr'])
        if v is ERR:
            return ERR
        for j, i in enumerate(idx):
            bits[i] = (v >> j) & 1
    return [sum(bit << j for j, bit in enumerate(bits))]


# ---- match_bitpattern
def b_mbp(c, P):
    m, fields = call(pyrtl.match_bitpattern, form_of(c), [('w', s_build(P, c['w'])), ('bitpattern', c['pat']),
                                                          ('field_map', c.get('fmap'))])
    out = [m] + list(fields)                      # positional use: m, (a, b) = match_bitpattern(...)
    if c.get('byname'):                           # and by (mapped) name, in the order the letters appear
        fmap = c.get('fmap') or {}
        out += [getattr(fields, fmap.get(ch, ch)) for ch in names_mbp(c)]
    return out


def q_mbp(c):
    if c.get('fmap') is not None:
        return 't_mbp_fm %s %s "%s"%%string %s' % (nats(c['ws']), s_coq(c['w']), c['pat'],
                                                  lst('"%s"%%char' % k for k in c['fmap']))
    return 't_mbp %s %s "%s"%%string' % (nats(c['ws']), s_coq(c['w']), c['pat'])


def o_mbp(c, ws, env):
    n, x = s_val(ws, env, c['w'])
    pat = [ch for ch in c['pat'] if ch != '_' and not ch.isspace()]
    if len(pat) != n:
        return ERR
    msb = [(x >> (n - 1 - i)) & 1 for i in range(n)]      # read the wire left to right like the string
    matched = all(int(ch) == b for ch, b in zip(pat, msb) if ch in '01')
    names = []
    for ch in pat:
        if ch not in '01?' and ch not in names:
            names.append(ch)
    if c.get('fmap') is not None and any(nm not in c['fmap'] for nm in names):
        return ERR                                        # "all non-1/0/? characters must be present in the map"
    out = [1 if matched else 0]
    for nm in names:                                      # fields in the order the letters first appear
        v = 0
        for ch, b in zip(pat, msb):
            if ch == nm:
                v = (v << 1) | b                          # concatenated left to right
        out.append(v)
    if c.get('byname'):
        out += out[1:]
    return out


def names_mbp(c):
    pat = [ch for ch in c['pat'] if ch != '_' and not ch.isspace()]
    names = []
    for ch in pat:
        if ch not in '01?' and ch not in names:
            names.append(ch)
    return names


# ---- chop / partition_wire
def b_chop(c, P):
    return pyrtl.chop(s_build(P, c['w']), *c['widths'])


def q_chop(c):
    return 't_chop %s %s %s' % (nats(c['ws']), s_coq(c['w']), nats(c['widths']))


def o_chop(c, ws, env):
    n, x = s_val(ws, env, c['w'])
    if sum(c['widths']) != n:
        return ERR
    if any(wd <= 0 for wd in c['widths']):
        return ERRU
    out = []
    pos = n
    for wd in c['widths']:                       # leftmost segment = most significant bits
        pos -= wd
        out.append((x >> pos) & ((1 << wd) - 1))
    return out


def b_part(c, P):
    return call(libutils.partition_wire, form_of(c), [('wire', s_build(P, c['w'])), ('partition_size', c['size'])])


def q_part(c):
    return 't_part %s %s %d' % (nats(c['ws']), s_coq(c['w']), c['size'])


def o_part(c, ws, env):
    n, x = s_val(ws, env, c['w'])
    if n % c['size']:
        return ERR
    return [(x >> off) & ((1 << c['size']) - 1) for off in range(0, n, c['size'])]


# ---- wire_struct / wire_matrix
_uid = [0]


def sch_bw(s):
    if s[0] == 'L':
        return s[1]
    if s[0] == 'S':
        return sum(sch_bw(c) for c in s[1])
    return sch_bw(s[1]) * s[2]


def sch_kids(s):
    if s[0] == 'S':
        return list(s[1])
    if s[0] == 'M':
        return [s[1]] * s[2]
    return []


def sch_cls(s):
    if s[0] == 'L':
        return s[1]
    if s[0] == 'S':
        _uid[0] += 1
        ann = {'f%d' % i: sch_cls(c) for i, c in enumerate(s[1])}
        return pyrtl.wire_struct(type('T%d' % _uid[0], (), {'__annotations__': ann}))
    return pyrtl.wire_matrix(sch_cls(s[1]), s[2])


def sch_flat(inst, s):
    out = [pyrtl.as_wires(inst)]
    if s[0] == 'S':
        for i, c in enumerate(s[1]):
            out += sch_flat(getattr(inst, 'f%d' % i), c)
    elif s[0] == 'M':
        for i in range(s[2]):
            out += sch_flat(inst[i], s[1])
    return out


def sch_coq(s):
    if s[0] == 'L':
        return '(SLeaf %d)' % s[1]
    if s[0] == 'S':
        return '(SStruct %s)' % lst(sch_coq(c) for c in s[1])
    return '(SMatrix %s %d)' % (sch_coq(s[1]), s[2])


def sch_ranges(s, lo):
    """pre-order (lo, width) of every node; first component most significant"""
    out = [(lo, sch_bw(s))]
    pos = lo + sch_bw(s)
    for c in sch_kids(s):
        pos -= sch_bw(c)
        out += sch_ranges(c, pos)
    return out


def b_sslice(c, P):
    cls = sch_cls(c['sch'])
    v = s_build(P, c['v'])
    if c['sch'][0] == 'S':
        inst = cls(**{cls._class_name: v})
    elif form_of(c) in ('pos', 'mixed2'):        # wire_matrix(name, block, concatenated_type, component_type, values)
        inst = cls('', None, pyrtl.WireVector, pyrtl.WireVector, [v])
    else:
        inst = cls(values=[v])
    return sch_flat(inst, c['sch'])


def q_sslice(c):
    return 't_sslice %s %s %s' % (nats(c['ws']), sch_coq(c['sch']), s_coq(c['v'], sch_bw(c['sch'])))


def o_sslice(c, ws, env):
    x = s_val(ws, env, c['v'])[1]
    return [(x >> lo) & ((1 << wd) - 1) for lo, wd in sch_ranges(c['sch'], 0)]


def b_sconcat(c, P):
    cls = sch_cls(c['sch'])
    vals = [s_build(P, s) for s in c['vals']]
    if c['sch'][0] == 'S':
        inst = cls(**{'f%d' % i: v for i, v in enumerate(vals)})
    else:
        inst = cls(values=vals)
    return sch_flat(inst, c['sch'])


def q_sconcat(c):
    kids = sch_kids(c['sch'])
    return 't_sconcat %s %s %s' % (nats(c['ws']), sch_coq(c['sch']),
                                   lst(s_coq(s, sch_bw(k)) for s, k in zip(c['vals'], kids)))


def o_sconcat(c, ws, env):
    kids = sch_kids(c['sch'])
    if len(kids) != len(c['vals']):
        return ERRU
    x = 0
    for s, k in zip(c['vals'], kids):            # first component most significant
        x = (x << sch_bw(k)) | (s_val(ws, env, s)[1] & ((1 << sch_bw(k)) - 1))
    return [(x >> lo) & ((1 << wd) - 1) for lo, wd in sch_ranges(c['sch'], 0)]


# ---- WrappedWireVector forwarding (implementation-only family: wrapped == bare)
WRAP_OPS = ['and', 'or', 'xor', 'add', 'sub', 'mul', 'lt', 'le', 'eq', 'ne', 'gt', 'ge', 'inv', 'slice',
            'rand', 'radd', 'rsub', 'index', 'len', 'bitmask']


def wrap_apply(op, a, b):
    if op == 'and':
        return a & b
    if op == 'or':
        return a | b
    if op == 'xor':
        return a ^ b
    if op == 'add':
        return a + b
    if op == 'sub':
        return a - b
    if op == 'mul':
        return a * b
    if op == 'lt':
        return a < b
    if op == 'le':
        return a <= b
    if op == 'eq':
        return a == b
    if op == 'ne':
        return a != b
    if op == 'gt':
        return a > b
    if op == 'ge':
        return a >= b
    if op == 'inv':
        return ~a
    if op == 'slice':
        return a[1:]
    if op == 'index':
        return a[-1]
    if op == 'rand':
        return 5 & a
    if op == 'radd':
        return 3 + a
    if op == 'rsub':
        return 7 - a
    if op == 'len':
        return pyrtl.Const(a.bitwidth, bitwidth=8)
    if op == 'bitmask':
        return pyrtl.Const(a.bitmask, bitwidth=16)
    raise ValueError(op)


def b_wrap(c, P):
    cls = sch_cls(c['sch'])
    a, b = P[0], P[1]
    inst = cls(**{cls._class_name: a}) if c['sch'][0] == 'S' else cls(values=[a])
    return ([wrap_apply(c['op'], inst, b)], [wrap_apply(c['op'], a, b)])


def o_wrap(c, ws, env):
    return [ANY, ANY]


# ---- cross family: every bit-manipulation helper applied to a wire_struct / wire_matrix instance
# (WrappedWireVector; len() of an instance is its COMPONENT COUNT) or to one of its components,
# against the same helper applied to the equivalent plain wire (implementation-only, pairwise)
def sch_node(s, path):
    lo = 0
    for i in path:
        kids = sch_kids(s)
        lo += sum(sch_bw(k) for k in kids[i + 1:])
        s = kids[i]
    return s, lo


def cross_apply(c, P, t):
    op = c['op']
    m = c['m']
    if op == 'bfu':
        k = len(py_indices(m, c['s'], c['e']))
        return [pyrtl.bitfield_update(t, c['s'], c['e'], P[1][0:k])]
    if op == 'bfus':
        return [pyrtl.bitfield_update_set(t, {(0, 1): P[1][0:1], (m - 1, None): P[1][1:2]})]
    if op == 'chop':
        return list(pyrtl.chop(t, *c['widths']))
    if op == 'part':
        return list(libutils.partition_wire(t, c['size']))
    if op == 'mbp':
        mt, fields = pyrtl.match_bitpattern(t, c['pat'])
        return [mt] + list(fields)
    if op == 'mux':
        return [pyrtl.mux(P[2], t, P[1])]
    if op == 'select':
        return [pyrtl.select(P[2], P[1], t)]
    if op == 'barrel':
        return [barrel.barrel_shifter(t, P[1], P[2], P[3])]
    if op in SHIFTS:
        amount = c['k'] if 'k' in c else P[1]      # Python int amount, or a wire (barrel shifter)
        return [call(SHIFTS[op], form_of(c), [('bits_to_shift', t), ('shift_amount', amount)])]
    raise ValueError(op)


SHIFTS = {'sll': pyrtl.shift_left_logical, 'sla': pyrtl.shift_left_arithmetic,
          'srl': pyrtl.shift_right_logical, 'sra': pyrtl.shift_right_arithmetic}


def q_cross(c):
    """the Coq side: the helper MODEL applied to the MODEL of the wrapped object (Front/Struct.v
    slice_comp + path = what as_wires(instance / component) carries)"""
    op = c['op']
    m = c['m']
    w = nats(c['ws'])
    tgt = s_coq(('P', c['sch'], c['path']))
    if op == 'bfu':
        k = len(py_indices(m, c['s'], c['e']))
        return 't_bfu %s %s %s %s (SS 1 0 %d) false' % (w, tgt, oz(c['s']), oz(c['e']), k)
    if op == 'bfus':
        return 't_bfus %s %s [((Some 0, Some 1), (VS (SS 1 0 1))); ((Some %d, None), (VS (SS 1 1 2)))] false' % (w, tgt, m - 1)
    if op == 'chop':
        return 't_chop %s %s %s' % (w, tgt, nats(c['widths']))
    if op == 'part':
        return 't_part %s %s %d' % (w, tgt, c['size'])
    if op == 'mbp':
        return 't_mbp %s %s "%s"%%string' % (w, tgt, c['pat'])
    if op == 'mux':
        return 't_mux %s (SW 2) [%s; (SW 1)] None' % (w, tgt)
    if op == 'select':
        return 't_select %s (SW 2) (SW 1) %s' % (w, tgt)
    if op == 'barrel':
        return 't_barrel %s %s (SW 1) (SW 2) (SW 3)' % (w, tgt)
    if op in SHIFTS and 'k' in c:
        return 't_%s_i %s %s %d' % ({'sll': 'sll', 'sla': 'sll', 'srl': 'srl', 'sra': 'sra'}[op], w, tgt, c['k'])
    if op in SHIFTS:      # wire amount: the barrel shifter with the documented bit_in / direction
        bit_in = '(SMsb %s)' % tgt if op == 'sra' else '(SC 1 0)'
        return 't_barrel %s %s %s (SC 1 %d) (SW 1)' % (w, tgt, bit_in, 1 if op in ('sll', 'sla') else 0)
    raise ValueError(op)


def b_cross(c, P):
    cls = sch_cls(c['sch'])
    inst = cls(**{cls._class_name: P[0]}) if c['sch'][0] == 'S' else cls(values=[P[0]])
    s = c['sch']
    t = inst
    for i in c['path']:
        t = getattr(t, 'f%d' % i) if s[0] == 'S' else t[i]
        s = sch_kids(s)[i]
    node, lo = sch_node(c['sch'], c['path'])
    plain = P[0] if not c['path'] else P[0][lo:lo + sch_bw(node)]
    try:
        on_plain = cross_apply(c, P, plain)
    except Exception as e_plain:       # the helper rejects this use on a plain wire: it must reject the wrapped one too
        try:
            cross_apply(c, P, t)
        except Exception:
            raise BothRaise(type(e_plain).__name__)
        raise WrappedAccepts('raises %s on the plain wire but returns on the wrapped object' % type(e_plain).__name__)
    return (cross_apply(c, P, t), on_plain)


class BothRaise(Exception):
    pass


class WrappedAccepts(Exception):
    pass


def gen_cross(rng, tier):
    out = []
    schemas = [('S', [('L', 2), ('L', 1)]), ('S', [('L', 1), ('L', 2), ('L', 1)]), ('M', ('L', 1), 3),
               ('M', ('L', 2), 2), ('S', [('S', [('L', 1), ('L', 2)]), ('L', 1)]), ('M', ('S', [('L', 1), ('L', 1)]), 2),
               ('S', [('L', 3)]), ('S', [('M', ('L', 1), 2), ('L', 2)])]
    if tier != 'quick':
        schemas += [('S', [('L', 4), ('L', 1)]), ('M', ('M', ('L', 1), 2), 2), ('M', ('L', 1), 4)]
    for sch in schemas:
        paths = [[]] + [[i] for i in range(len(sch_kids(sch)))]
        first = sch_kids(sch)[0]
        if first[0] != 'L':
            paths.append([0, len(sch_kids(first)) - 1])
        for path in paths:
            node, lo = sch_node(sch, path)
            m = sch_bw(node)
            n = sch_bw(sch)
            kind = {'L': 'leaf-component', 'S': 'wire_struct', 'M': 'wire_matrix'}[node[0]]
            base = {'fam': 'cross', 'sch': sch, 'path': path, 'm': m, 'target': kind}
            ops = []
            for s, e in [(0, 1), (1, None), (None, -1), (-1, None), (None, None)]:
                if py_indices(m, s, e):
                    ops.append(dict(op='bfu', s=s, e=e, ws=[n, n]))
            if m >= 2:
                ops.append(dict(op='bfus', ws=[n, n]))
                ops.append(dict(op='chop', widths=[1, m - 1], ws=[n]))
                ops.append(dict(op='part', size=1, ws=[n]))
            ops.append(dict(op='chop', widths=[m], ws=[n]))
            ops.append(dict(op='part', size=m, ws=[n]))
            ops.append(dict(op='mbp', pat=('1a0b?a1b')[:m], ws=[n]))
            ops.append(dict(op='mux', ws=[n, n, 1]))
            ops.append(dict(op='select', ws=[n, n, 1]))
            ops.append(dict(op='barrel', ws=[n, 1, 1, 2]))
            for sh in ('sll', 'srl', 'sra', 'sla'):
                for k in sorted({0, 1, m - 1, m, m + 1}):     # Python int amounts (0 / >= width raise for some)
                    if sh != 'sla' or k == 1:
                        ops.append(dict(op=sh, k=k, ws=[n]))
                ops.append(dict(op=sh, ws=[n, 2]))            # wire amount
            for o in ops:
                out.append(dict(base, **o))
    return out


PAIRWISE = ('wrapped', 'cross')
FORMABLE = ('select', 'prioritized_mux', 'sparse_mux', 'enum_mux', 'MultiSelector', 'demux', 'barrel_shifter',
            'bitfield_update', 'bitfield_update_set', 'match_bitpattern', 'partition_wire', 'struct_slice', 'cross')

FAMS = {
    'select': (b_select, q_select, o_select), 'mux': (b_mux, q_mux, o_mux),
    'prioritized_mux': (b_pmux, q_pmux, o_pmux), 'sparse_mux': (b_sparse, q_sparse, o_sparse),
    'enum_mux': (b_enum, q_enum, o_enum), 'MultiSelector': (b_multi, q_multi, o_multi),
    'demux': (b_demux, q_demux, o_demux), 'barrel_shifter': (b_barrel, q_barrel, o_barrel),
    'bitfield_update': (b_bfu, q_bfu, o_bfu), 'bitfield_update_set': (b_bfus, q_bfus, o_bfus),
    'match_bitpattern': (b_mbp, q_mbp, o_mbp), 'chop': (b_chop, q_chop, o_chop),
    'partition_wire': (b_part, q_part, o_part), 'struct_slice': (b_sslice, q_sslice, o_sslice),
    'struct_concat': (b_sconcat, q_sconcat, o_sconcat), 'wrapped': (b_wrap, None, o_wrap),
    'cross': (b_cross, q_cross, o_wrap),
}


# ------------------------------------------------------------------ running one pool of configurations
def env_of(ws, x):
    env = []
    for w in ws:
        env.append(x & ((1 << w) - 1))
        x >>= w
    return env


def run_group(args):
    """build every configuration in one block over one pool, simulate all pool values, apply the oracle"""
    ws, cfgs = args
    pyrtl.reset_working_block()
    pyrtl.set_debug_mode(False)
    warnings.simplefilter('ignore')             # the deprecated mux keyword form warns
    block = pyrtl.working_block()
    P = [pyrtl.Input(w, 'p%d' % i) for i, w in enumerate(ws)]
    res = []
    for ci, c in enumerate(cfgs):
        snap_logic = set(block.logic)
        snap_wires = set(block.wirevector_set)
        try:
            built = FAMS[c['fam']][0](c, P)
            split = None
            if isinstance(built, tuple):           # (results on the wrapped object, results on the plain wire)
                split = len(built[0])
                built = list(built[0]) + list(built[1])
            wires = [pyrtl.as_wires(w) for w in built]
            names = []
            for k, w in enumerate(wires):
                o = pyrtl.Output(len(w), 'o%d_%d' % (ci, k))
                o <<= w
                names.append(o.name)
            res.append({'err': None, 'widths': [len(w) for w in wires], 'names': names, 'split': split})
        except Exception as e:  # roll the block back to before this configuration
            block.logic = snap_logic
            for w in list(block.wirevector_set - snap_wires):
                block.remove_wirevector(w)
            res.append({'err': type(e).__name__, 'msg': str(e)[:200]})
    total = sum(ws)
    n = 1 << total
    outs = [nm for r in res if r['err'] is None for nm in r['names']]
    trace = {}
    if outs:
        try:
            tracer = pyrtl.SimulationTrace(wires_to_track=[block.wirevector_by_name[nm] for nm in outs], block=block)
            sim = pyrtl.Simulation(tracer=tracer, block=block)
            ins = {}
            off = 0
            for i, w in enumerate(ws):
                ins['p%d' % i] = [(x >> off) & ((1 << w) - 1) for x in range(n)]
                off += w
            sim.step_multiple(ins)
            trace = tracer.trace
        except Exception as e:
            # one configuration produced a circuit that cannot be simulated: do not lose the others --
            # rerun every configuration of the group alone; the culprit is then reported by itself
            if len(cfgs) > 1:
                return [run_group((ws, [c]))[0] for c in cfgs]
            res = [{'err': 'Simulation:' + type(e).__name__, 'msg': str(e)[:200]}]
    envs = [env_of(ws, x) for x in range(n)]
    for c, r in zip(cfgs, res):
        orc = FAMS[c['fam']][2]
        if r['err'] is None:
            cols = [trace[nm] for nm in r['names']]
            r['tab'] = [list(row) for row in zip(*cols)] if cols else [[] for _ in range(n)]
            del r['names']
        bad = None
        varying = False
        first = orc(c, ws, envs[0])
        if first == ERR or first == ERRU:
            r['oracle'] = first
            if first == ERR and r['err'] is None:
                bad = {'kind': 'accepts', 'pool': envs[0], 'got': r['tab'][0],
                       'expected': 'an error (documented misuse)'}
        else:
            r['oracle'] = 'OK'
            if r['err'] == 'BothRaise':
                pass
            elif r['err'] == 'WrappedAccepts':
                bad = {'kind': 'accepts', 'msg': r['msg']}
            elif r['err'] is not None:
                bad = {'kind': 'raises', 'error': r['err'], 'msg': r['msg'], 'expected_first': first}
            else:
                if c['fam'] in PAIRWISE:
                    k = r['split']
                    if 2 * k != len(r['widths']) or r['widths'][:k] != r['widths'][k:]:
                        bad = {'kind': 'value', 'what': 'number / bitwidths of results differ from the plain wire',
                               'expected': r['widths'][k:], 'got': r['widths'][:k]}
                    else:
                        for x, row in enumerate(r['tab']):
                            if row[:k] != row[k:]:
                                bad = {'kind': 'value', 'pool': envs[x], 'expected': row[k:], 'got': row[:k]}
                                break
                else:
                    for x, row in enumerate(r['tab']):
                        exp = orc(c, ws, envs[x])
                        if len(exp) != len(row) or any(e is not None and e != g for e, g in zip(exp, row)):
                            bad = {'kind': 'value', 'pool': envs[x], 'expected': exp, 'got': row}
                            break
                t0 = r['tab'][0]
                varying = any(row != t0 for row in r['tab'])
        r['bad'] = bad
        r['nontrivial'] = bool(r['err'] is not None or varying)
    return res


# ------------------------------------------------------------------ configuration generators
def gen_select(rng, tier):
    out = []
    for wa in (1, 2, 3):
        for wb in (1, 2, 3):
            out.append({'fam': 'select', 'ws': [1, wa, wb], 's': ('W', 0), 't': ('W', 1), 'f': ('W', 2)})
    out.append({'fam': 'select', 'ws': [1, 2], 's': ('W', 0), 't': ('I', 5), 'f': ('W', 1)})
    out.append({'fam': 'select', 'ws': [1, 2], 's': ('W', 0), 't': ('W', 1), 'f': ('C', 4, 9)})
    return out


DATA_POOL = [2, 3, 1]       # pool wires 1.. used as data by the mux families


def rand_src(rng, base, widths, consts=True):
    r = rng.random()
    if consts and r < 0.2:
        return ('I', rng.randrange(0, 8))
    if consts and r < 0.3:
        w = rng.randint(1, 4)
        return ('C', w, rng.randrange(0, 1 << w))
    i = rng.randrange(len(widths))
    return ('W', base + i)


def gen_mux(rng, tier):
    out = []
    reps = 2 if tier == 'quick' else 6
    for k in (1, 2, 3, 4):
        ws = [k] + DATA_POOL
        full = 1 << k
        counts = list(range(1, full + 2))
        if tier == 'quick' and k == 4:
            counts = [1, 9, 15, 16, 17]
        for m in counts:
            for dk in ('none', 'wire', 'int'):
                for rep in range(reps if k < 4 or tier != 'quick' else 1):
                    ins = [rand_src(rng, 1, DATA_POOL) for _ in range(m)]
                    d = None if dk == 'none' else (rand_src(rng, 1, DATA_POOL, False) if dk == 'wire'
                                                   else ('I', rng.randrange(0, 16)))
                    out.append({'fam': 'mux', 'ws': ws, 'idx': ('W', 0), 'ins': ins, 'dflt': d})
        # every position distinguishable: the i-th input is the constant i
        for m in sorted({1, full // 2 + 1, full - 1, full} - {0}):
            out.append({'fam': 'mux', 'ws': [k], 'idx': ('W', 0), 'ins': [('I', i) for i in range(m)],
                        'dflt': ('I', 31)})
        out.append({'fam': 'mux', 'ws': [k], 'idx': ('W', 0), 'ins': [('I', i) for i in range(full)], 'dflt': None})
    # the other calling forms mux accepts: the predicate keywords truecase= / falsecase= (deprecated, still
    # accepted, documented as select), and the keyword misuses that must raise
    ws = [1] + DATA_POOL
    pairs = [[('W', 1), ('W', 2)], [('W', 2), ('W', 1)], [('W', 3), ('W', 2)], [('I', 5), ('W', 1)], [('W', 2), ('I', 200)],
             [('I', 0), ('I', 1)], [('C', 3, 6), ('W', 3)]]
    for ins in pairs + [[rand_src(rng, 1, DATA_POOL), rand_src(rng, 1, DATA_POOL)] for _ in range(4 if tier == 'quick' else 20)]:
        for form in ('kwcase', 'kwcase_rev', 'pos'):
            out.append({'fam': 'mux', 'ws': ws, 'idx': ('W', 0), 'ins': ins, 'dflt': None, 'form': form})
    out.append({'fam': 'mux', 'ws': [3, 2], 'idx': ('S', 0, 1, 2), 'ins': [('W', 1), ('S', 0, 0, 2)], 'dflt': None,
                'form': 'kwcase'})
    for form in ('kwcase_one', 'kw_unknown', 'kw_index'):
        out.append({'fam': 'mux', 'ws': ws, 'idx': ('W', 0), 'ins': [('W', 1), ('W', 2)], 'dflt': ('W', 3), 'form': form})
    return out


def gen_pmux(rng, tier):
    out = []
    reps = 3 if tier == 'quick' else 10
    for n in range(1, 7 if tier == 'quick' else 8):
        ws = [n] + DATA_POOL
        for rep in range(reps):
            sels = [('S', 0, j, j + 1) for j in range(n)]
            vals = [rand_src(rng, 1, DATA_POOL) for _ in range(n)]
            out.append({'fam': 'prioritized_mux', 'ws': ws, 'sels': sels, 'vals': vals})
        out.append({'fam': 'prioritized_mux', 'ws': [n], 'sels': [('S', 0, j, j + 1) for j in range(n)],
                    'vals': [('I', j + 1) for j in range(n)]})
    out.append({'fam': 'prioritized_mux', 'ws': [2, 2], 'sels': [('S', 0, 0, 1), ('S', 0, 1, 2)], 'vals': [('W', 1)]})
    out.append({'fam': 'prioritized_mux', 'ws': [2, 2], 'sels': [], 'vals': []})
    return out


def gen_sparse(rng, tier):
    out = []
    reps = 12 if tier == 'quick' else 120
    for k in (1, 2, 3, 4):
        ws = [k] + DATA_POOL
        full = 1 << k
        for rep in range(reps if k < 4 or tier != 'quick' else 6):
            nkeys = rng.choice([1, 1, 2, 3, full // 2, full - 1, full, rng.randint(1, full)])
            nkeys = max(1, min(full, nkeys))
            keys = rng.sample(range(full), nkeys)
            if rng.random() < 0.5:
                keys.sort()
            few = rng.random() < 0.5          # few distinct values -> equivalent halves collapse
            palette = [rand_src(rng, 1, DATA_POOL) for _ in range(2 if few else 6)]
            if rng.random() < 0.3:            # Consts of one bitwidth: equal only when the values agree
                cw = rng.randint(1, 3)
                palette = [('C', cw, rng.randrange(0, 1 << cw)) for _ in range(3)]
            vals = [(kk, rng.choice(palette)) for kk in keys]
            dk = rng.choice(['none', 'none', 'wire', 'int', 'same'])
            d = None
            if dk == 'wire':
                d = rand_src(rng, 1, DATA_POOL, False)
            elif dk == 'int':
                d = ('I', rng.randrange(0, 8))
            elif dk == 'same':
                d = rng.choice(palette)
            out.append({'fam': 'sparse_mux', 'ws': ws, 'sel': ('W', 0), 'vals': vals, 'dflt': d})
        out.append({'fam': 'sparse_mux', 'ws': ws, 'sel': ('W', 0), 'vals': [], 'dflt': ('W', 1)})
        out.append({'fam': 'sparse_mux', 'ws': ws, 'sel': ('W', 0), 'vals': [], 'dflt': None})
        out.append({'fam': 'sparse_mux', 'ws': ws, 'sel': ('W', 0), 'vals': [(full, ('W', 1)), (0, ('W', 2))],
                    'dflt': None})
        out.append({'fam': 'sparse_mux', 'ws': [k], 'sel': ('W', 0), 'vals': [(i, ('I', i)) for i in range(full)],
                    'dflt': None})
    return out


def gen_enum(rng, tier):
    out = []
    reps = 12 if tier == 'quick' else 80
    for k in (2, 3):
        ws = [k] + DATA_POOL
        full = 1 << k
        for rep in range(reps):
            members = sorted(rng.sample(range(full), rng.randint(1, full)))
            listed = [m for m in members if rng.random() < 0.7] or [members[0]]
            rng.shuffle(listed)
            table = [(m, rand_src(rng, 1, DATA_POOL)) for m in listed]
            if rng.random() < 0.3:
                table.insert(rng.randrange(len(table) + 1), (None, rand_src(rng, 1, DATA_POOL)))
            d = rand_src(rng, 1, DATA_POOL) if rng.random() < 0.3 else None
            out.append({'fam': 'enum_mux', 'ws': ws, 'cntrl': ('W', 0), 'members': members, 'table': table,
                        'dflt': d, 'strict': rng.random() < 0.6, 'reuse': rep % 2 == 1})
    return out


def gen_multi(rng, tier):
    out = []
    reps = 14 if tier == 'quick' else 100
    pool = [2, 3]
    for k in (1, 2, 3):
        ws = [k] + pool
        full = 1 << k
        for rep in range(reps):
            dws = [rng.choice([1, 2, 3, 4]) for _ in range(rng.randint(1, 3))]
            keys = rng.sample(range(full), rng.randint(1, full))
            opts = []
            for kk in keys:
                data = []
                for dw in dws:
                    if rng.random() < 0.4:
                        data.append(('I', rng.randrange(0, 1 << dw)))
                    else:
                        data.append(('W', 1 + rng.randrange(len(pool))))
                opts.append((kk, data))
            if rng.random() < 0.5:
                data = [('I', rng.randrange(0, 1 << dw)) if rng.random() < 0.5 else ('W', 1 + rng.randrange(len(pool)))
                        for dw in dws]
                opts.insert(rng.randrange(len(opts) + 1), (None, data))
            out.append({'fam': 'MultiSelector', 'ws': ws, 'sel': ('W', 0), 'dws': dws, 'opts': opts})
        out.append({'fam': 'MultiSelector', 'ws': ws, 'sel': ('W', 0), 'dws': [2],
                    'opts': [(0, [('W', 1)]), (0, [('W', 1)])]})
    return out


def gen_demux(rng, tier):
    return [{'fam': 'demux', 'ws': [k], 'sel': ('W', 0)} for k in range(1, 6 if tier == 'quick' else 8)]


def gen_barrel(rng, tier):
    out = []
    lim = 10 if tier == 'quick' else 13
    for wrap in (0, 1):
        out.append({'fam': 'barrel_shifter', 'ws': [3, 1, 1, 2], 'x': ('W', 0), 'bit_in': ('W', 1), 'dir': ('W', 2),
                    'sd': ('W', 3), 'wrap': wrap, 'form': 'pos'})
    for w in range(1, 9):
        for sdw in range(1, 6):
            if w + sdw + 2 <= lim:
                out.append({'fam': 'barrel_shifter', 'ws': [w, 1, 1, sdw], 'x': ('W', 0), 'bit_in': ('W', 1),
                            'dir': ('W', 2), 'sd': ('W', 3)})
    return out


def bounds(n):
    return [None] + list(range(-n - 1, n + 2))


def gen_bfu(rng, tier):
    out = []
    nmax = 5 if tier == 'quick' else 6
    for n in range(1, nmax + 1):
        ws = [n, n]
        bs = bounds(n)
        pairs = [(s, e) for s in bs for e in bs]
        if tier == 'quick' and n == 5:
            pairs = rng.sample(pairs, 40)
        for s, e in pairs:
            m = len(py_indices(n, s, e))
            nv = ('S', 1, 0, m) if 0 < m < n else ('W', 1)
            out.append({'fam': 'bitfield_update', 'ws': ws, 'w': ('W', 0), 's': s, 'e': e, 'nv': nv, 'tr': False})
        # width mismatches: narrower (zero-extended), wider with / without truncating, ints
        for rep in range(8 if tier == 'quick' else 60):
            s, e = rng.choice(bs), rng.choice(bs)
            m = len(py_indices(n, s, e))
            kind = rng.choice(['narrow', 'wide', 'int', 'bigint'])
            tr = rng.random() < 0.5
            if kind == 'narrow' and m >= 2:
                nv = ('S', 1, 0, rng.randint(1, m - 1))
            elif kind == 'wide' and m < n:
                nv = ('S', 1, 0, rng.randint(m + 1, n))
            elif kind == 'int':
                nv = ('I', rng.randrange(0, 1 << max(m, 1)))
            else:
                nv = ('I', (1 << max(m, 1)) + rng.randrange(0, 4))
            out.append({'fam': 'bitfield_update', 'ws': ws, 'w': ('W', 0), 's': s, 'e': e, 'nv': nv, 'tr': tr})
        # Python int new values of every kind (negative, zero, exactly fitting, too wide in either direction)
        # x truncating True / False, on fields of every width of the wire
        for m in range(1, n + 1):
            kinds = sorted({0, 1, -1, -2, -3, (1 << m) - 1, 1 << m, (1 << m) + 1, -(1 << (m - 1)), -(1 << (m - 1)) - 1,
                            -(1 << m), -(1 << m) - 3, rng.randrange(-(1 << (m + 2)), 1 << (m + 2))})
            if tier == 'quick' and n >= 4:
                kinds = rng.sample(kinds, 6)
            for v in kinds:
                a = rng.randint(0, n - m)
                s, e = rng.choice([a, a - n]), rng.choice([a + m, a + m - n] if a + m < n else [a + m, None])
                for tr in (False, True):
                    out.append({'fam': 'bitfield_update', 'ws': [n], 'w': ('W', 0), 's': s, 'e': e, 'nv': ('I', v),
                                'tr': tr, 'int_kind': ('negative' if v < 0 else 'zero' if v == 0 else 'positive')
                                + (':fits' if field_value(None, None, ('I', v), m, False) is not ERR else ':too-wide')})
    return out


def gen_bfus(rng, tier):
    out = []
    reps = 40 if tier == 'quick' else 200
    for n in (3, 4, 5, 6):
        if tier == 'quick' and n == 6:
            continue
        ws = [n, n]
        bs = bounds(n)
        for rep in range(reps):
            k = rng.randint(1, 3)
            ups = []
            used = 0
            seen = set()
            for _ in range(k):
                if rng.random() < 0.6:          # bias to short, in-range, non-overlapping ranges
                    a = rng.randrange(0, n)
                    b = rng.randint(a + 1, min(n, a + 2))
                    s, e = rng.choice([a, a - n]), rng.choice([b, b - n] if b < n else [b, None])
                else:
                    s, e = rng.choice(bs), rng.choice(bs)
                if (s, e) in seen:
                    continue
                seen.add((s, e))
                m = len(py_indices(n, s, e))
                take = min(max(m, 1), n - used) if used < n else 1
                lo = used if used + take <= n else 0
                if rng.random() < 0.3:          # a Python int of any kind as the new value
                    mm = max(m, 1)
                    ups.append((s, e, ('I', rng.choice([0, -1, -2, (1 << mm) - 1, -(1 << (mm - 1)), 1 << mm,
                                                        -(1 << mm) - 1, rng.randrange(-(2 << mm), 2 << mm)]))))
                else:
                    ups.append((s, e, ('S', 1, lo, lo + take)))
                used = (used + take) % n
            out.append({'fam': 'bitfield_update_set', 'ws': ws, 'w': ('W', 0), 'ups': ups,
                        'tr': rng.random() < 0.3})
    return out


def nonempty_ranges(n):
    """every (start, end) over {None, -n-1..n+1} that addresses at least one bit of an n-bit wire"""
    return [(s, e) for s in bounds(n) for e in bounds(n) if py_indices(n, s, e)]


def bfus_cfg(n, ranges, tr=False):
    ups = []
    off = 0
    for (s, e) in ranges:
        m = max(1, len(py_indices(n, s, e)))
        if off + m > n:
            off = 0
        ups.append((s, e, ('S', 1, off, off + m)))
        off += m
    return {'fam': 'bitfield_update_set', 'ws': [n, n], 'w': ('W', 0), 'ups': ups, 'tr': tr, 'exhaustive': True}


def gen_bfus_sets(rng, tier):
    """bitfield_update_set over EVERY set of ranges of a small wire, in every dict order: every ordered pair of
    distinct (start, end) keys incl. None / negative / clamped aliases; ordered triples and wider wires with one
    alias per bit interval (drawn per use).  The oracle decides overlap on the addressed bit SETS."""
    out = []
    nfull = 3 if tier == 'quick' else 4
    for n in range(1, nfull + 1):
        rs = nonempty_ranges(n)
        for r1 in rs:
            for r2 in rs:
                if r1 != r2:
                    out.append(bfus_cfg(n, [r1, r2]))
        empties = [(s, e) for s in bounds(n) for e in bounds(n) if not py_indices(n, s, e)]
        for r in rng.sample(empties, min(6, len(empties))):     # an empty range anywhere in the set
            out.append(bfus_cfg(n, [rng.choice(rs), r]))
            out.append(bfus_cfg(n, [r, rng.choice(rs)]))

    def by_interval(n):
        d = {}
        for r in nonempty_ranges(n):
            idx = py_indices(n, *r)
            d.setdefault((idx[0], idx[-1] + 1), []).append(r)
        return d
    for n, k, limit in ([(4, 2, None), (3, 3, None), (4, 3, 260), (5, 2, 120)] if tier == 'quick' else
                        [(5, 2, None), (6, 2, None), (3, 3, None), (4, 3, None), (5, 3, 1500), (4, 4, 1500)]):
        iv = by_interval(n)
        combos = list(itertools.permutations(sorted(iv), k))
        if limit is not None and len(combos) > limit:
            combos = rng.sample(combos, limit)
        for combo in combos:
            out.append(bfus_cfg(n, [rng.choice(iv[i]) for i in combo]))
    return out


ALPHA = '01?ab_ '


def gen_mbp(rng, tier):
    out = []
    pats = []
    full_len = 3 if tier == 'quick' else 4
    for L in range(1, full_len + 1):
        pats += [''.join(p) for p in itertools.product(ALPHA, repeat=L)]
    for _ in range(500 if tier == 'quick' else 2500):
        L = rng.randint(full_len + 1, 8)
        pats.append(''.join(rng.choice(ALPHA) for _ in range(L)))
    for p in pats:
        n = len([ch for ch in p if ch not in '_ '])
        if n == 0:
            out.append({'fam': 'match_bitpattern', 'ws': [1], 'w': ('W', 0), 'pat': p})
        else:
            out.append({'fam': 'match_bitpattern', 'ws': [n], 'w': ('W', 0), 'pat': p})
    # field_map: every order of the map's keys (dict order must not matter), extra keys, a missing key;
    # the fields read positionally AND by mapped name
    longnames = {'a': 'foo', 'b': 'bar', 'c': 'baz', 'd': 'qux'}
    fpats = ['ab', 'ba', 'a1b', 'b0a?', 'aab', 'abab', 'ab_ba', 'abc', 'cab', 'b?ca', 'ca1b', 'abcabc', 'a', 'a0a']
    for _ in range(6 if tier == 'quick' else 60):
        L = rng.randint(2, 6)
        fpats.append(''.join(rng.choice('abc01?') for _ in range(L)))
    for p in fpats:
        n = len([ch for ch in p if ch not in '_ '])
        letters = names_mbp({'pat': p})
        if not letters:
            continue
        for perm in itertools.permutations(letters):
            keys = list(perm)
            out.append({'fam': 'match_bitpattern', 'ws': [n], 'w': ('W', 0), 'pat': p, 'byname': True,
                        'fmap': {k: longnames[k] for k in keys}, 'form': 'pos'})
        extra = ['d'] + list(reversed(letters))
        out.append({'fam': 'match_bitpattern', 'ws': [n], 'w': ('W', 0), 'pat': p, 'byname': True,
                    'fmap': {k: longnames[k] for k in extra}, 'form': 'kw'})
        out.append({'fam': 'match_bitpattern', 'ws': [n], 'w': ('W', 0), 'pat': p, 'byname': True})
        if len(letters) >= 2:
            out.append({'fam': 'match_bitpattern', 'ws': [n], 'w': ('W', 0), 'pat': p,
                        'fmap': {k: longnames[k] for k in letters[1:]}})
    for p in ['01', 'a?b', '1a0a', 'ab_ab']:      # length mismatch, field_map
        n = len([ch for ch in p if ch not in '_ '])
        out.append({'fam': 'match_bitpattern', 'ws': [n + 1], 'w': ('W', 0), 'pat': p})
        out.append({'fam': 'match_bitpattern', 'ws': [n], 'w': ('W', 0), 'pat': p,
                    'fmap': {'a': 'foo', 'b': 'bar'}})
    return out


def compositions(n):
    if n == 0:
        yield []
        return
    for first in range(1, n + 1):
        for rest in compositions(n - first):
            yield [first] + rest


def gen_chop(rng, tier):
    out = []
    nfull = 6 if tier == 'quick' else 9
    for n in range(1, nfull + 1):
        for comp in compositions(n):
            out.append({'fam': 'chop', 'ws': [n], 'w': ('W', 0), 'widths': comp})
    for n in range(nfull + 1, nfull + 3):
        comps = list(compositions(n))
        for comp in rng.sample(comps, 24):
            out.append({'fam': 'chop', 'ws': [n], 'w': ('W', 0), 'widths': comp})
    for n in (3, 5):
        out.append({'fam': 'chop', 'ws': [n], 'w': ('W', 0), 'widths': [1, n]})
        out.append({'fam': 'chop', 'ws': [n], 'w': ('W', 0), 'widths': [n - 1]})
        out.append({'fam': 'chop', 'ws': [n], 'w': ('W', 0), 'widths': [n, 0]})
    return out


def gen_part(rng, tier):
    out = []
    for n in range(1, 10 if tier == 'quick' else 13):
        for size in range(1, n + 2):
            out.append({'fam': 'partition_wire', 'ws': [n], 'w': ('W', 0), 'size': size})
    return out


def rand_schema(rng, budget, depth, top=True):
    """random schema with bitwidth <= budget (>= 1), nesting depth <= depth"""
    if depth == 0 or budget < 2 or (not top and rng.random() < 0.35):
        return ('L', rng.randint(1, max(1, min(3, budget))))
    if rng.random() < 0.55:
        nf = rng.randint(1, min(3, budget))
        kids = []
        left = budget
        for i in range(nf):
            share = max(1, left - (nf - i - 1))
            b = rng.randint(1, max(1, min(share, (budget + 1) // 2 + 1)))
            kid = rand_schema(rng, b, depth - 1, False)
            kids.append(kid)
            left -= sch_bw(kid)
            if left < 1:
                break
        return ('S', kids)
    size = rng.randint(1, min(3, budget))
    kid = rand_schema(rng, max(1, budget // size), depth - 1, False)
    return ('M', kid, size)


def sch_depth(s):
    return 0 if s[0] == 'L' else 1 + max(sch_depth(k) for k in sch_kids(s))


def gen_struct(rng, tier):
    out = []
    reps = 170 if tier == 'quick' else 1200
    budget = 8 if tier == 'quick' else 10
    seen = set()
    for rep in range(reps):
        s = rand_schema(rng, budget, 3)
        key = json.dumps(s)
        if s[0] == 'L' or key in seen:
            continue
        seen.add(key)
        bw = sch_bw(s)
        out.append({'fam': 'struct_slice', 'ws': [bw], 'sch': s, 'v': ('W', 0), 'depth': sch_depth(s)})
        if rep % 5 == 0:
            out.append({'fam': 'struct_slice', 'ws': [1], 'sch': s, 'v': ('I', rng.randrange(0, 1 << bw)),
                        'depth': sch_depth(s)})
        kids = sch_kids(s)
        if len(kids) >= 2 or (s[0] == 'S' and len(kids) == 1):
            vals = []
            off = 0
            for i, k in enumerate(kids):
                kb = sch_bw(k)
                if rng.random() < 0.2:
                    vals.append(('I', rng.randrange(0, 1 << kb)))
                else:
                    vals.append(('S', 0, off, off + kb))
                off += kb
            out.append({'fam': 'struct_concat', 'ws': [bw], 'sch': s, 'vals': vals, 'depth': sch_depth(s)})
    return out


MISMATCH_SCHEMAS = [
    ('S', [('L', 3), ('L', 2)]),                                   # flat
    ('S', [('L', 1), ('L', 2), ('L', 1)]),
    ('S', [('L', 2)]),                                             # single field, still concatenation mode
    ('S', [('S', [('L', 1), ('L', 2)]), ('L', 2)]),                # nested, depth 2
    ('S', [('M', ('L', 1), 2), ('L', 2)]),
    ('M', ('L', 2), 3),                                            # wire_matrix(values=[...])
    ('M', ('S', [('L', 1), ('L', 2)]), 2),
    ('S', [('S', [('M', ('L', 1), 2), ('L', 1)]), ('L', 2)]),      # depth 3
    ('M', ('M', ('L', 1), 2), 2),
    ('S', [('L', 1), ('M', ('S', [('L', 1), ('L', 1)]), 2)]),
]
DELTAS = [-2, -1, 0, 1, 3]


def mismatch_cfg(s, deltas):
    """concatenation mode, component i driven by a plain WireVector (a slice of the pool Input) of
    width field_width + deltas[i] (clamped to >= 1): `component <<= driver` truncates / zero-extends"""
    kids = sch_kids(s)
    vals = []
    off = 0
    for k, d in zip(kids, deltas):
        dw = max(1, sch_bw(k) + d)
        vals.append(('S', 0, off, off + dw))
        off += dw
    return {'fam': 'struct_concat', 'ws': [off], 'sch': s, 'vals': vals, 'depth': sch_depth(s),
            'driver_delta': [max(1, sch_bw(k) + d) - sch_bw(k) for k, d in zip(kids, deltas)]}


def gen_struct_mismatch(rng, tier):
    out = []
    for s in MISMATCH_SCHEMAS:
        kids = sch_kids(s)
        if s[0] == 'M' and len(kids) < 2:
            continue
        for j in range(len(kids)):                 # one component off by d, the others exact
            for d in DELTAS:
                if d == 0 or max(1, sch_bw(kids[j]) + d) == sch_bw(kids[j]):
                    continue
                out.append(mismatch_cfg(s, [d if i == j else 0 for i in range(len(kids))]))
        for rep in range(2 if tier == 'quick' else 8):   # every component off
            ds = [rng.choice(DELTAS) for _ in kids]
            c = mismatch_cfg(s, ds)
            if sum(c['ws']) <= 12 and any(c['driver_delta']):
                out.append(c)
    seen = set()
    for rep in range(60 if tier == 'quick' else 600):     # random schemas, random deltas
        s = rand_schema(rng, 6, 3)
        kids = sch_kids(s)
        if s[0] == 'L' or (s[0] == 'M' and len(kids) < 2):
            continue
        c = mismatch_cfg(s, [rng.choice(DELTAS) for _ in kids])
        key = json.dumps(c, sort_keys=True)
        if key in seen or sum(c['ws']) > 11 or not any(c['driver_delta']):
            continue
        seen.add(key)
        out.append(c)
    return out


def gen_wrap(rng, tier):
    out = []
    for sch in [('S', [('L', 1), ('L', 2)]), ('M', ('L', 1), 3)]:
        for op in WRAP_OPS:
            if sch[0] == 'M' and op in ('slice', 'index'):
                continue        # wire_matrix documents [] as component access (word[0] = msb component)
            out.append({'fam': 'wrapped', 'ws': [3, 2], 'sch': sch, 'op': op})
    return out


GENS = [('cross', gen_cross), ('select', gen_select), ('mux', gen_mux), ('prioritized_mux', gen_pmux), ('sparse_mux', gen_sparse),
        ('enum_mux', gen_enum), ('MultiSelector', gen_multi), ('demux', gen_demux), ('barrel_shifter', gen_barrel),
        ('bitfield_update', gen_bfu), ('bitfield_update_set', gen_bfus), ('bitfield_update_set_exhaustive', gen_bfus_sets), ('match_bitpattern', gen_mbp),
        ('chop', gen_chop), ('partition_wire', gen_part), ('struct', gen_struct),
        ('struct_mismatch', gen_struct_mismatch), ('wrapped', gen_wrap)]


# ------------------------------------------------------------------ driver
def signature(c, bad):
    fam = c['fam']
    if fam == 'bitfield_update' and bad['kind'] == 'raises' and c['nv'][0] == 'I' and c['tr']:
        return 'bitfield_update:int-newvalue-too-large-with-truncating-raises'
    if fam == 'cross':      # which helper mishandles which kind of wrapped object
        return 'cross:%s-on-%s' % ({'bfu': 'bitfield_update', 'bfus': 'bitfield_update_set', 'part': 'partition_wire',
                                    'mbp': 'match_bitpattern', 'barrel': 'barrel_shifter',
                                    'sll': 'shift_left_logical', 'sla': 'shift_left_arithmetic',
                                    'srl': 'shift_right_logical', 'sra': 'shift_right_arithmetic'}.get(c['op'], c['op'])
                                   + ('-int-amount' if 'k' in c else ''), c['target'])
    return '%s:%s' % (fam, bad['kind'])


def check_slices(ctx):
    """tie of the slice model to Python itself"""
    exprs = []
    ns = list(range(0, 10))
    for n in ns:
        bs = [None] + list(range(-n - 2, n + 3))
        exprs.append('t_slices %d %s' % (n, lst(oz(b) for b in bs)))
    res = ctx.coq_eval(exprs, IMPORTS, tag='c14slices', shard=4, jobs=4)
    for n, r in zip(ns, res):
        bs = [None] + list(range(-n - 2, n + 3))
        for i, s in enumerate(bs):
            for j, e in enumerate(bs):
                exp = list(range(n))[s:e]
                ctx.case(('slice', n, s, e), nontrivial=True)
                if list(r[i][j]) != exp:
                    ctx.model_mismatch('pyslice model differs from Python for range(%d)[%s:%s]' % (n, s, e),
                                       {'n': n, 's': s, 'e': e, 'python': exp, 'model': r[i][j]})
        ctx.count('families', 'pyslice', len(bs) * len(bs))


def decode_table(widths, s):
    """rows of ceil(sum(widths)/4) hex digits, low nibble first; first output in the low bits"""
    h = (sum(widths) + 3) // 4
    tab = []
    for k in range(0, len(s), h):
        v = int(s[k:k + h][::-1], 16)
        row = []
        for w in widths:
            row.append(v & ((1 << w) - 1))
            v >>= w
        tab.append(row)
    return tab


def run_configs(ctx, cfgs):
    # group by pool, chunk so that one worker gets a bounded amount of simulation work
    groups = {}
    for i, c in enumerate(cfgs):
        groups.setdefault(tuple(c['ws']), []).append(i)
    jobs = []
    for ws, idxs in sorted(groups.items()):
        per = max(4, min(160, (1 << 17) >> sum(ws)))
        for k in range(0, len(idxs), per):
            jobs.append((list(ws), idxs[k:k + per]))
    jobs.sort(key=lambda j: -(len(j[1]) << sum(j[0])))
    mp = multiprocessing.get_context('fork')
    results = [None] * len(cfgs)
    with concurrent.futures.ProcessPoolExecutor(max_workers=12, mp_context=mp) as ex:
        futs = [(idxs, ex.submit(run_group, (ws, [cfgs[i] for i in idxs]))) for ws, idxs in jobs]
        # the model side runs while the simulations are in flight
        qidx = [i for i, c in enumerate(cfgs) if FAMS[c['fam']][1] is not None]
        exprs = [FAMS[cfgs[i]['fam']][1](cfgs[i]) for i in qidx]
        model = {}
        t_q = time.time()
        # shards of bounded COST (a table has 2^pool_bits rows): many cheap expressions per coqc, few big ones,
        # so that no single coqc run comes near coqrun's per-file timeout on a loaded machine
        order = sorted(range(len(qidx)), key=lambda k: (sum(cfgs[qidx[k]]['ws']), k))
        classes = [(6, 200), (8, 60), (99, 15)]       # (max pool bits, expressions per coqc)
        try:
            lo = 0
            for ci, (maxbits, per) in enumerate(classes):
                part = [k for k in order if lo <= sum(cfgs[qidx[k]]['ws']) <= maxbits]
                lo = maxbits + 1
                if part:
                    mres = ctx.coq_eval([exprs[k] for k in part], IMPORTS, tag='c14_%d' % ci, shard=per, jobs=14)
                    for k, m in zip(part, mres):
                        model[qidx[k]] = m
        except Exception as e:
            model = {}
            ctx.model_mismatch('Front/C14Harness.v could not be evaluated: %s' % str(e)[-800:], {})
        ctx.notes.append('coq model evaluation %.1fs for %d expressions' % (time.time() - t_q, len(exprs)))
        for idxs, f in futs:
            try:
                rs = f.result()
            except Exception as e:       # a worker died: redo its configurations one by one in this process
                ctx.notes.append('a simulation worker failed (%s); its %d configurations were re-run one by one'
                                 % (str(e)[:120], len(idxs)))
                rs = []
                for i in idxs:
                    try:
                        rs.append(run_group((list(cfgs[i]['ws']), [cfgs[i]]))[0])
                    except Exception as e2:
                        rs.append({'err': 'HarnessError', 'msg': str(e2)[:200], 'bad': None, 'nontrivial': False,
                                   'oracle': 'ERRU'})
            for i, r in zip(idxs, rs):
                results[i] = r
        ctx.notes.append('simulation+oracle done %.1fs after start of model evaluation' % (time.time() - t_q))
    for i, (c, r) in enumerate(zip(cfgs, results)):
        fam = c['fam']
        key = (fam, json.dumps(c, sort_keys=True, default=str))
        sample = None
        if fam not in ctx._c14_sampled and r['err'] is None and r['nontrivial']:
            ctx._c14_sampled.add(fam)
            if len(ctx._c14_sampled) % 3 == 1:
                sample = {'config': c, 'widths': r['widths'], 'table_head': r['tab'][:4]}
        ctx.case(key, nontrivial=r['nontrivial'], sample=sample)
        ctx.count('families', fam)
        ctx.count('outcome', 'raises' if r['err'] else 'value')
        ctx.count('pool_bits', sum(c['ws']))
        ctx.count('calling_form', '%s:%s' % (fam, form_of(c)))
        if 'depth' in c:
            ctx.count('schema_depth', c['depth'])
        if 'int_kind' in c:
            ctx.count('bitfield_int_newvalue', '%s:truncating=%s' % (c['int_kind'], c['tr']))
        if c.get('fmap') is not None:
            ctx.count('match_bitpattern_field_map', 'keys-in-pattern-order' if list(c['fmap']) == names_mbp(c)
                      else 'keys-in-another-order')
        if 'driver_delta' in c:
            for d in c['driver_delta']:
                ctx.count('concat_driver_width_minus_field_width', d)
        rep = {'config': c, 'seed': ctx.seed, 'tier': ctx.tier}
        # search: implementation vs documentation oracle
        if r['bad'] is not None:
            ctx.spec_violation(signature(c, r['bad']),
                               '%s contradicts its documentation (%s)' % (fam, json.dumps(r['bad'], default=str)[:300]),
                               dict(rep, first_difference=r['bad'], impl_error=r.get('msg')))
        # tie: implementation vs Coq model
        if FAMS[fam][1] is None or i not in model:
            continue
        m = model[i]
        if fam == 'match_bitpattern' or (fam == 'cross' and c['op'] == 'mbp'):
            mnames, m = m[0], m[1]
            if m is not None and [chr(x) for x in mnames] != names_mbp(c):
                ctx.model_mismatch('match_bitpattern field names differ', dict(rep, model=mnames))
        if c.get('byname') and r['err'] is None:       # the by-name copies are checked by the oracle; model = positional
            k = 1 + len(names_mbp(c))
            r = dict(r, widths=r['widths'][:k], tab=[row[:k] for row in r['tab']])
        if fam in PAIRWISE and r['err'] is None:      # compare the results on the wrapped object only
            k = r['split']
            r = dict(r, widths=r['widths'][:k], tab=[row[:k] for row in r['tab']])
        if m is None:
            if r['err'] is None:
                ctx.model_mismatch('%s: model raises, implementation returns' % fam, rep)
        elif r['err'] is not None:
            ctx.model_mismatch('%s: implementation raises %s (%s), model returns' % (fam, r['err'], r['msg']), rep)
        else:
            widths, tab = list(m[0]), decode_table(list(m[0]), m[1])
            if widths != r['widths']:
                ctx.model_mismatch('%s: output bitwidths differ (impl %s, model %s)' % (fam, r['widths'], widths), rep)
            elif len(tab) != len(r['tab']):
                ctx.model_mismatch('%s: table sizes differ (impl %d, model %d)' % (fam, len(r['tab']), len(tab)), rep)
            elif tab != r['tab']:
                x = next(k for k in range(len(tab)) if tab[k] != r['tab'][k])
                ctx.model_mismatch('%s: values differ at pool value %d (impl %s, model %s)' % (
                    fam, x, r['tab'][x], tab[x]), rep)


def all_configs(ctx):
    cfgs = []
    for name, g in GENS:
        cfgs += g(ctx.sub_rng('gen', name), ctx.tier)
    # every fixed-signature helper is called in every form its signature accepts (positional, all keywords,
    # keywords in reverse order, mixed), assigned round-robin per family
    nth = {}
    for c in cfgs:
        if c['fam'] in FORMABLE and 'form' not in c:
            k = nth.get(c['fam'], 0)
            nth[c['fam']] = k + 1
            c['form'] = FORMS[k % len(FORMS)]
    return cfgs


def run(ctx):
    ctx._c14_sampled = set()
    cfgs = all_configs(ctx)
    check_slices(ctx)
    run_configs(ctx, cfgs)


def replay(ctx, data):
    ctx._c14_sampled = set()
    c = data['replay']['config'] if 'replay' in data else data['config']
    for k in ('idx', 's', 't', 'f', 'sel', 'w', 'nv', 'v', 'x', 'bit_in', 'dir', 'sd', 'cntrl', 'dflt'):
        if isinstance(c.get(k), list):
            c[k] = tuple(c[k])
    print(json.dumps(c))
    run_configs(ctx, [c])
