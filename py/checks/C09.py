"""C09: the lowering / restructuring passes (nand_synth, and_inverter_synth,
two_way_concat, one_bit_selects, direct_connect_outputs, two_way_fanout).

Per design and per pass sequence (each single pass, ordered pairs):
  tie    : the REAL pass result vs the Coq model's result (Pass/Lower.v) --
           structurally (canonical netlists equal up to the names of fresh
           temporaries; for two_way_fanout up to which leaf feeds which reader),
           census-wise (ops, concat arity, select width, fan-out), on
           preconditions (the code raises iff the model's precondition is false),
           on well-formedness (sanity_check() vs the sanity_check model) and
           behaviourally (reference semantics of the model's result vs
           pyrtl.Simulation of the real result; a sample of real results is also
           dumped and run through the reference semantics);
  search : Output traces / final memories of the real result under
           pyrtl.Simulation vs the reference semantics (Sem.v via spec_case) of the
           ORIGINAL design; sanity_check(); same Input/Output names; the pass's
           postcondition census on the real result.
"""
import collections
import pyrtl
import gen_designs
import nlx

RULE = ('always-run shape designs (every 2-input gate on identical arguments at 1 and more bits, also as '
        'produced by CSE and post-synthesis; full-width permuting / duplicating selects of Inputs and '
        'Registers next to identity and partial selects; exhaustive stimulus) + seeded designs of five kinds -- generic API-built (all ops, widths 1..130, registers, '
        'memories, ROMs), post-synthesis (pyrtl.synthesize of small designs; 1-bit gates), '
        'logic-only multi-bit (gate ops + concat/select/memories), raw (generic + raw LogicNets with '
        'truncating destinations), directed (register/memory/input/const driving Outputs directly, '
        'high fan-out, one gate per design with all input pairs), huge (about a thousand concat operands / select '
        'indices / readers of one wire; search only) -- x every single pass + ordered '
        'pass pairs, every pass twice, p-q-p and random sequences of length 3-5 (obligations after every step; '
        'half of the cases with an explicit block= and a decoy working block) x random initial state and input '
        'sequence; a case = (design, pass sequence); '
        'distinct by (design dump, passes, stimulus); non-trivial when the pass sequence changed the '
        'netlist or was rejected by its precondition as predicted')
IMPORTS_SPEC = 'From PyRTL Require Import Netlist.Sem Netlist.WFDefs Netlist.SpecHarness.'
IMPORTS = ('From PyRTL Require Import Netlist.Sem Netlist.WFDefs Netlist.SpecHarness Pass.Lower '
           'Pass.LowerHarness.')
COQ_TARGETS = ['theories/Netlist/SpecHarness.vo', 'theories/Pass/LowerHarness.vo']
PROPS_FILES = ['theories/Props/C09.v', 'theories/Props/C09_bridge.v']
TRUSTED = ['py/genfrag_C09.py: the gate right-hand sides (Gen/LowerRules.v) AND the guards / thresholds / split '
           'arithmetic of two_way_concat, one_bit_selects, _direct_connect_outputs_pass, two_way_fanout, _make_tree '
           '(Gen/LowerGuards.v) are regenerated from passes.py on every run; every other statement of those '
           'functions is pinned by a textual skeleton template (any other edit = untranslatable = broken tie); '
           'Props/C09_bridge.v identifies each generated guard with the one Pass/Lower.v uses',
           'Pass/Lower.v: the control skeleton of net_transform and of the two graph edits (hand-written, tied '
           'structurally and behaviourally on every case)',
           'Pass/Lower.v postcondition predicates (post_*: allowed op sets, concat arity <= 2, one-index '
           'selects, no non-truncating w-net before an Output whose source has no other reader and an eligible (not @ / r) producer, fan-out <= 2) as the reading of the '
           'pass docstrings',
           'Netlist/Sanity.v sanity_block as the reading of Block.sanity_check (C10)']
ASSUMPTIONS = ['the decidable hypotheses of the Props/C09.v theorems (Pass/LowerHyps.v: sanity_block, lower_okb, '
               'unique wire names, dco_okb, fanout_okb) are evaluated on every design and must hold (a false one is '
               'reported as a broken tie); C09_two_way_fanout_preserves additionally assumes in-range cycle-start '
               'values (legal_run), which the generated stimulus satisfies',
               'designs of weight > 300 (nets + select indices) get the single passes and pairs only (the quadratic '
               'well-formedness models would take minutes under repeated one_bit_selects)',
               'ROM contents are tabulated at dump time',
               'initial register/memory values, inputs and default_value are within range',
               'zero-extension inside `dest <<= x` of a rewrite rule is unreachable on sanity-checked '
               'blocks (destination never wider than the natural result) and is not modelled',
               'designs are restored between pass sequences by re-installing block.logic / '
               'wirevector_set / wirevector_by_name snapshots (passes mutate nothing else)']

HYPS = ['sanity_block', 'lower_okb', 'unique_names', 'dco_okb', 'fanout_okb']
PASSES = {1: 'nand_synth', 2: 'and_inverter_synth', 3: 'two_way_concat', 4: 'one_bit_selects',
          5: 'direct_connect_outputs', 6: 'two_way_fanout'}
OPCH = {119: 'w', 126: '~', 38: '&', 124: '|', 94: '^', 110: 'n', 43: '+', 45: '-', 42: '*', 60: '<',
        62: '>', 61: '=', 120: 'x', 99: 'c', 115: 's', 114: 'r', 109: 'm', 64: '@'}
ALLOWED = {1: set('~nrwcsm@'), 2: set('~&rwcsm@')}
# documented precondition of the gate-basis passes: a post-synthesis / decomposed block, i.e. only
# gate primitives (including the basis gates themselves) and structural ops; the other passes accept any block
DOC_PRE = {1: set('&|^~n' + 'rwcsm@'), 2: set('&|^~n' + 'rwcsm@')}
LOGIC_OPS = ['&', '|', '^', '~', 'nand', 'concat', 'slice', 'index', 'const', 'trunc', 'zext', 'sext',
             'memrd', 'romrd']


# ----------------------------------------------------------------------------
# designs

def snapshot(block):
    return (set(block.logic), set(block.wirevector_set), dict(block.wirevector_by_name))


def restore(block, snap):
    block.logic = set(snap[0])
    block.wirevector_set = set(snap[1])
    block.wirevector_by_name = dict(snap[2])


def inject_raw(rng, block):
    """raw LogicNets (legal per sanity_check_net) whose destination is narrower than the natural result"""
    made = 0
    for k in range(rng.randint(1, 3)):
        cands = [w for w in block.wirevector_set
                 if not isinstance(w, (pyrtl.Output, pyrtl.Const)) and 2 <= len(w) <= 64]
        if not cands:
            return made
        cands.sort(key=lambda w: w.name)
        a = rng.choice(cands)
        kind = rng.choice(['s', 's', 'g', 'c', 'wout', 'mout'])
        if kind == 's':
            n = rng.randint(2, 5)
            idx = tuple(rng.randrange(len(a)) for _ in range(n))
            d = pyrtl.WireVector(rng.randint(1, n - 1))
            block.add_net(pyrtl.LogicNet('s', idx, (a,), (d,)))
        elif kind == 'g':
            same = [w for w in cands if len(w) == len(a)]
            b = rng.choice(same)
            d = pyrtl.WireVector(rng.randint(1, len(a) - 1))
            block.add_net(pyrtl.LogicNet(rng.choice('&|^n'), None, (a, b), (d,)))
        elif kind == 'c':
            parts = tuple(rng.choice(cands) for _ in range(rng.randint(3, 4)))
            tot = sum(len(p) for p in parts)
            if tot > 200:
                continue
            d = pyrtl.WireVector(rng.randint(1, tot - 1))
            block.add_net(pyrtl.LogicNet('c', None, parts, (d,)))
        elif kind == 'wout':
            t = ~a
            o = pyrtl.Output(rng.randint(1, len(a) - 1), 'rawo%d' % k)
            block.add_net(pyrtl.LogicNet('w', None, (t,), (o,)))
            made += 1
            continue
        else:
            mems = sorted({n.op_param[1] for n in block.logic if n.op == 'm'
                           and n.op_param[1].bitwidth >= 2}, key=lambda m: m.name)
            if not mems:
                continue
            m = rng.choice(mems)
            addr = gen_designs.fit(rng, a, m.addrwidth)
            t = pyrtl.as_wires(m[addr])
            o = pyrtl.Output(rng.randint(1, m.bitwidth - 1), 'rawo%d' % k)
            block.add_net(pyrtl.LogicNet('w', None, (t,), (o,)))
            made += 1
            continue
        o = pyrtl.Output(len(d), 'rawo%d' % k)
        o <<= d
        made += 1
    return made


def directed_design(rng, j):
    """small designs aimed at direct_connect_outputs / two_way_fanout / the gate rules"""
    pyrtl.reset_working_block()
    which = j % 6
    if which == 0:      # F4 shape: register (and input, const) feeding Outputs directly
        w = rng.choice([1, 2, 5])
        i = pyrtl.Input(w, 'i')
        r = pyrtl.Register(w, 'r', reset_value=rng.choice([None, 1]))
        r.next <<= i
        o = pyrtl.Output(w, 'o')
        o <<= r
        o2 = pyrtl.Output(w, 'o2')
        o2 <<= i
        o3 = pyrtl.Output(3, 'o3')
        o3 <<= pyrtl.Const(5, bitwidth=3)
    elif which == 1:    # memory read / rom read feeding Outputs directly, register read twice
        i = pyrtl.Input(2, 'i')
        m = pyrtl.MemBlock(bitwidth=4, addrwidth=2, name='m', asynchronous=True)
        r = pyrtl.Register(4, 'r')
        o = pyrtl.Output(4, 'o')
        o <<= m[i]
        m[i] <<= pyrtl.MemBlock.EnabledWrite(r, i[0])
        r.next <<= r + 1
        o2 = pyrtl.Output(4, 'o2')
        o2 <<= r
    elif which == 2:    # high fan-out, same wire twice in one net
        w = rng.choice([1, 3, 8])
        a = pyrtl.Input(w, 'a')
        b = pyrtl.Input(w, 'b')
        t = a ^ b
        k = rng.randint(3, 9)
        acc = t & t
        for _ in range(k):
            acc = (acc | t) if rng.random() < 0.5 else pyrtl.concat(acc, t, t)[:w]
        o = pyrtl.Output(len(acc), 'o')
        o <<= acc
        o2 = pyrtl.Output(w, 'o2')
        o2 <<= a
        o3 = pyrtl.Output(w, 'o3')
        o3 <<= a & pyrtl.Const(1, bitwidth=w)
    elif which == 3:    # chains of w nets into outputs, shared and unshared
        a = pyrtl.Input(3, 'a')
        t1 = pyrtl.WireVector(3, 't1')
        t1 <<= ~a
        t2 = pyrtl.WireVector(3, 't2')
        t2 <<= t1
        o = pyrtl.Output(3, 'o')
        o <<= t2
        u = a + 1
        o2 = pyrtl.Output(4, 'o2')
        o2 <<= u
        o3 = pyrtl.Output(4, 'o3')
        o3 <<= u
        o4 = pyrtl.Output(1, 'o4')
        o4 <<= a < 3
    else:               # one gate, all input pairs
        w = [1, 2, 3][(j // 6) % 3]
        opn = ['&', '|', '^', 'n'][(j // 18) % 4] if which == 4 else rng.choice(['&', '|', '^', 'n', '~'])
        a = pyrtl.Input(w, 'a')
        b = pyrtl.Input(w, 'b')
        o = pyrtl.Output(w, 'o')
        o <<= {'&': lambda: a & b, '|': lambda: a | b, '^': lambda: a ^ b, 'n': lambda: a.nand(b),
               '~': lambda: ~a ^ b}[opn]()
    return pyrtl.working_block()


N_SHAPES = 12


def raw_select(block, src, idx, name):
    d = pyrtl.WireVector(len(idx))
    block.add_net(pyrtl.LogicNet('s', tuple(idx), (src,), (d,)))
    o = pyrtl.Output(len(idx), name)
    o <<= d
    return o


def same_arg_gates(x, prefix, extra=None):
    """every 2-input gate op applied to THE SAME wire object, each feeding an Output"""
    w = len(x)
    for nm, f in (('and', lambda: x & x), ('or', lambda: x | x), ('xor', lambda: x ^ x),
                  ('nand', lambda: x.nand(x))):
        o = pyrtl.Output(w, '%s_%s' % (prefix, nm))
        o <<= f()
    if extra is not None:
        o = pyrtl.Output(w, '%s_mix' % prefix)
        o <<= ((x ^ x) | extra) & (x.nand(x))


def shapes_design(j):
    """always-run directed designs (both tiers), exhaustive stimulus:
       0..4 gates with identical arguments (1-bit, multi-bit, on inputs, on intermediates, produced by
            CSE in optimize(), post-synthesis);  5..7 full-width permuting selects (reverse / rotate /
            swizzle / duplicates) of Inputs and Registers next to identity, partial and 1-bit selects;
       8..10 constant operands in every position of n-ary concats, selects of constants, constants through
            gates, muxes with constant data;  11 several memory write ports (banked + dual-port) reading
            high-fan-out wires"""
    pyrtl.reset_working_block()
    block = pyrtl.working_block()
    if j == 0:
        t = pyrtl.Input(1, 't')
        u = pyrtl.Input(1, 'u')
        same_arg_gates(t, 'in', extra=u)
    elif j == 1:
        a = pyrtl.Input(1, 'a')
        b = pyrtl.Input(1, 'b')
        same_arg_gates(a & b, 'x', extra=b)
        same_arg_gates(a ^ b, 'y')
        same_arg_gates(~a, 'z')
    elif j in (2, 4):
        w = 1 if j == 2 else 2
        a = pyrtl.Input(w, 'a')
        b = pyrtl.Input(w, 'b')
        for nm, f in (('xor_and', lambda: (a & b) ^ (b & a)), ('nand_or', lambda: (a | b).nand(b | a)),
                      ('and_xor', lambda: (a ^ b) & (b ^ a)), ('or_and', lambda: (a & b) | (b & a)),
                      ('xor_nand', lambda: a.nand(b) ^ b.nand(a))):
            o = pyrtl.Output(w, nm)
            o <<= f()
        if j == 4:
            pyrtl.synthesize()
        pyrtl.optimize()        # common-subexpression elimination merges x op y with y op x
        block = pyrtl.working_block()
    elif j == 3:
        a = pyrtl.Input(3, 'a')
        b = pyrtl.Input(3, 'b')
        same_arg_gates(a, 'in', extra=b)
        same_arg_gates(a & b, 'x')
    elif j == 8:
        # constant operands in EVERY position of n-ary concats (3..5 operands): all-zero, all-ones and
        # arbitrary Consts least-significant, in the middle and most-significant; several at once
        a = pyrtl.Input(2, 'a')
        b = pyrtl.Input(3, 'b')
        consts = {'z': lambda w: pyrtl.Const(0, bitwidth=w), 'o': lambda w: pyrtl.Const((1 << w) - 1, bitwidth=w),
                  'x': lambda w: pyrtl.Const(5 & ((1 << w) - 1), bitwidth=w)}
        k = 0
        for cn, mk in sorted(consts.items()):
            for pos, parts in (('ls', lambda c: (a, b, c)), ('mid', lambda c: (a, c, b)), ('ms', lambda c: (c, a, b))):
                for cw in (1, 4):
                    parts_ = parts(mk(cw))
                    o = pyrtl.Output(sum(len(q) for q in parts_), 'c3_%s_%s_%d' % (cn, pos, cw))
                    o <<= pyrtl.concat(*parts_)
                    k += 1
        z, o1, x = consts['z'], consts['o'], consts['x']
        for nm, parts_ in (('c4_zz_ls', (a, b, z(2), z(3))), ('c4_z_ms_ls', (z(2), a, b, z(1))),
                           ('c4_zmid', (a, z(2), z(1), b)), ('c5_mix', (z(1), a, o1(2), b, z(2))),
                           ('c5_alt', (a, z(1), b, x(3), z(4))), ('c4_ones_ls', (b, a, o1(1), o1(2))),
                           ('c3_allconst', (z(2), x(3), z(1))), ('c4_same', (a, z(2), a, z(2)))):
            o = pyrtl.Output(sum(len(q) for q in parts_), nm)
            o <<= pyrtl.concat(*parts_)
    elif j == 9:
        # selects of constants (reverse, duplicates, partial), constants through gates
        a = pyrtl.Input(3, 'a')
        c = pyrtl.Const(0b1011, bitwidth=4)
        o = pyrtl.Output(4, 'k_rev')
        o <<= c[::-1]
        o = pyrtl.Output(2, 'k_part')
        o <<= c[1:3]
        o = pyrtl.Output(1, 'k_bit')
        o <<= c[3]
        raw_select(block, c, [0, 0, 3, 1, 2], 'k_dup')
        raw_select(block, pyrtl.Const(0, bitwidth=3), [2, 1, 0], 'k_zero')
        o = pyrtl.Output(3, 'g_and')
        o <<= a & pyrtl.Const(5, bitwidth=3)
        o = pyrtl.Output(3, 'g_or0')
        o <<= a | pyrtl.Const(0, bitwidth=3)
        o = pyrtl.Output(3, 'g_xor1')
        o <<= a ^ pyrtl.Const(7, bitwidth=3)
        o = pyrtl.Output(3, 'g_nand')
        o <<= a.nand(pyrtl.Const(6, bitwidth=3))
        o = pyrtl.Output(7, 'k_cat_sel')
        o <<= pyrtl.concat(a[0], c[::-1], a[1:])
    elif j == 11:
        # several memory write ports -- three memories written at the SAME address under the SAME enable (a
        # banked memory) and one memory with two ports at provably distinct addresses -- all reading
        # high-fan-out wires; read ports on Outputs
        addr = pyrtl.Input(2, 'addr')
        we = pyrtl.Input(1, 'we')
        d = pyrtl.Input(2, 'd')
        banks = [pyrtl.MemBlock(bitwidth=2, addrwidth=2, name='bank%d' % k, max_write_ports=None,
                                max_read_ports=None, asynchronous=True) for k in range(3)]
        for k, m in enumerate(banks):
            m[addr] <<= pyrtl.MemBlock.EnabledWrite(d ^ pyrtl.Const(k, bitwidth=2), we)
            o = pyrtl.Output(2, 'rd%d' % k)
            o <<= m[addr]
        dual = pyrtl.MemBlock(bitwidth=2, addrwidth=3, name='dual', max_write_ports=None,
                              max_read_ports=None, asynchronous=True)
        dual[pyrtl.concat(addr, pyrtl.Const(0, bitwidth=1))] <<= pyrtl.MemBlock.EnabledWrite(d, we)
        dual[pyrtl.concat(addr, pyrtl.Const(1, bitwidth=1))] <<= pyrtl.MemBlock.EnabledWrite(~d, we)
        o = pyrtl.Output(2, 'rdd')
        o <<= dual[pyrtl.concat(d[0], addr)]
        o = pyrtl.Output(1, 'we_o')
        o <<= we & addr[0]
    elif j == 10:
        # muxes with constant data / constant select, feeding concats with constants
        a = pyrtl.Input(3, 'a')
        s = pyrtl.Input(1, 's')
        c5 = pyrtl.Const(5, bitwidth=3)
        o = pyrtl.Output(3, 'm_ct')
        o <<= pyrtl.select(s, c5, a)
        o = pyrtl.Output(3, 'm_cf')
        o <<= pyrtl.select(s, a, pyrtl.Const(0, bitwidth=3))
        o = pyrtl.Output(3, 'm_cc')
        o <<= pyrtl.select(s, c5, pyrtl.Const(2, bitwidth=3))
        o = pyrtl.Output(3, 'm_cs')
        o <<= pyrtl.select(pyrtl.Const(1, bitwidth=1), a, c5)
        o = pyrtl.Output(8, 'm_cat')
        o <<= pyrtl.concat(pyrtl.select(s, a, c5), pyrtl.Const(0, bitwidth=2), pyrtl.select(s, c5, a))
    else:
        a = pyrtl.Input(4 if j < 7 else 3, 'a')
        n = len(a)
        srcs = [('a', a)]
        if j >= 6:
            r = pyrtl.Register(n, 'r', reset_value=(5 if j == 6 else None))
            r.next <<= a
            srcs.append(('r', r))
        if j == 7:
            srcs.append(('t', ~a))
            b1 = pyrtl.Input(1, 'b1')
            srcs.append(('b1', b1))
        for nm, src in srcs:
            m = len(src)
            o = pyrtl.Output(m, nm + '_rev')
            o <<= src[::-1]
            o = pyrtl.Output(m, nm + '_id')
            o <<= src[:]
            raw_select(block, src, [(k + 1) % m for k in range(m)], nm + '_rotl')
            raw_select(block, src, [(k - 1) % m for k in range(m)], nm + '_rotr')
            raw_select(block, src, [(2 * k + 1) % m if m % 2 else (k ^ 1) % m for k in range(m)], nm + '_swz')
            raw_select(block, src, [0] * m, nm + '_dup0')
            raw_select(block, src, [m - 1] + list(range(m - 1)) if m > 1 else [0], nm + '_msbfirst')
            raw_select(block, src, [k // 2 for k in range(m)], nm + '_dupl')
            if m > 1:
                o = pyrtl.Output(m - 1, nm + '_part')
                o <<= src[1:]
                o = pyrtl.Output(1, nm + '_bit')
                o <<= src[m - 1]
                raw_select(block, src, [m - 1, 0], nm + '_ends')
                raw_select(block, src, list(range(m)) + [0], nm + '_wider')
    return block


def make_decoy():
    """a small design that every one of the six passes changes visibly; it is the WORKING block while
    a pass is applied to another block given explicitly with block=b"""
    pyrtl.reset_working_block()
    a = pyrtl.Input(2, 'da')
    b = pyrtl.Input(2, 'db')
    t = a ^ b
    o1 = pyrtl.Output(2, 'do1')
    o1 <<= (t | a) & t.nand(b)
    o2 = pyrtl.Output(6, 'do2')
    o2 <<= pyrtl.concat(a, t, b)
    o3 = pyrtl.Output(2, 'do3')
    o3 <<= pyrtl.concat(a, b)[::2]
    o4 = pyrtl.Output(2, 'do4')
    o4 <<= t
    blk = pyrtl.working_block()
    blk.sanity_check()
    return blk, snapshot(blk)


def fingerprint(block):
    return (frozenset(str(n) for n in block.logic), frozenset(w.name for w in block.wirevector_set))


def huge_design(rng, j):
    """very wide n-ary primitives (about a thousand operands / indices / readers) through every pass"""
    pyrtl.reset_working_block()
    n = 1100 + 100 * (j % 2)
    a = pyrtl.Input(n, 'a')
    b = pyrtl.Input(1, 'b')
    if j % 2 == 0:
        # an n-operand concat of single bits (rotated), an n-index select (reversed), a wire read ~n/2 times
        o = pyrtl.Output(n, 'bus')
        o <<= pyrtl.concat_list([a[(k + 7) % n] for k in range(n)])
        o2 = pyrtl.Output(n, 'rev')
        o2 <<= a[::-1]
        o3 = pyrtl.Output(n // 2 + 3, 'fan')
        o3 <<= pyrtl.concat(*([b] * (n // 2) + [a[0:3]]))
    else:
        # n-operand concat mixing constants, 1-bit and multi-bit operands; wide gate operands; a register bus
        parts = []
        k = 0
        while len(parts) < n - 100:
            w = 1 + (len(parts) % 3 == 0)
            parts.append(pyrtl.Const(len(parts) & 1, bitwidth=1) if len(parts) % 97 == 5 else a[k:k + w])
            k = (k + w) % (n - 2)
        o = pyrtl.Output(sum(len(q) for q in parts), 'bus')
        o <<= pyrtl.concat(*parts)
        r = pyrtl.Register(n, 'r')
        r.next <<= a ^ r
        o2 = pyrtl.Output(n, 'acc')
        o2 <<= r & a.nand(r)
    return pyrtl.working_block()


def build_design(ctx, i, kind):
    rng = ctx.sub_rng('design', i, kind)
    exhaustive = False
    if kind == 'generic':
        gen_designs.make_design(rng, wide_prob=0.12, n_ops=rng.randint(4, 14))
    elif kind == 'synth':
        gen_designs.make_design(rng, wide_prob=0.0, max_width=rng.choice([2, 3]), n_ops=rng.randint(2, 5),
                                allow_rom=False)
        pyrtl.synthesize()
    elif kind == 'logic':
        gen_designs.make_design(rng, wide_prob=0.2, n_ops=rng.randint(4, 12), ops_subset=LOGIC_OPS)
    elif kind == 'raw':
        gen_designs.make_design(rng, wide_prob=0.05, n_ops=rng.randint(3, 9))
        inject_raw(rng, pyrtl.working_block())
    elif kind == 'directed':
        directed_design(rng, i)
        exhaustive = (i % 6 >= 4)
    elif kind == 'shapes':
        shapes_design(i)
        exhaustive = True
    elif kind == 'huge':
        huge_design(rng, i)
    block = pyrtl.working_block()
    block.sanity_check()
    return block, rng, exhaustive


def make_stimulus(rng, block, ncycles, exhaustive):
    regs = sorted(block.wirevector_subset(pyrtl.Register), key=lambda w: w.name)
    ins = sorted(block.wirevector_subset(pyrtl.Input), key=lambda w: w.name)
    mems = sorted({n.op_param[1] for n in block.logic if n.op in 'm@'
                   and not isinstance(n.op_param[1], pyrtl.RomBlock)}, key=lambda m: m.id)
    regmap = {r: gen_designs.boundary_value(rng, len(r)) for r in regs if rng.random() < 0.4}
    memmap = {}
    for m in mems:
        if rng.random() < 0.6:
            memmap[m] = {a: gen_designs.boundary_value(rng, m.bitwidth)
                         for a in range(1 << m.addrwidth) if rng.random() < 0.5}
    inputs = []
    if exhaustive and sum(len(w) for w in ins) <= 6:
        tot = sum(len(w) for w in ins)
        for v in range(1 << tot):
            step = {}
            for w in ins:
                step[w.name] = v & ((1 << len(w)) - 1)
                v >>= len(w)
            inputs.append(step)
    else:
        for _ in range(ncycles):
            inputs.append({w.name: gen_designs.boundary_value(rng, len(w)) for w in ins})
    return regs, ins, mems, regmap, memmap, inputs


# ----------------------------------------------------------------------------
# running the real passes

def run_real(block, ps, views=None, watch=None, observe=None, opsets=None):
    """returns (raised_at, error) ; raised_at = index of the pass that raised PyrtlError, or None.
    watch = (decoy block, its fingerprint, list): the passes that changed the decoy are appended;
    observe(k) is called after every pass but the last (the caller observes the final block itself)"""
    for k, p in enumerate(ps):
        if views is not None and k == len(ps) - 1:
            views.append(real_view(block))
        if opsets is not None:
            opsets.append(''.join(sorted({n.op for n in block.logic})))
        try:
            getattr(pyrtl, PASSES[p])(block=block)
        except (pyrtl.PyrtlError, pyrtl.PyrtlInternalError) as e:
            return k, str(e)
        except Exception as e:   # anything else (RecursionError, KeyError, ...) is never a legitimate outcome
            return k, 'UNEXPECTED %s: %s' % (type(e).__name__, str(e)[:200])
        finally:
            if watch is not None and fingerprint(watch[0]) != watch[1] and not watch[2]:
                watch[2].append(p)
        if observe is not None and k < len(ps) - 1:
            observe(k)
    return None, None


def simulate(block, regmap, memmap, inputs, dflt, outs, mems):
    tracer = pyrtl.SimulationTrace(block=block)
    keyof = {}
    if isinstance(block, pyrtl.PostSynthBlock):
        # Simulation looks memories up through block.mem_map on a PostSynthBlock
        keyof = {v: k for k, v in block.mem_map.items()}
    sim = pyrtl.Simulation(tracer=tracer, register_value_map=dict(regmap),
                           memory_value_map={keyof.get(m, m): dict(c) for m, c in memmap.items()},
                           default_value=dflt, block=block)
    for step in inputs:
        sim.step(dict(step))
    trace = [[tracer.trace[o][t] for o in outs] for t in range(len(inputs))]
    memv = [sim.memvalue[m.id].get(a, dflt) if m.id in sim.memvalue else dflt
            for m in mems for a in range(1 << m.addrwidth)]
    return trace, memv


def fanout_counts(nets):
    c = collections.Counter()
    for op, params, args, dest in nets:
        for a in args:
            c[a] += 1
    return c


def real_view(block):
    wires = {}
    for w in block.wirevector_set:
        if isinstance(w, pyrtl.Input):
            k = (1, 0)
        elif isinstance(w, pyrtl.Output):
            k = (2, 0)
        elif isinstance(w, pyrtl.Const):
            k = (3, w.val)
        elif isinstance(w, pyrtl.Register):
            k = (4, 0) if w.reset_value is None else (5, w.reset_value)
        else:
            k = (0, 0)
        wires[w.name] = (w.bitwidth,) + k
    nets = []
    for n in block.logic:
        if n.op == 's':
            params = tuple(n.op_param)
        elif n.op in 'm@':
            params = (n.op_param[0],)
        else:
            params = ()
        nets.append((n.op, params, tuple(a.name for a in n.args), n.dests[0].name if n.dests else None))
    return wires, nets


def model_view(rows, names):
    """rows = c09_case result; returns (flags, wires, nets, spec rows) with wire ids mapped to
    original names (old wires) or ('t', id) (fresh)"""
    flags = rows[0]
    nw, nn = flags[3], flags[4]
    N = len(names)

    def nm(i):
        return names[i - 1] if 1 <= i <= N else ('t', i)
    wires = {}
    order = []
    for r in rows[1:1 + nw]:
        wires[nm(r[0])] = (r[1], r[2], r[3])
        order.append(nm(r[0]))
    nets = []
    for r in rows[1 + nw:1 + nw + nn]:
        op = OPCH[r[0]]
        k = r[2]
        args = tuple(nm(a) for a in r[3:3 + k])
        params = tuple(r[3 + k:])
        nets.append((op, params, args, None if op == '@' else nm(r[1])))
    return flags, wires, order, nets, rows[1 + nw + nn:]


class Canon(object):
    """canonical form of a netlist up to the names of non-original wires"""

    def __init__(self, oldnames):
        self.old = set(oldnames)
        self.intern = {}

    def iid(self, t):
        v = self.intern.get(t)
        if v is None:
            v = len(self.intern)
            self.intern[t] = v
        return v

    def canon(self, wires, nets, collapse_w_trees=False):
        driver = {}
        for n in nets:
            if n[3] is not None:
                driver.setdefault(n[3], n)
        memo = {}
        tree = set()
        if collapse_w_trees:
            for n in nets:
                if n[0] == 'w' and n[3] not in self.old:
                    tree.add(n[3])

        def key(w):
            if w in self.old and isinstance(w, str):
                return self.iid(('o', w))
            if w in memo:
                return memo[w]
            memo[w] = -1
            n = driver.get(w)
            if n is None:
                k = self.iid(('undriven', wires.get(w, (0,))[0]))
            elif collapse_w_trees and w in tree:
                k = key(n[2][0])
            else:
                k = self.iid(('t', n[0], n[1], tuple(key(a) for a in n[2]), wires.get(w, (0,))[0]))
            memo[w] = k
            return k
        cn = collections.Counter()
        for n in nets:
            if collapse_w_trees and n[3] in tree:
                continue
            cn[(n[0], n[1], tuple(key(a) for a in n[2]), None if n[3] is None else key(n[3]))] += 1
        cw = collections.Counter()
        for w, info in wires.items():
            if collapse_w_trees and w in tree:
                continue
            cw[(key(w),) + tuple(info)] += 1
        return cn, cw


def census(wires, nets):
    ops = collections.Counter(n[0] for n in nets)
    fo = fanout_counts(nets)
    fod = collections.Counter(fo.get(w, 0) for w, info in wires.items() if info[1] != 2)
    return {'ops': dict(ops),
            'concat_arity': dict(collections.Counter(len(n[2]) for n in nets if n[0] == 'c')),
            'select_len': dict(collections.Counter(len(n[1]) for n in nets if n[0] == 's')),
            'fanout': dict(fod), 'nwires': len(wires), 'nnets': len(nets)}


def post_real(p, wires, nets):
    """postcondition census of pass p on a (real) netlist view -> list of (tag, detail)"""
    bad = []
    if p in (1, 2):
        extra = sorted({n[0] for n in nets} - ALLOWED[p])
        if extra:
            bad.append(('ops-left', ''.join(extra)))
    elif p == 3:
        m = [len(n[2]) for n in nets if n[0] == 'c' and len(n[2]) > 2]
        if m:
            bad.append(('concat-arity', max(m)))
    elif p == 4:
        m = [len(n[1]) for n in nets if n[0] == 's' and len(n[1]) != 1]
        if m:
            bad.append(('multi-index-select', max(m)))
    elif p == 5:
        rd = collections.defaultdict(list)
        for n in nets:
            for a in set(n[2]):
                rd[a].append(n)
        for n in nets:
            if n[0] in '@r' or n[3] is None:    # producers the pass documents as not retargetable
                continue
            r = rd.get(n[3], [])
            if len(r) == 1 and r[0][0] == 'w' and wires.get(r[0][3], (0, 0))[1] == 2 \
                    and wires[r[0][3]][0] == wires.get(n[3], (None,))[0]:   # a truncating w net is not redundant
                bad.append(('w-before-output', (n, r[0])))
                break
    elif p == 6:
        fo = fanout_counts(nets)
        m = [c for w, c in fo.items() if wires.get(w, (0, 0))[1] != 2 and c > 2]
        if m:
            bad.append(('fanout', max(m)))
    return bad


# ----------------------------------------------------------------------------

def pass_sequences(ctx, rng, kind, i=0):
    """every single pass; each pass applied TWICE; ordered pairs; longer sequences with repetition
    (p,q,p / random length 3-4), e.g. two_way_fanout, nand_synth, two_way_fanout"""
    quick = ctx.tier == 'quick'
    small = kind in ('synth', 'logic', 'directed', 'shapes')
    singles = [[p] for p in range(1, 7)]
    repeats = [[p, p] for p in range(1, 7)]
    pairs = [[p, q] for p in range(1, 7) for q in range(1, 7) if p != q]
    sandwiches = [[p, q, p] for p in range(1, 7) for q in range(1, 7) if p != q]
    if quick:
        repeats = [repeats[(i + k) % 6] for k in (0, 3)] if i % 2 else [repeats[5], repeats[(i // 2) % 5]]
        pairs = rng.sample(pairs, 2)
        longer = [rng.choice(sandwiches)] + ([[rng.randint(1, 6) for _ in range(rng.randint(3, 4))]] if i % 2 else [])
    else:
        pairs = rng.sample(pairs, 12 if small else 8)
        longer = rng.sample(sandwiches, 4 if small else 3) + \
            [[rng.randint(1, 6) for _ in range(rng.randint(3, 5))] for _ in range(2)]
    return singles + repeats + pairs + longer


def robust_eval(ctx, exprs, imports, tag, shard, jobs):
    """ctx.coq_eval, but a shard that fails for load / timeout reasons does not abort the run: after a
    failure one expression is probed (twice) to tell a broken model from a transient failure, then the
    list is re-evaluated by bisection, single expressions being retried up to three times"""
    try:
        return ctx.coq_eval(exprs, imports, tag=tag, shard=shard, jobs=jobs)
    except Exception as first:
        probe_err = None
        for attempt in range(2):
            try:
                ctx.coq_eval(exprs[:1], imports, tag=tag + '_probe', shard=1, jobs=1)
                probe_err = None
                break
            except Exception as e:
                probe_err = e
        if probe_err is not None:
            raise first                      # nothing evaluates: the model itself is broken
        ctx.count('coq_eval_retries', tag)

        def go(lo, hi, depth):
            part = exprs[lo:hi]
            for attempt in range(1 if len(part) > 1 else 3):
                try:
                    return ctx.coq_eval(part, imports, tag='%s_r%d_%d' % (tag, depth, lo),
                                        shard=max(1, min(shard >> (depth + 1), len(part))), jobs=jobs)
                except Exception as e:
                    err = e
            if len(part) == 1:
                raise err
            mid = (lo + hi) // 2
            return go(lo, mid, depth + 1) + go(mid, hi, depth + 1)
        return go(0, len(exprs), 0)


def run(ctx):
    quick = ctx.tier == 'quick'
    plan = [('shapes', N_SHAPES), ('huge', 1 if quick else 2)] + (
        [('directed', 16), ('generic', 8), ('synth', 4), ('logic', 6), ('raw', 6)] if quick else
        [('directed', 60), ('generic', 90), ('synth', 40), ('logic', 60), ('raw', 60)])
    decoy, decoy_snap = make_decoy()
    decoy_fp = fingerprint(decoy)
    cases = []
    exprs = []
    spec_exprs = []
    extra_exprs = []       # spec_case of real results (sampled)
    extra_ref = []
    sample_real = 2 if quick else 3
    for kind, cnt in plan:
        for i in range(cnt):
            try:
                block, rng, exhaustive = build_design(ctx, i, kind)
            except (pyrtl.PyrtlError, pyrtl.PyrtlInternalError) as e:
                ctx.count('design_build_errors', str(e)[:60])
                continue
            marks = (len(cases), len(exprs), len(spec_exprs), len(extra_exprs), len(extra_ref))
            try:
                ncyc = rng.randint(2, 6 if quick else 12)
                dflt = 0 if rng.random() < 0.8 else 1
                regs, ins, mems, regmap, memmap, inputs = make_stimulus(rng, block, ncyc, exhaustive)
                dump = nlx.Dump(block)
                names = dump.names()
                outs = sorted(w.name for w in block.wirevector_subset(pyrtl.Output))
                in_names = sorted(w.name for w in ins)
                probes = [(m.id, a) for m in mems for a in range(1 << m.addrwidth)]
                pss = pass_sequences(ctx, rng, kind, i) if kind != 'huge' else [[p] for p in range(1, 7)]
                search_only = kind == 'huge'   # the quadratic well-formedness models would take minutes: no tie
                # wide designs (hundreds of select indices / nets) blow up under repeated one_bit_selects and make the
                # quadratic well-formedness models take minutes: keep every single pass and the pairs, drop the rest
                weight = len(block.logic) + sum(len(n.op_param) for n in block.logic if n.op == 's')
                if weight > 300:
                    pss = [ps for ps in pss if len(ps) == 1 or (len(ps) == 2 and ps.count(4) == 0)][:12]
                    ctx.count('heavy_designs_with_reduced_sequences', kind)
                stim = '%d %s %s %s %s' % (dflt, dump.regmap(regmap), dump.memmap(memmap),
                                            dump.inputs(inputs), nlx.pairs(probes))
                spec_exprs.append('spec_case %s %s' % (dump.coq(), stim))
                if search_only:
                    exprs.append('[ref_case %s %s]' % (dump.coq(), stim))
                else:
                    exprs.append('c09_multi [%s] %s %s' % (
                        '; '.join('[' + '; '.join(str(p) for p in ps) + ']' for ps in pss), dump.coq(), stim))
                snap = snapshot(block)
                orig_w, orig_n = real_view(block)
                runs = []
                for si, ps in enumerate(pss):
                    restore(block, snap)
                    # half of the cases: the block is passed explicitly (block=b) while a DECOY is the working block
                    explicit = (len(cases) + si) % 2 == 1
                    if explicit:
                        restore(decoy, decoy_snap)
                        pyrtl.set_working_block(decoy, no_sanity_check=True)
                    else:
                        pyrtl.set_working_block(block, no_sanity_check=True)
                    views = []
                    culprit = []
                    steps = []

                    def observe(k, steps=steps):
                        """well-formedness, I/O names and behaviour after EVERY step of the sequence"""
                        stp = {'k': k, 'sane': True, 'sane_err': None, 'trace': None, 'mem': None}
                        try:
                            block.sanity_check()
                        except Exception as e:
                            stp['sane'], stp['sane_err'] = False, '%s: %s' % (type(e).__name__, e)
                        stp['io'] = (sorted(w.name for w in block.wirevector_subset(pyrtl.Input)),
                                     sorted(w.name for w in block.wirevector_subset(pyrtl.Output)))
                        if stp['sane']:
                            try:
                                stp['trace'], stp['mem'] = simulate(block, regmap, memmap, inputs, dflt, outs, mems)
                            except Exception as e:
                                stp['sane'], stp['sane_err'] = False, 'Simulation: %s: %s' % (type(e).__name__, e)
                        steps.append(stp)
                    opsets = []
                    raised_at, err = run_real(block, ps, views, (decoy, decoy_fp, culprit) if explicit else None,
                                              observe, opsets)
                    if explicit:
                        ctx.count('block_argument', 'explicit block= with a decoy working block')
                        if fingerprint(decoy) != decoy_fp:
                            ctx.spec_violation('%s:decoy-working-block-changed' % PASSES[(culprit or ps)[0]],
                                               'passes %s applied with block=b changed the unrelated working block '
                                               '(block argument not honoured)' % [PASSES[p] for p in ps],
                                               {'seed': ctx.seed, 'design': i, 'kind': kind,
                                                'passes': [PASSES[p] for p in ps],
                                                'decoy_before': sorted(decoy_fp[0]),
                                                'decoy_after': sorted(str(n) for n in decoy.logic)})
                            restore(decoy, decoy_snap)
                        pyrtl.set_working_block(block, no_sanity_check=True)
                    else:
                        ctx.count('block_argument', 'working block')
                    r = {'ps': ps, 'steps': steps, 'opsets': opsets, 'before_last': views[0] if views else None, 'raised_at': raised_at, 'err': err, 'sane': None, 'sane_err': None,
                         'trace': None, 'mem': None}
                    if raised_at is None:
                        try:
                            block.sanity_check()
                            r['sane'] = True
                        except Exception as e:
                            r['sane'] = False
                            r['sane_err'] = '%s: %s' % (type(e).__name__, e)
                        r['wires'], r['nets'] = real_view(block)
                        r['io'] = (sorted(w.name for w in block.wirevector_subset(pyrtl.Input)),
                                   sorted(w.name for w in block.wirevector_subset(pyrtl.Output)))
                        if r['sane']:
                            try:
                                r['trace'], r['mem'] = simulate(block, regmap, memmap, inputs, dflt, outs, mems)
                            except Exception as e:
                                r['sane'] = False
                                r['sane_err'] = 'Simulation: %s: %s' % (type(e).__name__, e)
                            if (i * 7 + si) % 10 < sample_real and 6 not in ps[:-1] and not search_only:
                                try:
                                    d2 = nlx.Dump(block)
                                    regmap2 = {q: v for q, v in regmap.items() if q in d2.wid}
                                    extra_exprs.append('ref_case %s %d %s %s %s %s' % (
                                        d2.coq(), dflt, d2.regmap(regmap2), d2.memmap(memmap),
                                        d2.inputs(inputs), nlx.pairs(probes)))
                                    extra_ref.append((len(cases), si, d2.names()))
                                except (pyrtl.PyrtlError, pyrtl.PyrtlInternalError):
                                    pass
                        # attribution run for the and_inverter xor rule: lower '^' with nand_synth first
                        if 2 in ps and any(n[0] == '^' for n in orig_n):
                            restore(block, snap)
                            ps2 = []
                            for p in ps:
                                ps2 += [1, 2] if p == 2 else [p]
                            ra2, _ = run_real(block, ps2)
                            if ra2 is None:
                                try:
                                    block.sanity_check()
                                    r['alt_trace'], _m = simulate(block, regmap, memmap, inputs, dflt, outs, mems)
                                except (pyrtl.PyrtlError, pyrtl.PyrtlInternalError):
                                    pass
                    runs.append(r)
                restore(block, snap)
                cases.append(dict(search_only=search_only, i=i, kind=kind, names=names, outs=outs, ins=in_names, pss=pss, runs=runs,
                                  orig=(orig_w, orig_n), inputs=inputs, dflt=dflt,
                                  regmap={q.name: v for q, v in regmap.items()},
                                  memmap={m.name: c for m, c in memmap.items()},
                                  nets=[str(n) for n in dump.nets], nprobes=len(probes), dumpkey=dump.coq()))
                ctx.count('design_kinds', kind)
                for n in orig_n:
                    if n[0] in '&|^n' and len(n[2]) == 2 and n[2][0] == n[2][1]:
                        ctx.count('gates_with_identical_arguments', '%s/%d-bit' % (n[0], orig_w[n[2][0]][0]))
                    if n[0] == 's' and len(n[1]) == orig_w[n[2][0]][0] and tuple(n[1]) != tuple(range(len(n[1]))):
                        ctx.count('full_width_permuting_selects',
                                  'register' if orig_w[n[2][0]][1] in (4, 5) else
                                  ('input' if orig_w[n[2][0]][1] == 1 else 'wire'))
                for n in orig_n:
                    ctx.count('ops_before', n[0])
                ctx.count('registers', len(regs))
                ctx.count('memories', len(mems))
            except Exception as e:   # a harness failure on one design must not abort the run (fail closed)
                import traceback
                for lst, n0 in zip((cases, exprs, spec_exprs, extra_exprs, extra_ref), marks):
                    del lst[n0:]
                ctx.model_mismatch('harness error on design %s/%d: %s' % (kind, i, traceback.format_exc()[-600:]),
                                   {'seed': ctx.seed, 'design': i, 'kind': kind})
                try:
                    pyrtl.reset_working_block()
                except Exception:
                    pass
    model_ok = True
    try:
        results = robust_eval(ctx, exprs, IMPORTS, 'c09', 3 if quick else 2, 16)
        extra_res = robust_eval(ctx, extra_exprs, IMPORTS, 'c09real', 12 if quick else 6, 14) if extra_exprs else []
    except Exception as e:      # the model no longer builds (e.g. an untranslatable rule): the SEARCH must still run
        model_ok = False
        ctx.model_mismatch('Pass/Lower.v model could not be evaluated: %s' % str(e)[-500:], {})
        spec_only = robust_eval(ctx, spec_exprs, IMPORTS_SPEC, 'c09spec', 6 if quick else 12, 16)
        results = [[[[1] * len(HYPS)] + sr] for sr in spec_only]
        extra_res, extra_ref = [], []
    extra_by = {}
    for (ci, si, nms), res in zip(extra_ref, extra_res):
        extra_by[(ci, si)] = (nms, res)

    for ci, (c, res) in enumerate(zip(cases, results)):
        try:
            names = c['names']
            oidx = [names.index(o) for o in c['outs']]
            cmodel_ok = model_ok and not c['search_only']
            if model_ok and c['search_only']:
                res = [[[1] * len(HYPS), [1]] + res[0]]     # [ref_case ...]: final memories, then the cycles
            orig = res[0]
            if orig[0][0] != 1 or orig[1][0] != 1:
                ctx.model_mismatch('sanity_block/wfb false on a design accepted by sanity_check()',
                                   {'design': c['i'], 'kind': c['kind'], 'nets': c['nets']})
            # decidable hypotheses of the Props/C09.v theorems, evaluated on this design
            for hname, hval in (zip(HYPS, orig[0]) if cmodel_ok else []):
                ctx.count('theorem_hypotheses', '%s:%s' % (hname, 'holds' if hval == 1 else 'FAILS'))
                if hval != 1:
                    ctx.model_mismatch('theorem hypothesis %s is false on a design accepted by sanity_check()' % hname,
                                       {'design': c['i'], 'kind': c['kind'], 'nets': c['nets']})
            spec_mem = orig[2]
            spec_trace = [[row[k] for k in oidx] for row in orig[3:]]
            canon = Canon(names)
            orig_w, orig_n = c['orig']
            for si, (ps, r) in enumerate(zip(c['pss'], c['runs'])):
                psn = [PASSES[p] for p in ps]
                if cmodel_ok:
                    flags, mw, morder, mn, mspec = model_view(res[1 + si], names)
                    pre_ok = flags[0] == 1
                else:
                    flags = mw = morder = mn = mspec = None
                    pre_ok = None
                rep = {'seed': ctx.seed, 'tier': ctx.tier, 'design': c['i'], 'kind': c['kind'],
                       'passes': psn, 'nets_before': c['nets'], 'inputs': c['inputs'],
                       'regmap': c['regmap'], 'memmap': c['memmap'], 'default_value': c['dflt']}
                changed = r['raised_at'] is None and (collections.Counter(r['nets']) != collections.Counter(orig_n))
                ctx.case((c['dumpkey'], tuple(ps), repr(c['inputs'])),
                         nontrivial=changed or r['raised_at'] is not None,
                         sample=({'design': c['i'], 'kind': c['kind'], 'passes': psn,
                                  'nets_before': c['nets'][:6],
                                  'nets_after': ['%s %s <- %s %s' % (n[3], n[0], ','.join(map(str, n[2])), n[1] or '')
                                                 for n in (r.get('nets') or [])[:8]]}
                                 if ci < 3 and si in (2, 5) else None))
                ctx.count('pass_sequences', '+'.join(psn) if len(ps) == 1 else ('same pass twice' if len(ps) == 2 and ps[0] == ps[1] else ('pair' if len(ps) == 2 else 'length %d' % len(ps))))
                # ---- search: obligations after EVERY intermediate step of the sequence
                for stp in r.get('steps', []):
                    pre = psn[:stp['k'] + 1]
                    if not stp['sane']:
                        ctx.spec_violation('%s:sanity_check' % pre[-1],
                                           'block is not well-formed after step %d of %s (%s): %r' % (
                                               stp['k'] + 1, psn, pre, (stp['sane_err'] or '')[:200]),
                                           dict(rep, passes=pre, then=psn[stp['k'] + 1:]))
                        continue
                    if stp['io'] != (c['ins'], c['outs']):
                        ctx.spec_violation('%s:io-names' % pre[-1], 'Input/Output names changed by %s' % pre,
                                           dict(rep, passes=pre, io_after=stp['io']))
                    if stp['trace'] is not None and (stp['trace'] != spec_trace or stp['mem'] != spec_mem):
                        ctx.spec_violation('%s:behaviour' % '+'.join(pre),
                                           '%s changed behaviour (intermediate step %d of %s)' % (pre, stp['k'] + 1, psn),
                                           dict(rep, passes=pre))
                    ctx.count('intermediate_steps_checked', len(pre))
                # ---- search: a pass must accept every block that meets its documented precondition
                if r['raised_at'] is not None:
                    k = r['raised_at']
                    pk = ps[k]
                    ctx.count('precondition', 'rejected:' + PASSES[pk])
                    ops_k = set(r['opsets'][k]) if k < len(r['opsets']) else set()
                    prev_ok = all(stp['sane'] for stp in r['steps'][:k])
                    if (r['err'] or '').startswith('UNEXPECTED '):
                        ctx.spec_violation('%s:unexpected-exception' % PASSES[pk],
                                           '%s died with %s at step %d of %s (only PyrtlError on a block outside the '
                                           'documented precondition is a legitimate rejection)' % (
                                               PASSES[pk], r['err'][11:], k + 1, psn),
                                           dict(rep, passes=psn[:k + 1]))
                        continue
                    if prev_ok and ops_k <= DOC_PRE.get(pk, ops_k):
                        ctx.spec_violation('%s:rejects-legal-block' % PASSES[pk],
                                           '%s raised %r on a well-formed block that meets its documented precondition '
                                           '(ops present: %s) at step %d of %s' % (
                                               PASSES[pk], (r['err'] or '')[:150], ''.join(sorted(ops_k)), k + 1, psn),
                                           dict(rep, passes=psn[:k + 1], ops_before_the_pass=''.join(sorted(ops_k))))
                    # ---- precondition tie
                    if cmodel_ok and pre_ok:
                        ctx.model_mismatch('real %s raised (%s) but the model precondition holds' % (psn, r['err']),
                                           rep)
                    continue
                if cmodel_ok and not pre_ok:
                    ctx.model_mismatch('model precondition false but real %s did not raise' % psn, rep)
                    continue
                ctx.count('precondition', 'accepted')
                last = ps[-1]
                rw, rn = r['wires'], r['nets']
                # ---- search: well-formedness, I/O, postcondition census, behaviour vs ORIGINAL spec
                if not r['sane']:
                    if 5 in ps and any(n[0] == 'r' and rw.get(n[3], (0, 0))[1] == 2 for n in rn):
                        sig = 'direct_connect_outputs:register-producer'
                    elif 5 in ps and any(n[0] == 'm' and 'bitwidth mismatch' in (r['sane_err'] or '') for n in rn):
                        sig = 'direct_connect_outputs:truncating-w-after-memread'
                    else:
                        sig = '%s:sanity_check' % psn[-1]
                    ctx.spec_violation(sig, 'block is not well-formed after %s: sanity_check raises %r' % (
                        psn, (r['sane_err'] or '')[:200]), dict(rep, nets_after=[str(n) for n in rn]))
                if r['io'] != (c['ins'], c['outs']):
                    ctx.spec_violation('%s:io-names' % psn[-1], 'Input/Output names changed by %s' % psn,
                                       dict(rep, io_after=r['io']))
                for tag, detail in post_real(last, rw, rn):
                    sig = '%s:%s' % (PASSES[last], tag)
                    if last == 4 and any(n[0] == 's' and orig_w[n[3]][0] < len(n[1]) for n in orig_n):
                        sig = 'one_bit_selects:truncating-dest'
                    if last == 5 and r['before_last'] is not None:
                        # the left-over 'w t -> o': before the pass o was fed through a chain t -w-> t2 -w-> o
                        bn = r['before_last'][1]
                        t, o = detail[1][2][0], detail[1][3]
                        for n2 in bn:
                            if n2[0] == 'w' and n2[3] == o and any(
                                    n1[0] == 'w' and n1[3] == n2[2][0] and n1[2][0] == t for n1 in bn):
                                sig = 'direct_connect_outputs:w-chain-not-fixpoint'
                        detail = '%s producer' % detail[0][0]
                    ctx.spec_violation(sig, 'postcondition of %s violated after %s: %s %s' % (
                        PASSES[last], psn, tag, detail), dict(rep, nets_after=[str(n) for n in rn]))
                if cmodel_ok:
                    ctx.count('postcondition_model', '%s:%d' % (PASSES[last], flags[1]))
                if r['trace'] is not None:
                    bad = None
                    for t, (a, b) in enumerate(zip(spec_trace, r['trace'])):
                        if a != b:
                            k = [x != y for x, y in zip(a, b)].index(True)
                            bad = (t, c['outs'][k], a[k], b[k])
                            break
                    if bad is None and r['mem'] != spec_mem:
                        bad = ('final', 'memory', spec_mem, r['mem'])
                    if bad:
                        sig = '%s:behaviour' % '+'.join(psn)
                        if r.get('alt_trace') == spec_trace:
                            sig = 'and_inverter_synth:xor-rule'
                        ctx.spec_violation(sig, '%s changed behaviour: cycle %s output %s expected %s got %s' % (
                            psn, bad[0], bad[1], bad[2], bad[3]),
                            dict(rep, first_difference={'cycle': bad[0], 'wire': bad[1], 'expected': bad[2],
                                                        'got': bad[3]}))
                if not cmodel_ok:
                    continue
                # ---- tie: well-formedness verdicts
                if (flags[2] == 1) != bool(r['sane']):
                    ctx.model_mismatch('sanity verdicts differ after %s: model %d real %s (%s)' % (
                        psn, flags[2], r['sane'], r['sane_err']), rep)
                # ---- tie: census
                rc, mc = census(rw, rn), census(mw, mn)
                if 6 in ps[:-1]:
                    # which tree leaf feeds which reader follows set order in the real pass, so after a
                    # later rewrite (e.g. xor reads each argument twice) per-wire fan-out legitimately differs
                    rc_cmp, mc_cmp = dict(rc, fanout=None), dict(mc, fanout=None)
                else:
                    rc_cmp, mc_cmp = rc, mc
                if rc_cmp != mc_cmp:
                    ctx.model_mismatch('census differs after %s: real %s model %s' % (psn, rc, mc), rep)
                for o, k in rc['ops'].items():
                    ctx.count('ops_after', o, k)
                for f, k in rc['fanout'].items():
                    if last == 6:
                        ctx.count('fanout_after_two_way_fanout', f, k)
                # ---- tie: structure
                if 6 not in ps:
                    if canon.canon(rw, rn) != canon.canon(mw, mn):
                        ctx.model_mismatch('canonical netlists differ after %s' % psn,
                                           dict(rep, real=[str(n) for n in rn], model=[str(n) for n in mn]))
                    else:
                        ctx.count('structural_tie', 'equal')
                elif ps == [6]:
                    a = canon.canon(rw, rn, collapse_w_trees=True)
                    b = canon.canon(mw, mn, collapse_w_trees=True)
                    o = canon.canon(orig_w, orig_n)
                    if not (a == b == o):
                        ctx.model_mismatch('two_way_fanout: collapsing the trees does not give back the original',
                                           dict(rep, real=[str(n) for n in rn], model=[str(n) for n in mn]))
                    else:
                        ctx.count('structural_tie', 'equal-modulo-leaf-assignment')
                else:
                    ctx.count('structural_tie', 'census-only(pair with two_way_fanout)')
                # ---- tie: behaviour (model result under the reference semantics vs real result)
                if r['trace'] is not None and flags[2] == 1:
                    if flags[5] == 0:
                        ctx.model_mismatch('wfb false on the model result of %s' % psn, rep)
                    ctx.count('wfb_of_model_result', {1: 'true', 0: 'false', 2: 'not-evaluated(>60 nets)'}[flags[5]])
                    midx = [morder.index(o) for o in c['outs']]
                    mtrace = [[row[k] for k in midx] for row in mspec[1:]]
                    if mtrace != r['trace'] or mspec[0] != r['mem']:
                        ctx.model_mismatch('model result and real result behave differently after %s' % psn, rep)
                if (ci, si) in extra_by and r['trace'] is not None:
                    nms, sres = extra_by[(ci, si)]
                    ridx = [nms.index(o) for o in c['outs']]
                    rtrace = [[row[k] for k in ridx] for row in sres[1:]]
                    ctx.count('real_result_under_reference_semantics', 'checked')
                    if rtrace != r['trace'] or sres[0] != r['mem']:
                        ctx.model_mismatch('reference semantics of the dumped real result of %s differs from '
                                           'its Simulation' % psn, rep)
        except Exception:   # a harness failure while analysing one design must not abort the run (fail closed)
            import traceback
            ctx.model_mismatch('harness error while analysing design %s/%s: %s' % (
                c.get('kind'), c.get('i'), traceback.format_exc()[-600:]), {'seed': ctx.seed})


def replay(ctx, data):
    print(data)
    run(ctx)
