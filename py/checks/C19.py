"""C19: rtllib Matrix operations vs (a) the Coq model Lib/Matrix.v (tie) and (b) plain nested-list
integer arithmetic reduced mod 2^bits of the result (search)."""
import itertools
import json
import re
import concurrent.futures
import multiprocessing
import threading

import pyrtl
from pyrtl.rtllib import matrix as M

RULE = ('every Matrix operation (copy/to_wirevector round trip, + - * scalar* @ ** and their in-place '
        'forms, transpose, reversed, getitem/setitem with int/negative/slice keys (and steps), put '
        '(raise/wrap/clip, list and Matrix values), reshape/flatten (C/F, -1, all call forms), '
        'sum/min/max/argmax (axis None/0/1, bits None/smaller/larger), dot (all five branches), '
        'hstack/vstack/concatenate, bits setter, multiply) is built with the real Matrix class on '
        'Input-driven operands of shape <= 4x4, element widths 1..8 mixed, max_bits 64 or small (2..12, '
        'so that capping happens); result.to_wirevector() is simulated with pyrtl.Simulation, decoded and '
        'compared with Lib/Matrix.v (tie) and with nested-list arithmetic (search); the attributes of every '
        'result object (max_bits, signed, rows/columns vs the element table) are compared with the model '
        'and with what the documentation implies (source operand\'s max_bits; max for stacking; 64 for '
        'axis reductions); CHAINED operations op2(op1(A..), B) with op1 in {copy, transpose, reversed, '
        'flatten, reshape, getitem block, hstack/vstack/concatenate, put, setitem, bits setter} and op2 in '
        '{+, *, @, **2, dot} are built with all-max values and checked for the documented width and the '
        'exact value of op2 (so a wrong bits/max_bits on the intermediate shows); every CALL FORM of value-taking '
        'arguments: put index as int / list / tuple, put values as bare int / list / tuple / Matrix row / empty, '
        '__setitem__ with literal ints, wires and matrices, Matrix(value=None | list of ints) -- with the '
        'falsy-but-meaningful values (0, all-zero lists, index 0) always included; the translator regenerates '
        'Gen/MatrixRules.v (width rules, constructor, put.get_ix, reshape arithmetic, max_bits arguments) and '
        'Gen/MatrixKeys.v (the whole key normalisation of __getitem__/__setitem__ for all four int/slice '
        'combinations, the single-int key, and getitem\'s block extraction) from the current source; HISTORIES: seeded random call '
        'sequences (4-9 steps quick, 4-12 thorough; 140 / 900 sequences) on a pool of 1-3 Input-driven matrices '
        'plus everything the calls create: to_wirevector probes, copy, transpose, reversed, block slices, '
        'reshape/flatten, ** n, + - * @, single- and multi-argument hstack/vstack/concatenate, axis reductions, '
        'every augmented assignment (+= -= *= @= **=, also with an operand aliasing the target), __setitem__ with '
        'scalar and Matrix values, put, repeated bits-setter narrowing and widening; operands are drawn with a '
        'bias to recently touched objects; after EVERY step the rows/columns/bits/max_bits/signed attributes '
        'and (in 3 of 4 sequences after every step, otherwise at the end) the simulated to_wirevector() value '
        'of EVERY object in the pool, operands included, are compared with a value-level reference of the '
        'sequence and with the Coq pool model prun; a failing history is shrunk by dropping steps; the catalogue = '
        'every op on tiny shapes + systematic argument sweeps on six mid-size shapes + directed '
        'small-max_bits cases + seeded random cases; element values are exhaustive when all operands '
        'together have <= 8 input bits (<= 12 for the tiny-shape set in the thorough tier), otherwise '
        'seeded random with boundary values (0, 1, 2^b-1, 2^b-2, all-max, ties); a case is distinct by '
        '(op, shapes, widths, max_bits, arguments, value vector) and non-trivial when the expected '
        'result is not all zero or an error is the expected outcome; matrix_wv_to_list / list_to_int '
        'are called directly on integers (incl. negative and oversize elements)')
IMPORTS = 'From PyRTL Require Import Base.PyZ Lib.Matrix.'
COQ_TARGETS = ['theories/Lib/Matrix.vo']
TRUSTED = ['py/checks/C19.py spec(): nested-list integer arithmetic (numpy-free) for every operation, following '
           'the matrix.py docstrings: keys follow Python sequence indexing (out-of-range ints, empty '
           'selections and slice steps other than 1 must raise); put: a negative index counts from the end, '
           'then the mode applies (raise/wrap/clip), a short v repeats its LAST value; concatenate axis 0 = '
           'hstack, 1 = vstack; dot: 1x1 operand = scalar product, two vectors = inner product, else matmul; '
           'saturating subtraction = max(a-b, 0); argmax = first maximal index; data-movement operations '
           '(copy/transpose/reversed/getitem/reshape/flatten/stacking) must not lose bits; + * scalar* @ have '
           'the documented widths max+1 / sum / k*k*(sum) and are exact when max_bits is not reached',
           'Lib/Matrix.v wv_add/wv_sub/wv_mul/fma: value and width of the WireVector operators used by matrix.py '
           '(documented op table; fma = (a*b+c) mod 2^(max(wa+wb-1,wc)+1), tied by simulation)',
           'Lib/MatrixProofs.v wfx/mrange/sumZ/dot_spec/inner_spec/mat_pow_spec/is_max/is_min/first_index/'
           'put_last/orient/stackable_h/stackable_v: the vocabulary the theorem statements are written in',
           'py/genfrag_C19.py: besides expressions, a symbolic executor for the straight-line key-normalisation '
           'fragments of __getitem__/__setitem__ (slice objects as triples, isinstance / `is None` decided '
           'statically or turned into a match, `if`s that only assign joined into conditional values); '
           'the index normalisation itself (key_get/key_set, neg_norm, chk, step test) is NO LONGER hand-modelled: '
           'Gen/MatrixKeys.v is regenerated every run and proved equal to it (C19_gen_getitem_keys, '
           'C19_gen_setitem_keys, C19_gen_single_int_key, C19_gen_getitem_block)']
ASSUMPTIONS = ['signed=False (signed matrices are documented as unsupported)',
               'max_bits is an int >= 1 (max_bits=None is not modelled)',
               'Python-level argument validation (type errors) is only checked as "raises"',
               'slice bounds stay within [-n, n] (Python would clamp larger ones, Matrix raises)',
               'int values written by put/setitem fit in the element width (a Python int that does not fit makes '
               'Const raise; WireVector/Matrix values are truncated as documented)',
               'argmax along an axis is proved for element widths <= 64 (the intermediate max uses the default '
               'max_bits=64); C19_argmax_wide_elements_refuted records the residue for wider elements, which '
               'is outside the property quantifier (widths 1..8)']


# ----------------------------------------------------------------------------- helpers
def enc(m, b):
    v = 0
    for row in m:
        for x in row:
            v = (v << b) | (x & ((1 << b) - 1))
    return v


def dec(v, r, c, b):
    n = r * c
    return [[(v >> ((n - 1 - (i * c + j)) * b)) & ((1 << b) - 1) for j in range(c)] for i in range(r)]


def capb(b, mb):
    return mb if b > mb else b


def zl(l):
    return '[' + '; '.join('(%d)' % x if x < 0 else str(x) for x in l) + ']'


def zopt(x):
    return 'None' if x is None else ('(Some (%d))' % x)


def key_coq(k):
    if isinstance(k, slice):
        return '(KSl %s %s %s)' % (zopt(k.start), zopt(k.stop), zopt(k.step))
    return '(KInt (%d))' % k


def key_json(k):
    if isinstance(k, slice):
        return ['slice', k.start, k.stop, k.step]
    return k


MODES = {'raise': 'PRaise', 'wrap': 'PWrap', 'clip': 'PClip'}
AXES = {None: 'AxNone', 0: 'Ax0', 1: 'Ax1'}


class SpecError(Exception):
    """the mathematical operation is undefined for these arguments (an error is the expected outcome)"""


# ----------------------------------------------------------------------------- specification (plain ints)
def shape(m):
    return len(m), len(m[0])


def spec_index(n, k):
    """Python sequence semantics for an int / slice key over range(n)"""
    if isinstance(k, slice):
        if k.step not in (None, 1):
            raise SpecError('slice step other than 1 is documented as unsupported: an error is expected')
        idx = list(range(n))[slice(k.start, k.stop, k.step)]
    else:
        if not -n <= k < n:
            raise SpecError('index out of range')
        idx = [range(n)[k]]
    if not idx:
        raise SpecError('empty selection')
    return idx


def spec_put_ix(count, mode, ix):
    if ix < 0:
        ix += count
    if ix < 0 or ix >= count:
        if mode == 'raise':
            raise SpecError('put index out of bounds')
        if mode == 'wrap':
            return ix % count
        return 0 if ix < 0 else count - 1
    return ix


def matmul_int(a, b):
    return [[sum(a[i][k] * b[k][j] for k in range(len(b))) for j in range(len(b[0]))] for i in range(len(a))]


def spec(case, ms, scalar):
    """-> exact integer result (list of lists); raises SpecError when undefined"""
    op, g = case['op'], case['args']
    a = ms[0] if ms else None
    if op == 'chain':
        n1 = g['n1']
        sub = dict(op=g['op1']['op'], args=g['op1']['args'], ops=case['ops'][:n1])
        first = spec(sub, ms[:n1], scalar)
        b1, _ = intermediate_attrs(case)
        first = [[x % (1 << b1) for x in row] for row in first]     # what the intermediate Matrix holds
        op2 = g['op2']
        if op2 == 'pow2':
            return spec(dict(op='pow', args={'n': 2}), [first], None)
        return spec(dict(op=op2, args={}), [first, ms[n1]], None)
    if op in ('copy', 'setbits'):
        return [row[:] for row in a]
    if op in ('add', 'iadd', 'sub', 'isub', 'mul', 'imul', 'multiply'):
        b = ms[1]
        if shape(a) != shape(b):
            raise SpecError('shape mismatch')
        f = {'a': lambda x, y: x + y, 's': lambda x, y: max(x - y, 0), 'm': lambda x, y: x * y}[op.lstrip('i')[0]]
        return [[f(x, y) for x, y in zip(ra, rb)] for ra, rb in zip(a, b)]
    if op == 'scal':
        return [[x * scalar for x in row] for row in a]
    if op == 'ctor_add':
        vals = g['vals'] if g['vals'] is not None else [[0] * g['c'] for _ in range(g['r'])]
        if shape(vals) != shape(a):
            raise SpecError('shape mismatch')
        return [[x + y for x, y in zip(r1, r2)] for r1, r2 in zip(vals, a)]
    if op in ('matmul', 'imatmul'):
        b = ms[1]
        if len(a[0]) != len(b):
            raise SpecError('shape mismatch')
        return matmul_int(a, b)
    if op in ('pow', 'ipow'):
        n = len(a)
        if n != len(a[0]) or g['n'] < 0:
            raise SpecError('not square')
        r = [[1 if i == j else 0 for j in range(n)] for i in range(n)]
        for _ in range(g['n']):
            r = matmul_int(r, a)
        return r
    if op == 'transpose':
        return [list(col) for col in zip(*a)]
    if op == 'reversed':
        return [row[::-1] for row in a[::-1]]
    if op == 'getitem':
        k = g['key']
        if isinstance(k, tuple):
            kr, kc = k
        else:
            kr, kc = k, slice(None)
        ri, ci = spec_index(len(a), kr), spec_index(len(a[0]), kc)
        return [[a[i][j] for j in ci] for i in ri]
    if op == 'setitem':
        k = g['key']
        if isinstance(k, tuple):
            kr, kc = k
        else:
            kr, kc = k, slice(None)
        ri, ci = spec_index(len(a), kr), spec_index(len(a[0]), kc)
        r = [row[:] for row in a]
        if g['scalar']:
            if len(ri) != 1 or len(ci) != 1:
                raise SpecError('scalar into a block')
            r[ri[0]][ci[0]] = g['lit'] if 'lit' in g else scalar
        else:
            v = ms[1]
            if shape(v) != (len(ri), len(ci)):
                raise SpecError('shape mismatch')
            for x, i in enumerate(ri):
                for y, j in enumerate(ci):
                    r[i][j] = v[x][y]
        return r
    if op == 'put':
        r = [row[:] for row in a]
        rows, cols = shape(a)
        v = ms[1][0] if g['vmat'] else g['v']
        if len(v) == 0:
            return r
        for vix, ix in enumerate(g['ind']):
            ix = spec_put_ix(rows * cols, g['mode'], ix)
            r[ix // cols][ix % cols] = v[vix] if vix < len(v) else v[-1]
        return r
    if op in ('reshape', 'flatten'):
        rows, cols = shape(a)
        count = rows * cols
        if op == 'flatten':
            nr, nc = 1, count
        else:
            nr, nc = g['nr'], g['nc']
        if nr == -1 and nc == -1:
            raise SpecError('both -1')
        if nr == -1:
            if nc <= 0 or count % nc:
                raise SpecError('bad shape')
            nr = count // nc
        elif nc == -1:
            if nr <= 0 or count % nr:
                raise SpecError('bad shape')
            nc = count // nr
        if nr <= 0 or nc <= 0 or nr * nc != count:
            raise SpecError('bad shape')
        if g['order'] == 'C':
            fl = [x for row in a for x in row]
            return [[fl[i * nc + j] for j in range(nc)] for i in range(nr)]
        fl = [a[i][j] for j in range(cols) for i in range(rows)]     # column-major read
        return [[fl[j * nr + i] for j in range(nc)] for i in range(nr)]   # column-major write
    if op in ('sum', 'min', 'max', 'argmax'):
        ax = g['axis']
        if ax is None:
            lines = [[x for row in a for x in row]]
        elif ax == 0:
            lines = [list(col) for col in zip(*a)]
        else:
            lines = [row[:] for row in a]
        f = {'sum': sum, 'min': min, 'max': max, 'argmax': lambda l: l.index(max(l))}[op]
        return [[f(l) for l in lines]]
    if op == 'dot':
        b = ms[1]
        sa, sb = shape(a), shape(b)
        if sa == (1, 1):
            return [[a[0][0] * x for x in row] for row in b]
        if sb == (1, 1):
            return [[x * b[0][0] for x in row] for row in a]
        if 1 in sa and 1 in sb:
            fa = [x for row in a for x in row]
            fb = [x for row in b for x in row]
            if len(fa) != len(fb):
                raise SpecError('length mismatch')
            return [[sum(x * y for x, y in zip(fa, fb))]]
        if sa[1] != sb[0]:
            raise SpecError('shape mismatch')
        return matmul_int(a, b)
    if op in ('hstack', 'vstack', 'concatenate'):
        horizontal = op == 'hstack' or (op == 'concatenate' and g['axis'] == 0)
        if op == 'concatenate' and g['axis'] not in (0, 1):
            raise SpecError('bad axis')
        if horizontal:
            if len({len(m) for m in ms}) != 1:
                raise SpecError('rows differ')
            return [sum((m[i] for m in ms), []) for i in range(len(ms[0]))]
        if len({len(m[0]) for m in ms}) != 1:
            raise SpecError('columns differ')
        return [row[:] for m in ms for row in m]
    raise AssertionError(op)


def intermediate_attrs(case):
    """(bits, max_bits) the documentation implies for op1(A...) of a chain: data movement keeps the element
    width (stacking: the max) and the max_bits (stacking: the max) of its source"""
    g = case['args']
    ops1 = case['ops'][:g['n1']]
    if g['op1']['op'] in ('hstack', 'vstack', 'concatenate'):
        return max(capb(o[2], o[3]) for o in ops1), max(o[3] for o in ops1)
    return capb(ops1[0][2], ops1[0][3]), ops1[0][3]


def declared_bits(case):
    """documented width rule of + * @ **2 (None for other ops) and the max_bits it is capped by"""
    op, ops = case['op'], case['ops']
    mb = ops[0][3]
    eb = [capb(o[2], o[3]) for o in ops]     # element width of each operand as constructed
    if op == 'chain':
        g = case['args']
        b1, mb1 = intermediate_attrs(case)
        try:
            r1, c1 = shape(spec(dict(op=g['op1']['op'], args=g['op1']['args'], ops=ops[:g['n1']]),
                                [[[0] * o[1] for _ in range(o[0])] for o in ops[:g['n1']]], 0))
        except SpecError:
            return None, mb1
        op2 = g['op2']
        if op2 == 'pow2':
            return (r1 * r1 * (b1 + b1) if r1 == c1 else None), mb1
        ob = ops[g['n1']]
        b2 = capb(ob[2], ob[3])
        if op2 == 'add':
            return max(b1, b2) + 1, mb1
        if op2 == 'mul':
            return b1 + b2, mb1
        matmul_branch = op2 == 'matmul' or (op2 == 'dot' and 1 not in (r1, c1) and 1 not in (ob[0], ob[1]))
        if matmul_branch:
            return c1 * ob[0] * (b1 + b2), mb1
        return None, mb1
    if op == 'ctor_add':
        g = case['args']
        return max(capb(g['b'], g['mb']), eb[0]) + 1, g['mb']
    if op in ('add', 'iadd'):
        return max(eb[0], eb[1]) + 1, mb
    if op in ('mul', 'imul', 'multiply'):
        return eb[0] + eb[1], mb
    if op == 'scal':
        return eb[0] + case['args']['ws'], mb
    if op in ('matmul', 'imatmul'):
        return ops[0][1] * ops[1][0] * (eb[0] + eb[1]), mb
    if op in ('pow', 'ipow') and case['args']['n'] == 2 and ops[0][0] == ops[0][1]:
        return ops[0][0] * ops[0][0] * 2 * eb[0], mb
    return None, mb


def spec_max_bits(case):
    """max_bits the result Matrix must carry: that of the operand it is derived from (left operand of an
    arithmetic operator), the largest one for stacking, the constructor default 64 for axis reductions"""
    op, ops, g = case['op'], case['ops'], case['args']
    if op == 'chain':
        _, mb1 = intermediate_attrs(case)
        if g['op2'] == 'dot':
            return mb1_dot(case, mb1)
        return mb1
    if op in ('hstack', 'vstack', 'concatenate'):
        return max(o[3] for o in ops)
    if op in ('sum', 'min', 'max', 'argmax'):
        return 64
    if op == 'ctor_add':
        return g['mb']
    if op == 'dot' and ops[0][:2] == (1, 1) and ops[1][:2] != (1, 1):
        return ops[1][3]          # scalar . Matrix: the Matrix operand
    return ops[0][3]


def mb1_dot(case, mb1):
    g, ops = case['args'], case['ops']
    r1, c1 = shape(spec(dict(op=g['op1']['op'], args=g['op1']['args'], ops=ops[:g['n1']]),
                        [[[0] * o[1] for _ in range(o[0])] for o in ops[:g['n1']]], 0))
    ob = ops[g['n1']]
    if (r1, c1) == (1, 1) and ob[:2] != (1, 1):
        return ob[3]
    return mb1


# ----------------------------------------------------------------------------- build with the real class
def call_form(l, form):
    """the same argument in the call forms the API accepts: list, tuple, or a bare int for one element"""
    if form == 'int' or form == 'scalar':
        assert len(l) == 1
        return l[0]
    return tuple(l) if form == 'tuple' else list(l)


def build(case, mats, scalar_wire):
    op, g = case['op'], case['args']
    a = mats[0]
    if op == 'chain':
        n1 = g['n1']
        first = build(dict(op=g['op1']['op'], args=g['op1']['args']), mats[:n1], scalar_wire)
        if not isinstance(first, M.Matrix):
            raise TypeError('first operation of a chain did not return a Matrix')
        op2 = g['op2']
        if op2 == 'add':
            return first + mats[n1]
        if op2 == 'mul':
            return first * mats[n1]
        if op2 == 'matmul':
            return first @ mats[n1]
        if op2 == 'pow2':
            return first ** 2
        if op2 == 'dot':
            return M.dot(first, mats[n1])
        raise AssertionError(op2)
    if op == 'copy':
        return a.copy()
    if op == 'setbits':
        a.bits = g['b']
        return a
    if op == 'add':
        return a + mats[1]
    if op == 'sub':
        return a - mats[1]
    if op == 'mul':
        return a * mats[1]
    if op == 'multiply':
        return M.multiply(a, mats[1])
    if op == 'scal':
        return a * scalar_wire
    if op == 'matmul':
        return a @ mats[1]
    if op == 'pow':
        return a ** g['n']
    if op == 'iadd':
        a += mats[1]
        return a
    if op == 'isub':
        a -= mats[1]
        return a
    if op == 'imul':
        a *= mats[1]
        return a
    if op == 'imatmul':
        a @= mats[1]
        return a
    if op == 'ipow':
        a **= g['n']
        return a
    if op == 'transpose':
        return a.transpose()
    if op == 'reversed':
        return reversed(a)
    if op == 'getitem':
        return a[g['key']]
    if op == 'setitem':
        a[g['key']] = (g['lit'] if 'lit' in g else scalar_wire) if g['scalar'] else mats[1]
        return a
    if op == 'put':
        a.put(call_form(g['ind'], g.get('indform', 'int' if g.get('ind_int') else 'list')),
              mats[1] if g['vmat'] else call_form(g['v'], g.get('vform', 'list')), mode=g['mode'])
        return a
    if op == 'ctor_add':
        made = M.Matrix(g['r'], g['c'], g['b'], value=g['vals'], max_bits=g['mb'])
        return made + a
    if op == 'reshape':
        form = g['form']
        if form == 'one':
            return a.reshape(g['nc'], order=g['order'])
        if form == 'tuple':
            return a.reshape((g['nr'], g['nc']), order=g['order'])
        if g['order'] == 'C' and form == 'default':
            return a.reshape(g['nr'], g['nc'])
        return a.reshape(g['nr'], g['nc'], order=g['order'])
    if op == 'flatten':
        return a.flatten(g['order']) if g['order'] != 'C' or g.get('explicit') else a.flatten()
    if op in ('sum', 'min', 'max', 'argmax'):
        return getattr(M, op)(a, axis=g['axis'], bits=g['bits'])
    if op == 'dot':
        return M.dot(a, mats[1])
    if op == 'hstack':
        return M.hstack(*mats)
    if op == 'vstack':
        return M.vstack(*mats)
    if op == 'concatenate':
        return M.concatenate(mats, axis=g['axis'])
    raise AssertionError(op)


def coq_expr(case):
    """Gallina term of type option (Z * mat * Z * Z) over `v : list Z` (operand wire values, then scalar)"""
    ops = case['ops']
    A = ['(mx_in %d %d %d %d (nth %d v 0))' % (r, c, b, mb, k) for k, (r, c, b, mb) in enumerate(ops)]
    S = '(nth %d v 0)' % len(ops)
    return '(outxo %s)' % coq_term(case, A, S)


def coq_term(case, A, S):
    """Gallina term of type option Mx for `case` applied to the operand terms A (scalar S)"""
    op, g = case['op'], case['args']
    some = lambda e: '(Some %s)' % e
    opt = lambda e: e
    a = A[0]
    if op == 'chain':
        n1 = g['n1']
        t1 = coq_term(dict(op=g['op1']['op'], args=g['op1']['args']), A[:n1], S)
        op2 = g['op2']
        if op2 == 'pow2':
            f = '(fun m => Some (mpow m 2))'
        elif op2 == 'dot':
            f = '(fun m => mdot m %s)' % A[n1]
        else:
            f = '(fun m => Some (m%s m %s))' % (op2, A[n1])
        return '(obind %s %s)' % (t1, f)
    if op == 'copy':
        return some('(mcopy %s)' % a)
    if op == 'setbits':
        return some('(mset_bits %s %d)' % (a, g['b']))
    if op in ('add', 'sub', 'mul', 'matmul'):
        return some('(m%s %s %s)' % (op, a, A[1]))
    if op == 'multiply':
        return some('(mmul %s %s)' % (a, A[1]))
    if op == 'ctor_add':
        vals = g['vals'] if g['vals'] is not None else [[0] * g['c'] for _ in range(g['r'])]
        return some('(madd (mx_list %d %d [%s]) %s)' % (g['b'], g['mb'], '; '.join(zl(row) for row in vals), a))
    if op in ('iadd', 'isub', 'imul', 'imatmul'):
        return some('(m%s %s %s)' % (op, a, A[1]))
    if op == 'scal':
        return some('(mscal %s %d %s)' % (a, g['ws'], S))
    if op == 'pow':
        return some('(mpow %s %d)' % (a, g['n']))
    if op == 'ipow':
        return some('(mipow %s %d)' % (a, g['n']))
    if op == 'transpose':
        return some('(mtranspose %s)' % a)
    if op == 'reversed':
        return some('(mreversed %s)' % a)
    if op in ('getitem', 'setitem'):
        k = g['key']
        kr, kc = k if isinstance(k, tuple) else (k, slice(None))
        if op == 'getitem':
            return opt('(mgetitem %s %s %s)' % (a, key_coq(kr), key_coq(kc)))
        if g['scalar']:
            return opt('(msetitem_s %s %s %s %s)' % (a, key_coq(kr), key_coq(kc), ('%d' % g['lit']) if 'lit' in g else S))
        return opt('(msetitem_m %s %s %s %s)' % (a, key_coq(kr), key_coq(kc), A[1]))
    if op == 'put':
        if g['vmat']:
            return opt('(mput_mat %s %s %s %s)' % (a, zl(g['ind']), A[1], MODES[g['mode']]))
        return opt('(mput_list %s %s %s %s)' % (a, zl(g['ind']), zl(g['v']), MODES[g['mode']]))
    if op == 'reshape':
        return opt('(mreshape %s (%d) (%d) %s)' % (a, g['nr'], g['nc'], 'true' if g['order'] == 'F' else 'false'))
    if op == 'flatten':
        return opt('(mflatten %s %s)' % (a, 'true' if g['order'] == 'F' else 'false'))
    if op in ('sum', 'min', 'max', 'argmax'):
        return some('(m%s %s %s %s)' % (op, a, AXES[g['axis']], zopt(g['bits'])))
    if op == 'dot':
        return opt('(mdot %s %s)' % (a, A[1]))
    if op in ('hstack', 'vstack'):
        return opt('(m%s [%s])' % (op, '; '.join(A)))
    if op == 'concatenate':
        return opt('(mconcatenate [%s] %d)' % ('; '.join(A), g['axis']))
    raise AssertionError(op)


STRUCTURAL = ('copy', 'transpose', 'reversed', 'getitem', 'reshape', 'flatten', 'hstack', 'vstack', 'concatenate')


# ----------------------------------------------------------------------------- known deviations: predicates
def finding_signature(case, vec=None):
    """which catalogued behaviour (if any) this input exercises; computed from the input only"""
    op, g = case['op'], case['args']
    return None


# ----------------------------------------------------------------------------- case generation
WIDTHS = [1, 2, 3, 4, 5, 6, 7, 8]


def rshape(rng, maxn=4):
    return rng.randint(1, maxn), rng.randint(1, maxn)


def rmb(rng, p_small=0.25):
    return rng.choice([2, 3, 4, 5, 6, 8, 10, 12]) if rng.random() < p_small else 64


def operand(rng, r, c, b=None, mb=None):
    return (r, c, b if b is not None else rng.choice(WIDTHS), mb if mb is not None else rmb(rng))


def rkey(rng, n, allow_bad=False):
    kind = rng.random()
    if kind < 0.45:
        if allow_bad and rng.random() < 0.1:
            return rng.choice([n, -n - 1, n + 1])
        return rng.randint(-n, n - 1)

    def bound():
        return rng.choice([None] + list(range(-n, n + 1)))
    return slice(bound(), bound())


def gen_cases(ctx, tier):
    """the deterministic catalogue: systematic argument sweeps + seeded random shapes/widths"""
    rng = ctx.sub_rng('cases', tier)
    cases = []

    def add(op, ops, tag='rand', **args):
        cases.append({'op': op, 'ops': list(ops), 'args': args, 'tag': tag})

    # --- tiny shapes, exhaustive values: every op on 1x1 / 1x2 / 2x1 / 2x2 with 1-2 bit elements
    tiny = [(1, 1, 1), (1, 1, 2), (1, 2, 1), (1, 2, 2), (2, 1, 2), (2, 2, 1), (2, 2, 2)]
    for (r, c, b) in tiny:
        A = (r, c, b, 64)
        add('copy', [A], 'tiny')
        add('transpose', [A], 'tiny')
        add('reversed', [A], 'tiny')
        for ax in (None, 0, 1):
            for f in ('sum', 'min', 'max', 'argmax'):
                add(f, [A], 'tiny', axis=ax, bits=None)
        for order in 'CF':
            add('flatten', [A], 'tiny', order=order)
            add('reshape', [A], 'tiny', nr=c, nc=r, order=order, form='two')
        if r == c:
            for n in (0, 1, 2):
                add('pow', [A], 'tiny', n=n)
        for b2 in (1, 2):
            B = (r, c, b2, 64)
            if r * c * (b + b2) <= (12 if tier == 'thorough' else 8) or (r, c) != (2, 2):
                for f in ('add', 'sub', 'mul'):
                    add(f, [A, B], 'tiny')
            Bt = (c, r, b2, 64)
            if r * c * (b + b2) <= (12 if tier == 'thorough' else 8) or (r, c) != (2, 2):
                add('matmul', [A, Bt], 'tiny')
                add('dot', [A, Bt], 'tiny')
        add('scal', [A], 'tiny', ws=2)

    # --- systematic argument sweeps on fixed mid-size operands
    for (r, c) in [(2, 3), (3, 2), (4, 4), (1, 4), (4, 1), (3, 3)]:
        A = operand(rng, r, c, mb=64)
        for ax in (None, 0, 1):
            for f in ('sum', 'min', 'max', 'argmax'):
                for bits in (None, max(1, A[2] - 2), A[2] + 3):
                    add(f, [A], 'sweep', axis=ax, bits=bits)
        count = r * c
        shapes = {(1, count), (count, 1), (r, c), (c, r), (-1, c), (r, -1), (-1, 1), (1, -1), (2, -1), (-1, 2),
                  (-1, -1), (count, 2), (3, -1)}
        for (nr, nc) in sorted(shapes):
            for order in 'CF':
                add('reshape', [A], 'sweep', nr=nr, nc=nc, order=order, form=rng.choice(['two', 'tuple', 'default']))
        add('reshape', [A], 'sweep', nr=1, nc=count, order='C', form='one')
        add('reshape', [A], 'sweep', nr=1, nc=-1, order='F', form='one')
        for order in 'CF':
            add('flatten', [A], 'sweep', order=order, explicit=True)
        for mode in ('raise', 'wrap', 'clip'):
            for ind in ([0], [count - 1], [-1], [-count], [count], [-count - 1], [count + 2, -count - 3],
                        [1 % count, 0, count - 1], list(range(count)), [0, 0, 0]):
                vmax = (1 << capb(A[2], A[3])) - 1
                add('put', [A], 'sweep', ind=ind, v=[rng.randint(0, vmax) for _ in range(rng.randint(1, 3))],
                    mode=mode, vmat=False, ind_int=(len(ind) == 1 and rng.random() < 0.5))
            # every call form of the index and value arguments, falsy-but-meaningful values included
            for v in ([0], [vmax], [0, vmax], [vmax, 0], [0, 0], []):
                for vform in (['scalar', 'list', 'tuple'] if len(v) == 1 else ['list', 'tuple']):
                    for ind, indform in (([count - 1], 'int'), ([0], 'int'), ([0, count - 1], 'list'),
                                         ([-1, 0, 1 % count], 'tuple')):
                        if rng.random() < (0.6 if tier == 'quick' else 1.0) or (vform == 'scalar' and mode == 'raise'):
                            add('put', [A], 'sweep', ind=ind, v=v, mode=mode, vmat=False, vform=vform, indform=indform)
            for vc in (1, 2, count, count + 2):
                V = operand(rng, 1, vc, mb=64)
                for ind in ([0], list(range(min(count, vc))), [0, -1, 1 % count], list(range(count)) + [0, 0]):
                    add('put', [A, V], 'sweep', ind=ind, v=None, mode=mode, vmat=True)
        # keys: all int x int, int rows, slices
        for kr in range(-r - 1, r + 1):
            add('getitem', [A], 'sweep', key=kr)
            for kc in range(-c - 1, c + 1):
                if abs(kr) <= 2 or abs(kc) <= 1:
                    add('getitem', [A], 'sweep', key=(kr, kc))
                    add('setitem', [A], 'sweep', key=(kr, kc), scalar=True, ws=A[2] + 1)
        for lit in (0, 1, (1 << capb(A[2], A[3])) - 1):
            for key in ((0, 0), (-1, -1), (r - 1, 0)):
                add('setitem', [A], 'sweep', key=key, scalar=True, lit=lit)
        for vals in (None, [[0] * c for _ in range(r)], [[(i * c + j) % 2 * ((1 << min(A[2], 4)) - 1) for j in range(c)]
                                                       for i in range(r)]):
            add('ctor_add', [A], 'sweep', r=r, c=c, b=min(A[2], 4), mb=rng.choice([64, 5]), vals=vals)
        for s0 in [None] + list(range(-r, r + 1)):
            for s1 in [None] + list(range(-r, r + 1)):
                if rng.random() < 0.5:
                    add('getitem', [A], 'sweep', key=slice(s0, s1))
                if rng.random() < 0.35:
                    add('getitem', [A], 'sweep', key=(slice(s0, s1), rkey(rng, c)))
        add('getitem', [A], 'sweep', key=slice(None, None, 2))
        add('getitem', [A], 'sweep', key=(slice(None), slice(0, None, 2)))

    # --- inner products / matmul / pow with a small max_bits (capping inside a multi-step computation)
    for (sa, sb) in [((1, 2), (1, 2)), ((1, 2), (2, 1)), ((2, 1), (1, 2)), ((3, 1), (3, 1)), ((1, 3), (3, 1))]:
        for (b0, b1, mb) in [(2, 2, 3), (2, 1, 2), (3, 2, 4)]:
            add('dot', [(sa[0], sa[1], b0, mb), (sb[0], sb[1], b1, mb)], 'cap')
    for (b0, b1, mb) in [(2, 2, 3), (2, 1, 2), (3, 3, 5)]:
        add('matmul', [(2, 2, b0, mb), (2, 2, b1, mb)], 'cap')
        add('pow', [(2, 2, b0, mb)], 'cap', n=3)
        add('add', [(2, 2, b0, mb), (2, 2, b1, 64)], 'cap')
        add('mul', [(2, 2, b0, mb), (2, 2, b1, 64)], 'cap')

    # --- chained operations op2(op1(A...), B): the attributes op1 gives its result (bits, max_bits) decide
    #     what op2 computes; max_bits is large enough for op2's documented width, values include all-max
    def chain_firsts(r, c, b, mb):
        A = (r, c, b, mb)
        count = r * c
        yield 'copy', {}, [A], (r, c)
        yield 'transpose', {}, [A], (c, r)
        yield 'reversed', {}, [A], (r, c)
        for order in 'CF':
            yield 'flatten', {'order': order, 'explicit': True}, [A], (1, count)
            yield 'reshape', {'nr': c, 'nc': r, 'order': order, 'form': 'two'}, [A], (c, r)
            yield 'reshape', {'nr': -1, 'nc': count, 'order': order, 'form': 'tuple'}, [A], (1, count)
        if r > 1:
            yield 'getitem', {'key': slice(0, r - 1)}, [A], (r - 1, c)
            yield 'getitem', {'key': (slice(1, None), slice(None))}, [A], (r - 1, c)
        if c > 1:
            yield 'getitem', {'key': (slice(None), slice(0, c - 1))}, [A], (r, c - 1)
        B2 = (r, max(1, c - 1), rng.choice(WIDTHS[:5]), rng.choice([mb, 64]))
        yield 'hstack', {}, [A, B2], (r, c + B2[1])
        yield 'concatenate', {'axis': 0}, [A, B2], (r, c + B2[1])
        B3 = (max(1, r - 1), c, rng.choice(WIDTHS[:5]), rng.choice([mb, 64]))
        yield 'vstack', {}, [A, B3], (r + B3[0], c)
        yield 'hstack', {}, [A], (r, c)
        top = (1 << capb(b, mb)) - 1
        yield 'put', {'ind': [0, -1], 'v': [top, max(top - 1, 0)], 'mode': 'raise', 'vmat': False}, [A], (r, c)
        yield 'put', {'ind': [count], 'v': None, 'mode': 'wrap', 'vmat': True}, [A, (1, 2, b, mb)], (r, c)
        yield 'setitem', {'key': (0, 0), 'scalar': False}, [A, (1, 1, b, mb)], (r, c)
        yield 'setbits', {'b': capb(b, mb)}, [A], (r, c)

    chain_shapes = [(2, 2), (2, 3), (1, 3), (3, 1)] if tier == 'quick' else [(2, 2), (2, 3), (3, 2), (1, 3), (3, 1), (1, 4)]
    for (r, c) in chain_shapes:
        b = rng.choice([2, 3, 4, 5])
        mb = rng.choice([64, 64, 40])
        for op1, args1, ops1, (r1, c1) in chain_firsts(r, c, b, mb):
            b2 = rng.choice([1, 2, 3, 4, 5])
            seconds = [('add', (r1, c1)), ('mul', (r1, c1)), ('matmul', (c1, rng.randint(1, 2))), ('dot', (c1, 2)),
                       ('dot', (r1, c1)), ('pow2', None)]
            if tier == 'quick':
                seconds = [x for x in seconds if rng.random() < 0.7 or x[0] in ('add', 'matmul')]
            for op2, shp in seconds:
                if op2 == 'pow2':
                    if r1 != c1 or r1 > 2:
                        continue
                    add('chain', ops1, 'chain', op1={'op': op1, 'args': args1}, n1=len(ops1), op2=op2)
                    continue
                if op2 in ('matmul', 'dot') and c1 * shp[0] * (capb(b, mb) + b2) > 64 and r1 * c1 > 6:
                    continue
                add('chain', ops1 + [(shp[0], shp[1], b2, 64)], 'chain', op1={'op': op1, 'args': args1},
                    n1=len(ops1), op2=op2)

    # --- seeded random cases over all ops
    n_rand = 260 if tier == 'quick' else 2600
    binops = ['add', 'sub', 'mul', 'iadd', 'isub', 'imul', 'multiply']
    for i in range(n_rand):
        kind = rng.choice(['bin', 'bin', 'scal', 'matmul', 'matmul', 'pow', 'unary', 'setitem', 'getitem', 'stack',
                           'stack', 'dot', 'dot', 'setbits', 'reduce', 'put', 'reshape'])
        r, c = rshape(rng)
        if kind == 'bin':
            mb = rmb(rng)
            add(rng.choice(binops), [operand(rng, r, c, mb=mb), operand(rng, r, c, mb=rmb(rng))])
        elif kind == 'scal':
            add('scal', [operand(rng, r, c)], ws=rng.choice(WIDTHS))
        elif kind == 'matmul':
            big = tier == 'thorough' and rng.random() < 0.3
            k = rng.randint(1, 4 if big else 3)
            r, c = (rng.randint(1, 4), rng.randint(1, 4)) if big else (rng.randint(1, 3), rng.randint(1, 3))
            mb = rmb(rng, 0.5)
            wmax = 8 if big else 5
            add(rng.choice(['matmul', 'matmul', 'imatmul']),
                [operand(rng, r, k, b=rng.randint(1, wmax), mb=mb), operand(rng, k, c, b=rng.randint(1, wmax), mb=rmb(rng, 0.5))])
        elif kind == 'pow':
            n = rng.randint(1, 3 if tier == 'thorough' else 2)
            add(rng.choice(['pow', 'pow', 'ipow']), [operand(rng, n, n, b=rng.randint(1, 4), mb=rmb(rng, 0.6))],
                n=rng.randint(0, 3))
        elif kind == 'unary':
            add(rng.choice(['copy', 'transpose', 'reversed']), [operand(rng, r, c)])
        elif kind == 'setbits':
            add('setbits', [operand(rng, r, c)], b=rng.choice(WIDTHS + [10]))
        elif kind == 'getitem':
            k = rng.choice([rkey(rng, r, True), (rkey(rng, r, True), rkey(rng, c, True))])
            add('getitem', [operand(rng, r, c)], key=k)
        elif kind == 'setitem':
            A = operand(rng, r, c)
            if rng.random() < 0.4:
                add('setitem', [A], key=(rng.randint(-r, r - 1), rng.randint(-c, c - 1)), scalar=True,
                    ws=rng.choice(WIDTHS))
            else:
                kr, kc = rkey(rng, r), rkey(rng, c)
                try:
                    vr, vc = len(spec_index(r, kr)), len(spec_index(c, kc))
                except SpecError:
                    vr, vc = 1, 1
                if rng.random() < 0.1:
                    vr += 1
                k = (kr, kc) if rng.random() < 0.7 or vc != c else kr
                if not isinstance(k, tuple):
                    kc = slice(None)
                add('setitem', [A, operand(rng, vr, vc)], key=k, scalar=False)
        elif kind == 'stack':
            n = rng.randint(1, 3)
            op = rng.choice(['hstack', 'vstack', 'concatenate'])
            ax = rng.choice([0, 1])
            horizontal = op == 'hstack' or (op == 'concatenate' and ax == 0)
            ops = []
            for _ in range(n):
                rr, cc = rshape(rng, 3)
                if rng.random() < 0.93:
                    rr, cc = (r, cc) if horizontal else (rr, c)
                ops.append(operand(rng, rr, cc))
            if op == 'concatenate':
                add(op, ops, axis=ax)
            else:
                add(op, ops)
        elif kind == 'dot':
            form = rng.choice(['11a', '11b', 'vv', 'vv', 'mm', 'mm', 'any'])
            k = rng.randint(1, 3)
            if form == '11a':
                sa, sb = (1, 1), rshape(rng, 3)
            elif form == '11b':
                sa, sb = rshape(rng, 3), (1, 1)
            elif form == 'vv':
                sa = rng.choice([(1, k), (k, 1)])
                sb = rng.choice([(1, k), (k, 1)])
            elif form == 'mm':
                sa, sb = (rng.randint(1, 3), k), (k, rng.randint(1, 3))
            else:
                sa, sb = rshape(rng, 3), rshape(rng, 3)
            mb = rmb(rng, 0.4)
            add('dot', [operand(rng, sa[0], sa[1], b=rng.randint(1, 5), mb=mb),
                        operand(rng, sb[0], sb[1], b=rng.randint(1, 5), mb=rmb(rng, 0.4))])
        elif kind == 'reduce':
            A = operand(rng, r, c)
            add(rng.choice(['sum', 'min', 'max', 'argmax']), [A], axis=rng.choice([None, 0, 1]),
                bits=rng.choice([None, None, rng.randint(1, 10)]))
        elif kind == 'put':
            A = operand(rng, r, c)
            count = r * c
            ind = [rng.randint(-count - 2, count + 1) for _ in range(rng.randint(1, 5))]
            mode = rng.choice(['raise', 'wrap', 'clip'])
            if rng.random() < 0.5:
                top_ = (1 << capb(A[2], A[3])) - 1
                v = [rng.choice([0, 0, top_, rng.randint(0, top_)]) for _ in range(rng.randint(0, 4))]
                add('put', [A], ind=ind, v=v, mode=mode, vmat=False,
                    vform=rng.choice(['scalar', 'list', 'tuple']) if len(v) == 1 else rng.choice(['list', 'tuple']),
                    indform=rng.choice(['int', 'list', 'tuple']) if len(ind) == 1 else rng.choice(['list', 'tuple']))
            else:
                add('put', [A, operand(rng, 1, rng.randint(1, 6))], ind=ind, v=None, mode=mode, vmat=True)
        else:
            count = r * c
            divs = [d for d in range(1, count + 1) if count % d == 0]
            d = rng.choice(divs)
            nr, nc = rng.choice([(d, count // d), (-1, d), (d, -1), (d, d)])
            add('reshape', [operand(rng, r, c)], nr=nr, nc=nc, order=rng.choice('CF'),
                form=rng.choice(['two', 'tuple', 'default']))
    return cases


def in_bits(case):
    return sum(r * c * capb(b, mb) for (r, c, b, mb) in case['ops']) + scalar_width(case)


def scalar_width(case):
    if case['op'] == 'scal' or (case['op'] == 'setitem' and case['args'].get('scalar') and 'lit' not in case['args']):
        return case['args']['ws']
    return 0


def value_vectors(ctx, case, idx, tier):
    """list of tuples (operand wire values..., scalar value)"""
    widths = [r * c * capb(b, mb) for (r, c, b, mb) in case['ops']]
    sw = scalar_width(case)
    allw = widths + ([sw] if sw else [])
    total = sum(allw)
    limit = 12 if (tier == 'thorough' and case['tag'] == 'tiny') else 8
    rng = ctx.sub_rng('values', idx, case['op'])
    if total <= limit:
        allv = [tuple(t) for t in itertools.product(*[range(1 << w) for w in allw])]
        cap_ = 6 if case['tag'] == 'sweep' else 24
        if tier == 'quick' and case['tag'] != 'tiny' and len(allv) > cap_:
            # keep the quick tier's size independent of the widths the seed happened to draw
            return [allv[0], allv[-1]] + rng.sample(allv[1:-1], cap_ - 2), False
        return allv, True
    n = 6 if tier == 'quick' else 12
    if case['tag'] == 'sweep':
        n = 2 if tier == 'quick' else 4
    if case['tag'] == 'chain':
        n = 3 if tier == 'quick' else 6
    vecs = []
    for k in range(n):
        vec = []
        for (r, c, b, mb) in case['ops']:
            bb = capb(b, mb)
            top = (1 << bb) - 1
            style = rng.choice(['rand', 'rand', 'bound', 'max', 'ties'])
            if case['tag'] == 'chain' and k == 0:
                style = 'max'
            m = []
            for _ in range(r * c):
                if style == 'max':
                    x = top
                elif style == 'bound':
                    x = rng.choice([0, 1, top, max(top - 1, 0)])
                elif style == 'ties':
                    x = rng.choice([top, max(top - 1, 0), rng.randint(0, top)])
                else:
                    x = rng.randint(0, top)
                m.append(x)
            vec.append(enc([m], bb))
        if sw:
            vec.append(rng.choice([0, 1, (1 << sw) - 1, rng.randint(0, (1 << sw) - 1)]))
        vecs.append(tuple(vec))
    return vecs, False


# ----------------------------------------------------------------------------- the run
def args_json(g):
    g = dict(g)
    if 'key' in g:
        k = g['key']
        g['key'] = [key_json(x) for x in k] if isinstance(k, tuple) else key_json(k)
    if 'op1' in g:
        g['op1'] = {'op': g['op1']['op'], 'args': args_json(g['op1']['args'])}
    return g


def case_json(case):
    g = args_json(case['args'])
    return {'op': case['op'], 'operands_rows_cols_bits_maxbits': [list(o) for o in case['ops']], 'args': g}


def clean(msg):
    """error text without object addresses (keeps replays byte-identical between runs)"""
    return re.sub(r' at 0x[0-9a-f]+', '', msg)[:120]


def build_design(batch):
    """one block holding every case of the batch; returns per-case build info"""
    pyrtl.reset_working_block()
    infos = []
    for k, case in enumerate(batch):
        ins = [pyrtl.Input(r * c * capb(b, mb), 'c%d_a%d' % (k, n)) for n, (r, c, b, mb) in enumerate(case['ops'])]
        sw = scalar_width(case)
        sc = pyrtl.Input(sw, 'c%d_s' % k) if sw else None
        info = {'ins': [w.name for w in ins], 'sc': sc.name if sc is not None else None}
        try:
            mats = [M.Matrix(r, c, b, value=w, max_bits=mb) for (r, c, b, mb), w in zip(case['ops'], ins)]
            res = build(case, mats, sc)
            if isinstance(res, M.Matrix):
                info.update(kind='matrix', rows=res.rows, cols=res.columns, bits=res.bits,
                            max_bits=res.max_bits, signed=res.signed,
                            shape_ok=(len(res._matrix) == res.rows and
                                      all(len(row) == res.columns for row in res._matrix)))
                wire = res.to_wirevector()
                if len(wire) != res.rows * res.columns * res.bits:
                    info['lenbad'] = len(wire)
            elif isinstance(res, pyrtl.WireVector):
                info.update(kind='wire', rows=1, cols=1, bits=len(res))
                wire = res
            else:
                raise TypeError('result of type %s' % type(res))
            out = pyrtl.Output(len(wire), 'c%d_o' % k)
            out <<= wire
            info['out'] = out.name
        except pyrtl.PyrtlError as e:
            info.update(kind='error', err='PyrtlError: ' + clean(str(e)))
        except Exception as e:      # any other exception is an outcome of this case, never the end of the run
            info.update(kind='error', err='%s: %s' % (type(e).__name__, clean(str(e))))
        infos.append(info)
    return infos


def pmap(fn, jobs, workers=8, chunksize=1):
    """map over worker processes; a dead worker (OOM on a loaded machine) raises BrokenProcessPool instead of
    hanging, and the jobs are then run in this process"""
    try:
        with concurrent.futures.ProcessPoolExecutor(max_workers=workers,
                                                    mp_context=multiprocessing.get_context('fork')) as ex:
            return list(ex.map(fn, jobs, chunksize=chunksize))
    except Exception:
        return [fn(j) for j in jobs]


def run_batch_job(job):
    return run_batch(job[0], job[1])


def run_batch(batch, vec_lists):
    try:
        return run_batch_once(batch, vec_lists)
    except Exception as e:
        if len(batch) == 1:
            # the design of this single case cannot be simulated: an outcome of the case, not of the run
            info = {'ins': [], 'sc': None, 'kind': 'error',
                    'err': 'design could not be simulated: %s: %s' % (type(e).__name__, clean(str(e)))}
            return [info], [[None] * len(vec_lists[0])]
        infos, outs = [], []
        for case, vl in zip(batch, vec_lists):
            i1, o1 = run_batch([case], [vl])
            infos.extend(i1)
            outs.extend(o1)
        return infos, outs


def run_batch_once(batch, vec_lists):
    infos = build_design(batch)
    block = pyrtl.working_block()
    nsteps = max(len(v) for v in vec_lists)
    outs = [[None] * len(v) for v in vec_lists]
    if any(i['kind'] != 'error' for i in infos):
        tracer = pyrtl.SimulationTrace(wires_to_track=[block.wirevector_by_name[i['out']] for i in infos
                                                       if i['kind'] != 'error'], block=block)
        sim = pyrtl.Simulation(tracer=tracer, block=block)
        for t in range(nsteps):
            stim = {}
            for k, (case, info) in enumerate(zip(batch, infos)):
                vec = vec_lists[k][min(t, len(vec_lists[k]) - 1)]
                for name, val in zip(info['ins'], vec):
                    stim[name] = val
                if info['sc']:
                    stim[info['sc']] = vec[-1]
            sim.step(stim)
            for k, info in enumerate(infos):
                if info['kind'] != 'error' and t < len(vec_lists[k]):
                    outs[k][t] = sim.inspect(info['out'])
    return infos, outs


def chunks(l, n):
    for i in range(0, len(l), n):
        yield l[i:i + n]


def cost(case):
    op = case['op']
    if op in ('matmul', 'imatmul', 'dot', 'pow', 'ipow'):
        return 40
    if op == 'chain':
        return 40 if case['args']['op2'] in ('matmul', 'dot', 'pow2') else 3
    return 1


def run(ctx):
    tier = ctx.tier
    cases = gen_cases(ctx, tier)
    pure_function_ties(ctx)
    run_sequences(ctx)
    vecs = []
    for idx, case in enumerate(cases):
        v, exh = value_vectors(ctx, case, idx, tier)
        case['exhaustive'] = exh
        vecs.append(v)
    # ---- Coq model, one expression per case (evaluated in a thread while the designs are simulated)
    exprs = []
    for case, v in zip(cases, vecs):
        exprs.append('map (fun v : list Z => %s) [%s]' % (coq_expr(case), '; '.join(zl(list(t)) for t in v)))
    box = {}

    def eval_model():
        try:
            box['model'] = ctx.coq_eval(exprs, IMPORTS, tag='c19', shard=(60 if tier == 'quick' else 120), jobs=6)
        except Exception as e:
            box['error'] = str(e)[-800:]
    th = threading.Thread(target=eval_model)
    th.start()
    # ---- implementation, batched designs, simulated in worker processes
    order = sorted(range(len(cases)), key=lambda i: (len(vecs[i]), cost(cases[i])))
    results = {}
    group = []
    budget = 0
    groups = []
    for i in order:
        if group and (len(vecs[i]) != len(vecs[group[0]]) or budget + cost(cases[i]) > 60):
            groups.append(group)
            group, budget = [], 0
        group.append(i)
        budget += cost(cases[i])
    if group:
        groups.append(group)
    jobs = [([cases[i] for i in grp], [vecs[i] for i in grp]) for grp in groups]
    done = pmap(run_batch_job, jobs)
    for grp, (infos, outs) in zip(groups, done):
        for i, info, o in zip(grp, infos, outs):
            results[i] = (info, o)
    pyrtl.reset_working_block()
    th.join()
    model = box.get('model')
    if model is None:
        ctx.model_mismatch('Lib/Matrix.v could not be evaluated: %s' % box.get('error'), {})
    # ---- compare
    for idx, case in enumerate(cases):
        info, outs = results[idx]
        try:
            judge(ctx, idx, case, vecs[idx], info, outs, model[idx] if model is not None else None)
        except Exception as e:      # a harness fault on one case is reported for that case; the run goes on
            ctx.model_mismatch('harness fault while judging a case: %s: %s' % (type(e).__name__, clean(str(e))),
                               case_json(case))


def split_vec(case, vec):
    ms = []
    for (r, c, b, mb), v in zip(case['ops'], vec):
        ms.append(dec(v, r, c, capb(b, mb)))
    scalar = vec[-1] if scalar_width(case) else None
    return ms, scalar


def judge(ctx, idx, case, vecs, info, outs, model):
    op = case['op']
    sig_known = finding_signature(case)
    cj = case_json(case)
    ctx.count('ops', op)
    ctx.count('shapes', 'x'.join('%dx%d' % (o[0], o[1]) for o in case['ops']))
    ctx.count('element_widths', ','.join(str(o[2]) for o in case['ops']))
    ctx.count('max_bits', ','.join(str(o[3]) for o in case['ops']))
    ctx.count('values', 'exhaustive' if case['exhaustive'] else 'random+boundary')
    ctx.count('impl_outcome', info['kind'])
    for name in ('axis', 'order', 'mode', 'bits'):
        if name in case['args'] and op != 'setbits':
            ctx.count('arg_' + name, '%s=%s' % (name, case['args'][name]))
    decl, mb = declared_bits(case)
    reported = set()
    if info['kind'] == 'matrix':
        # attributes of the result object (they decide what LATER operations on it do)
        want_mb = None
        try:
            want_mb = spec_max_bits(case)
        except SpecError:
            pass
        bad = []
        if want_mb is not None and info['max_bits'] != want_mb:
            bad.append('max_bits=%r, expected %r' % (info['max_bits'], want_mb))
        if info['signed'] is not False:
            bad.append('signed=%r, expected False' % (info['signed'],))
        if not info['shape_ok']:
            bad.append('rows/columns attributes do not describe the element table')
        if bad:
            seen = ctx.__dict__.setdefault('_c19_reported', {})
            sig = 'attr:%s' % op
            if seen.get(sig, 0) < 3:
                seen[sig] = seen.get(sig, 0) + 1
                ctx.spec_violation(sig, 'Matrix %s: result attributes wrong: %s (a later + * @ on this result is '
                                   'capped by max_bits)' % (op, '; '.join(bad)),
                                   dict(cj, seed=ctx.seed, tier=ctx.tier, result_attributes={
                                       'max_bits': info['max_bits'], 'signed': info['signed'], 'bits': info['bits'],
                                       'rows': info['rows'], 'columns': info['cols']}, expected_max_bits=want_mb))
    for t, vec in enumerate(vecs):
        ms, scalar = split_vec(case, vec)
        rep = dict(cj, seed=ctx.seed, tier=ctx.tier, operand_values=ms, scalar=scalar, wire_inputs=list(vec))
        # --- specification
        try:
            exact = spec(case, ms, scalar)
            spec_err = None
        except SpecError as e:
            exact, spec_err = None, str(e)
        mres = model[t] if model is not None else 'skip'
        nontriv = spec_err is not None or any(x for row in exact for x in row)
        sample = None
        if t == 0 and idx % 97 == 0:
            sample = dict(cj, operand_values=ms, scalar=scalar,
                          expected_exact=exact if exact is not None else 'error: ' + spec_err,
                          result_bits=info.get('bits'), impl_wire_value=outs[t])
        ctx.case((op, tuple(case['ops']), repr(cj['args']), vec), nontrivial=nontriv, sample=sample)

        def violation(what, **extra):
            sig = sig_known or ('op:%s' % op)
            seen = ctx.__dict__.setdefault('_c19_reported', {})
            if sig in reported or seen.get(sig, 0) >= 3:
                return
            reported.add(sig)
            seen[sig] = seen.get(sig, 0) + 1
            ctx.spec_violation(sig, 'Matrix %s: %s' % (op, what), dict(rep, **extra))

        # --- implementation vs specification (search)
        if info['kind'] == 'error':
            if spec_err is None:
                violation('raises %s where the operation is defined (expected %s)' % (info['err'], exact),
                          expected=exact, got=info['err'])
            impl = None
        else:
            impl = dec(outs[t], info['rows'], info['cols'], info['bits'])
            if 'lenbad' in info:
                violation('len(to_wirevector()) = %d != rows*columns*bits' % info['lenbad'])
            real = M.matrix_wv_to_list(outs[t], info['rows'], info['cols'], info['bits'])
            if real != impl:
                violation('matrix_wv_to_list disagrees with the documented layout', expected=impl, got=real)
            if spec_err is not None:
                violation('returns %s where an error is expected (%s)' % (impl, spec_err), got=impl)
            else:
                want = [[x % (1 << info['bits']) for x in row] for row in exact]
                if impl != want:
                    violation('result %s (bits=%d) != integer result %s mod 2^bits = %s' % (
                        impl, info['bits'], exact, want), expected=want, got=impl, result_bits=info['bits'])
                elif op in STRUCTURAL and impl != exact:
                    # pure data movement: documented result width = (max of) the operands' widths,
                    # so no element may lose bits
                    violation('data-movement operation lost bits: result %s (bits=%d) != %s' % (
                        impl, info['bits'], exact), expected=exact, got=impl, result_bits=info['bits'])
                elif op in ('sum', 'min', 'max', 'argmax') and case['args']['axis'] is not None and \
                        info['bits'] != capb(case['args']['bits'] or capb(case['ops'][0][2], case['ops'][0][3]), 64):
                    violation('result bits=%d, documented: the `bits` argument / bits of the matrix' % info['bits'],
                              result_bits=info['bits'])
                elif decl is not None and decl <= mb:
                    # width exactness: max_bits not reached -> declared width, exact value
                    if info['bits'] != decl or impl != exact:
                        violation('max_bits not reached but result bits=%d (declared %d) / value %s is not the '
                                  'exact %s' % (info['bits'], decl, impl, exact), expected=exact, got=impl)
        # --- implementation vs Coq model (tie)
        if mres == 'skip':
            continue
        if mres is None:
            if info['kind'] != 'error':
                ctx.model_mismatch('model says %s raises, implementation returned %s' % (op, impl), rep)
        else:
            mbits, mdat, mwv, mmaxb = mres
            if info['kind'] == 'error':
                ctx.model_mismatch('implementation raises (%s), model returns %s' % (info['err'], mdat), rep)
            elif (mbits, mdat, mwv) != (info['bits'], impl, outs[t]):
                ctx.model_mismatch('Matrix %s: implementation (bits=%d, %s, wire=%d) != model (bits=%d, %s, wire=%d)' % (
                    op, info['bits'], impl, outs[t], mbits, mdat, mwv), rep)
            elif info['kind'] == 'matrix' and mmaxb != info['max_bits']:
                ctx.model_mismatch('Matrix %s: implementation max_bits=%r != model maxb=%r' % (
                    op, info['max_bits'], mmaxb), rep)


def pure_function_ties(ctx):
    """matrix_wv_to_list / list_to_int on plain integers vs the model and vs the layout definition"""
    rng = ctx.sub_rng('pure')
    n = 150 if ctx.tier == 'quick' else 1500
    items = []
    for i in range(n):
        r, c = rshape(rng)
        b = rng.choice(WIDTHS + [9, 13])
        if i % 2 == 0:
            v = rng.getrandbits(r * c * b) if rng.random() < 0.8 else (1 << (r * c * b)) - 1
            items.append(('w2l', r, c, b, v))
        else:
            style = rng.random()
            lo, hi = (0, (1 << b) - 1) if style < 0.6 else (-(1 << (b - 1)), (1 << (b + 1)))
            m = [[rng.randint(lo, hi) for _ in range(c)] for _ in range(r)]
            items.append(('l2i', r, c, b, m))
    exprs = []
    for it in items:
        if it[0] == 'w2l':
            exprs.append('(matrix_wv_to_list %d %d %d %d, encode %d (flat (matrix_wv_to_list %d %d %d %d)))' % (
                it[4], it[1], it[2], it[3], it[3], it[4], it[1], it[2], it[3]))
        else:
            mm = '[' + '; '.join(zl(row) for row in it[4]) + ']'
            exprs.append('(list_to_int %s %d, encode %d (map (trunc %d) (flat %s)))' % (mm, it[3], it[3], it[3], mm))
    try:
        model = ctx.coq_eval(exprs, IMPORTS, tag='c19pure', shard=100, jobs=4)
    except Exception as e:
        model = None
        ctx.model_mismatch('Lib/Matrix.v (pure functions) could not be evaluated: %s' % str(e)[-800:], {})
    for k, it in enumerate(items):
        kind, r, c, b = it[:4]
        ctx.count('ops', 'matrix_wv_to_list' if kind == 'w2l' else 'list_to_int')
        if kind == 'w2l':
            v = it[4]
            got = M.matrix_wv_to_list(v, r, c, b)
            want = dec(v, r, c, b)
            ctx.case(('w2l', r, c, b, v), nontrivial=v != 0)
            rep = {'function': 'matrix_wv_to_list', 'value': v, 'rows': r, 'columns': c, 'bits': b}
            if got != want or M.list_to_int(got, b) != v:
                ctx.spec_violation('op:matrix_wv_to_list', 'matrix_wv_to_list(%d,%d,%d,%d) = %s, layout says %s; or '
                                   'list_to_int does not invert it' % (v, r, c, b, got, want), dict(rep, got=got, expected=want))
            if model is not None and (model[k][0] != got or model[k][1] != v):
                ctx.model_mismatch('matrix_wv_to_list: implementation %s != model %s' % (got, model[k]), rep)
        else:
            m = it[4]
            got = M.list_to_int(m, b)
            want = enc(m, b)
            ctx.case(('l2i', r, c, b, repr(m)), nontrivial=want != 0)
            rep = {'function': 'list_to_int', 'matrix': m, 'n_bits': b}
            if got != want:
                ctx.spec_violation('op:list_to_int', 'list_to_int(%s,%d) = %d, expected %d' % (m, b, got, want),
                                   dict(rep, got=got, expected=want))
            if model is not None and (model[k][0] != got or model[k][1] != got):
                ctx.model_mismatch('list_to_int: implementation %d != model %s' % (got, model[k]), rep)


def args_from_json(g):
    g = dict(g)

    def unkey(k):
        if isinstance(k, list) and k and k[0] == 'slice':
            return slice(k[1], k[2], k[3])
        return k
    if 'key' in g:
        k = g['key']
        if isinstance(k, list) and not (k and k[0] == 'slice'):
            g['key'] = tuple(unkey(x) for x in k)
        else:
            g['key'] = unkey(k)
    if 'op1' in g:
        g['op1'] = {'op': g['op1']['op'], 'args': args_from_json(g['op1']['args'])}
    return g


def case_from_json(rep):
    return {'op': rep['op'], 'ops': [tuple(o) for o in rep['operands_rows_cols_bits_maxbits']],
            'args': args_from_json(rep['args']), 'tag': 'replay', 'exhaustive': False}


# ============================================================================= histories on a pool of objects
# Random operation SEQUENCES on a small pool of Matrix objects.  After every step every object of the pool
# (operands included) is observed -- rows/columns/bits/max_bits attributes and, through to_wirevector(),
# its simulated value -- and compared with (a) a pure value-level reference (`ref_step`, nested lists) and
# (b) the Coq pool model (`prun` in Lib/Matrix.v).  Nothing a call does not document as in-place may change.
SEQ_INPLACE = ('iadd', 'isub', 'imul', 'imatmul', 'ipow')
SEQ_UPDATE = ('setitem_s', 'setitem_m', 'put', 'setbits')
REDUCERS = {'sum': 0, 'min': 1, 'max': 2, 'argmax': 3}


def obj(r, c, b, mb, vals):
    return {'r': r, 'c': c, 'b': b, 'mb': mb, 'v': vals}


def ref_new(st, operands, b, mb):
    """result object of a constructing call: exact integer result (spec) reduced mod 2^b"""
    exact = spec({'op': st['op'], 'args': st.get('args', {})}, [o['v'] for o in operands], st.get('x'))
    return obj(len(exact), len(exact[0]), b, mb, [[x % (1 << b) for x in row] for row in exact])


def ref_step(pool, st):
    """pool: dict id -> object (value level).  Returns the new pool; raises SpecError/KeyError when the step
    is not applicable.  Mirrors the documentation, not the code."""
    pool = {k: dict(o, v=[row[:] for row in o['v']]) for k, o in pool.items()}
    op, g = st['op'], st.get('args', {})
    a = pool[st['i']]
    new = st.get('new')
    if op == 'probe':
        return pool
    if op in ('copy', 'transpose', 'reversed', 'getitem', 'reshape', 'flatten'):
        pool[new] = ref_new(st, [a], capb(a['b'], a['mb']), a['mb'])
    elif op in ('add', 'sub', 'mul', 'matmul', 'iadd', 'isub', 'imul', 'imatmul'):
        b = pool[st['j']]
        base = op[1:] if op in SEQ_INPLACE else op
        if base == 'add':
            w = max(a['b'], b['b']) + 1
        elif base == 'sub':
            w = max(a['b'], b['b'])
        elif base == 'mul':
            w = a['b'] + b['b']
        else:
            w = a['c'] * b['r'] * (a['b'] + b['b'])
        res = ref_new(dict(st, op=base), [a, b], capb(w, a['mb']), a['mb'])
        if op in SEQ_INPLACE:
            pool[st['i']] = dict(res, v=[row[:] for row in res['v']])
        pool[new] = res
    elif op in ('pow', 'ipow'):
        n = g['n']
        w = a['b']
        for _ in range(max(n - 1, 0)):
            w = capb(a['r'] * a['r'] * (w + a['b']), a['mb'])
        res = ref_new(dict(st, op='pow'), [a], w, a['mb'])
        if op == 'ipow':
            pool[st['i']] = dict(res, v=[row[:] for row in res['v']])
        pool[new] = res
    elif op in ('hstack', 'vstack', 'concatenate'):
        ops_ = [pool[k] for k in st['l']]
        mb = max(o['mb'] for o in ops_)
        pool[new] = ref_new(st, ops_, capb(max(o['b'] for o in ops_), mb), mb)
    elif op in REDUCERS:
        pool[new] = ref_new(st, [a], capb(g['bits'] or a['b'], 64), 64)
    elif op == 'setitem_s':
        r2 = ref_new({'op': 'setitem', 'args': dict(g, scalar=True), 'x': st['x']}, [a], a['b'], a['mb'])
        pool[st['i']] = r2
    elif op == 'setitem_m':
        r2 = ref_new({'op': 'setitem', 'args': dict(g, scalar=False)}, [a, pool[st['j']]], a['b'], a['mb'])
        pool[st['i']] = r2
    elif op == 'put':
        pool[st['i']] = ref_new({'op': 'put', 'args': dict(g, vmat=False)}, [a], a['b'], a['mb'])
    elif op == 'setbits':
        pool[st['i']] = obj(a['r'], a['c'], g['b'], a['mb'], [[x % (1 << g['b']) for x in row] for row in a['v']])
    else:
        raise AssertionError(op)
    return pool


def seq_exec(real, st, M_):
    """the same step on real Matrix objects (dict id -> Matrix)"""
    op, g = st['op'], st.get('args', {})
    a = real[st['i']]
    new = st.get('new')
    if op == 'probe':
        a.to_wirevector()
    elif op == 'copy':
        real[new] = a.copy()
    elif op == 'transpose':
        real[new] = a.transpose()
    elif op == 'reversed':
        real[new] = reversed(a)
    elif op == 'getitem':
        real[new] = a[g['key']]
    elif op == 'reshape':
        real[new] = a.reshape(g['nr'], g['nc'], order=g['order'])
    elif op == 'flatten':
        real[new] = a.flatten(g['order'])
    elif op == 'pow':
        real[new] = a ** g['n']
    elif op == 'add':
        real[new] = a + real[st['j']]
    elif op == 'sub':
        real[new] = a - real[st['j']]
    elif op == 'mul':
        real[new] = a * real[st['j']]
    elif op == 'matmul':
        real[new] = a @ real[st['j']]
    elif op == 'hstack':
        real[new] = M_.hstack(*[real[k] for k in st['l']])
    elif op == 'vstack':
        real[new] = M_.vstack(*[real[k] for k in st['l']])
    elif op == 'concatenate':
        real[new] = M_.concatenate([real[k] for k in st['l']], axis=g['axis'])
    elif op in REDUCERS:
        real[new] = getattr(M_, op)(a, axis=g['axis'], bits=g['bits'])
    elif op == 'iadd':
        real[new] = a.__iadd__(real[st['j']])
    elif op == 'isub':
        real[new] = a.__isub__(real[st['j']])
    elif op == 'imul':
        real[new] = a.__imul__(real[st['j']])
    elif op == 'imatmul':
        real[new] = a.__imatmul__(real[st['j']])
    elif op == 'ipow':
        real[new] = a.__ipow__(g['n'])
    elif op == 'setitem_s':
        a[g['key']] = st['x']
    elif op == 'setitem_m':
        a[g['key']] = real[st['j']]
    elif op == 'put':
        a.put(call_form(g['ind'], g.get('indform', 'list')), call_form(g['v'], g.get('vform', 'list')), mode=g['mode'])
    elif op == 'setbits':
        a.bits = g['b']
    else:
        raise AssertionError(op)


def seq_coq_step(st, pos):
    op, g = st['op'], st.get('args', {})
    i = pos[st['i']]
    j = pos.get(st.get('j'))
    if op == 'probe':
        return '(PProbe %d)' % i
    if op in ('copy', 'transpose', 'reversed'):
        return '(P%s %d)' % (op.capitalize(), i)
    if op in ('getitem', 'setitem_s', 'setitem_m'):
        k = g['key']
        kr, kc = k if isinstance(k, tuple) else (k, slice(None))
        if op == 'getitem':
            return '(PGetitem %d %s %s)' % (i, key_coq(kr), key_coq(kc))
        if op == 'setitem_s':
            return '(PSetitemS %d %s %s %d)' % (i, key_coq(kr), key_coq(kc), st['x'])
        return '(PSetitemM %d %s %s %d)' % (i, key_coq(kr), key_coq(kc), j)
    if op == 'reshape':
        return '(PReshape %d (%d) (%d) %s)' % (i, g['nr'], g['nc'], 'true' if g['order'] == 'F' else 'false')
    if op == 'flatten':
        return '(PFlatten %d %s)' % (i, 'true' if g['order'] == 'F' else 'false')
    if op in ('pow', 'ipow'):
        return '(P%s %d %d)' % ('Pow' if op == 'pow' else 'Ipow', i, g['n'])
    if op in ('add', 'sub', 'mul', 'matmul', 'iadd', 'isub', 'imul', 'imatmul'):
        return '(P%s %d %d)' % (op.capitalize(), i, j)
    if op in ('hstack', 'vstack'):
        return '(P%s [%s])' % (op.capitalize(), '; '.join('%d%%nat' % pos[k] for k in st['l']))
    if op == 'concatenate':
        return '(PConcat [%s] %d)' % ('; '.join('%d%%nat' % pos[k] for k in st['l']), g['axis'])
    if op in REDUCERS:
        return '(PReduce %d %d %s %s)' % (REDUCERS[op], i, AXES[g['axis']], zopt(g['bits']))
    if op == 'put':
        return '(PPut %d %s %s %s)' % (i, zl(g['ind']), zl(g['v']), MODES[g['mode']])
    if op == 'setbits':
        return '(PSetbits %d %d)' % (i, g['b'])
    raise AssertionError(op)


def gen_sequence(ctx, n, tier):
    """one history: input objects + a list of applicable steps (ids, not positions)"""
    rng = ctx.sub_rng('sequence', tier, n)
    nin = rng.choice([1, 2, 2, 3])
    r, c = rng.choice([(2, 2), (2, 2), (2, 3), (3, 2), (1, 3), (3, 1), (1, 2)])
    # every third history is a RECOMPUTE history: one derived value f(X) is computed, X is updated in place, f(X) is
    # computed again (twice over) -- whatever a Matrix object remembers about itself must not outlive an update
    recompute = (n % 3 == 0)
    if recompute:
        r, c = 2, 2
    inputs = []
    for k in range(nin):
        rr, cc = (r, c) if k == 0 or rng.random() < 0.7 else rng.choice([(c, r), (r, r), (c, c)])
        mb = rng.choice([8, 10, 12, 16, 64])
        inputs.append((rr, cc, rng.randint(2, 3) if (recompute and k == 0) else rng.randint(2, 5), mb))
    pool = {'in%d' % k: obj(o[0], o[1], o[2], o[3], [[0] * o[1] for _ in range(o[0])]) for k, o in enumerate(inputs)}
    nsteps = rng.randint(4, 9 if tier == 'quick' else 12)
    steps = []
    recent = list(pool)
    kinds = ['probe', 'copy', 'transpose', 'reversed', 'getitem', 'reshape', 'flatten', 'pow', 'add', 'sub', 'mul',
             'matmul', 'stack', 'stack', 'reduce', 'iadd', 'isub', 'isub', 'imul', 'imatmul', 'ipow', 'setitem_s',
             'setitem_m', 'put', 'setbits', 'setbits', 'setbits']
    tries = 0
    forced = []
    if recompute:
        f_kind = rng.choice(['pow2', 'pow2', 'pow1', 'matmul_self', 'transpose', 'reduce', 'add_self', 'flatten', 'copy'])
        upd = lambda: rng.choice(['setitem_s', 'setitem_s', 'put', 'setitem_m', 'isub'])
        forced = [f_kind, upd(), f_kind, upd(), f_kind]
        if rng.random() < 0.5:
            forced = [rng.choice(['add', 'transpose', 'setitem_s'])] + forced
        nsteps = max(nsteps, len(forced) + 1)
    while len(steps) < nsteps and tries < 200:
        tries += 1
        ids = list(pool)
        fk = forced.pop(0) if forced else None

        def pick():
            # prefer objects touched recently (the histories that matter are about one object)
            return rng.choice(recent[-3:]) if rng.random() < 0.65 else rng.choice(ids)
        i = pick()
        kind = rng.choice(kinds)
        if fk is not None:
            i = 'in0'
            kind = {'pow2': 'pow', 'pow1': 'pow', 'matmul_self': 'matmul', 'add_self': 'add'}.get(fk, fk)
        a = pool[i]
        st = {'op': kind, 'i': i, 'new': 'r%d' % len(steps)}
        big = a['b'] > 14
        if kind in ('probe', 'copy', 'transpose', 'reversed'):
            pass
        elif kind == 'getitem':
            if a['r'] > 1 and (a['r'] - 1) * a['c'] > 1 and rng.random() < 0.5:
                st['args'] = {'key': rng.choice([slice(0, a['r'] - 1), slice(1, None), (slice(-(a['r'] - 1), None), slice(None))])}
            elif a['c'] > 1 and a['r'] * (a['c'] - 1) > 1:
                st['args'] = {'key': (slice(None), rng.choice([slice(0, a['c'] - 1), slice(1, None)]))}
            else:
                continue
        elif kind == 'reshape':
            st['args'] = {'nr': rng.choice([a['c'], -1]), 'nc': a['r'], 'order': rng.choice('CF')}
        elif kind == 'flatten':
            st['args'] = {'order': rng.choice('CF')}
        elif kind in ('pow', 'ipow'):
            n_ = rng.choice([0, 1, 2, 2])
            if fk in ('pow2', 'pow1'):
                n_ = 2 if fk == 'pow2' else 1
            if a['r'] != a['c'] or a['r'] > 2 or (n_ == 2 and a['b'] > 6):
                continue
            st['args'] = {'n': n_}
        elif kind in ('add', 'sub', 'mul', 'iadd', 'isub', 'imul'):
            cands = [k for k in ids if (pool[k]['r'], pool[k]['c']) == (a['r'], a['c'])]
            st['j'] = i if fk == 'add_self' else rng.choice(cands)
            if kind in ('mul', 'imul') and a['b'] + pool[st['j']]['b'] > 20:
                continue
        elif kind in ('matmul', 'imatmul'):
            cands = [k for k in ids if pool[k]['r'] == a['c'] and pool[k]['b'] + a['b'] <= 10]
            if not cands or a['r'] * a['c'] > 6:
                continue
            st['j'] = i if (fk == 'matmul_self' and i in cands) else rng.choice(cands)
        elif kind == 'stack':
            st['op'] = rng.choice(['hstack', 'vstack', 'concatenate'])
            ax = rng.choice([0, 1])
            horiz = st['op'] == 'hstack' or (st['op'] == 'concatenate' and ax == 0)
            cands = [k for k in ids if (pool[k]['r'] == a['r'] if horiz else pool[k]['c'] == a['c'])]
            nmore = rng.choice([0, 0, 1, 2])
            st['l'] = [i] + [rng.choice(cands) for _ in range(nmore)]
            if st['op'] == 'concatenate':
                st['args'] = {'axis': ax}
            if sum(pool[k]['r'] * pool[k]['c'] for k in st['l']) > 16:
                continue
        elif kind == 'reduce':
            st['op'] = rng.choice(list(REDUCERS))
            st['args'] = {'axis': rng.choice([0, 1]), 'bits': rng.choice([None, None, rng.randint(1, 8)])}
            if fk == 'reduce':          # the same reduction each time it is recomputed
                st['op'] = sorted(REDUCERS)[n % len(REDUCERS)]
                st['args'] = {'axis': n % 2, 'bits': None}
        elif kind == 'setitem_s':
            st['args'] = {'key': (rng.randint(-a['r'], a['r'] - 1), rng.randint(-a['c'], a['c'] - 1))}
            st['x'] = rng.choice([0, (1 << min(a['b'], 16)) - 1, rng.randint(0, (1 << min(a['b'], 16)) - 1)])
        elif kind == 'setitem_m':
            cands = [k for k in ids if pool[k]['c'] == a['c'] and pool[k]['r'] <= a['r']]
            if not cands:
                continue
            st['j'] = rng.choice(cands)
            rr = pool[st['j']]['r']
            start = rng.randint(0, a['r'] - rr)
            st['args'] = {'key': (slice(start, start + rr), slice(None))}
        elif kind == 'put':
            count = a['r'] * a['c']
            top_ = (1 << min(a['b'], 16)) - 1
            st['args'] = {'ind': [rng.randint(-count, count + 1) for _ in range(rng.randint(1, 3))],
                          'v': [rng.choice([0, top_, rng.randint(0, top_)]) for _ in range(rng.randint(1, 3))],
                          'mode': rng.choice(['wrap', 'clip'])}
            g_ = st['args']
            g_['vform'] = rng.choice(['scalar', 'list', 'tuple']) if len(g_['v']) == 1 else rng.choice(['list', 'tuple'])
            g_['indform'] = rng.choice(['int', 'list', 'tuple']) if len(g_['ind']) == 1 else rng.choice(['list', 'tuple'])
        elif kind == 'setbits':
            lo, hi = 1, min(a['mb'], 12)
            st['args'] = {'b': rng.randint(lo, hi)}
        if big and st['op'] in ('mul', 'imul', 'matmul', 'imatmul', 'pow', 'ipow'):
            continue
        try:
            pool2 = ref_step(pool, st)
        except (SpecError, KeyError, IndexError, ZeroDivisionError):
            continue
        if any(o['b'] > o['mb'] or o['b'] > 40 for o in pool2.values()):
            continue
        pool = pool2
        steps.append(st)
        for k in (st['i'], st.get('j'), st['new']):
            if k in pool:
                recent.append(k)
    return {'inputs': inputs, 'steps': steps, 'observe': 'every-step' if rng.random() < 0.75 else 'end-only'}


def seq_vectors(ctx, seq, n, tier):
    rng = ctx.sub_rng('seqvalues', tier, n)
    vecs = []
    for k in range(3 if tier == 'quick' else 5):
        vec = []
        for (r, c, b, mb) in seq['inputs']:
            top = (1 << capb(b, mb)) - 1
            if k == 0:
                m = [top] * (r * c)
            elif k == 1:
                m = [rng.choice([top, max(top - 1, 0), top // 2 + 1]) for _ in range(r * c)]
            else:
                m = [rng.randint(0, top) for _ in range(r * c)]
            vec.append(enc([m], capb(b, mb)))
        vecs.append(tuple(vec))
    return vecs


def seq_run_real(job):
    """build the history with the real class, observe every object after every step, simulate"""
    seq, vecs = job
    pyrtl.reset_working_block()
    real = {}
    names = []
    for k, (r, c, b, mb) in enumerate(seq['inputs']):
        w = pyrtl.Input(r * c * capb(b, mb), 'in%d' % k)
        names.append(w.name)
        real['in%d' % k] = M.Matrix(r, c, b, value=w, max_bits=mb)
    snaps = []          # per step: list of (id, attrs, output name or None)
    error = None
    nouts = 0
    last = len(seq['steps']) - 1
    for t, st in enumerate(seq['steps']):
        try:
            seq_exec(real, st, M)
        except Exception as e:          # any exception: the reference says the step is applicable
            error = (t, '%s: %s' % (type(e).__name__, clean(str(e))))
            break
        snap = []
        for k, m in real.items():
            attrs = {'rows': m.rows, 'cols': m.columns, 'bits': m.bits, 'max_bits': m.max_bits,
                     'signed': m.signed, 'is_matrix': isinstance(m, M.Matrix)}
            oname = None
            if seq['observe'] == 'every-step' or t == last:
                try:
                    wv = m.to_wirevector()
                    o = pyrtl.Output(len(wv), 's%d_%s' % (t, k))
                    o <<= wv
                    oname = o.name
                    attrs['len'] = len(wv)
                    nouts += 1
                except Exception as e:
                    error = (t, 'to_wirevector of %s: %s: %s' % (k, type(e).__name__, clean(str(e))))
                    break
            snap.append((k, attrs, oname))
        if error:
            break
        snaps.append(snap)
    values = []
    if nouts:
        try:
            block = pyrtl.working_block()
            outs = sorted(block.wirevector_subset(pyrtl.Output), key=lambda w: w.name)
            sim = pyrtl.Simulation(tracer=pyrtl.SimulationTrace(wires_to_track=outs, block=block), block=block)
            for vec in vecs:
                sim.step(dict(zip(names, vec)))
                values.append({w.name: sim.inspect(w.name) for w in outs})
        except Exception as e:
            error = (len(snaps) - 1 if snaps else 0,
                     'the design built by this history cannot be simulated: %s: %s' % (type(e).__name__, clean(str(e))))
            snaps = snaps[:error[0]]
    pyrtl.reset_working_block()
    return snaps, values, error


def seq_json(seq):
    def sj(st):
        d = dict(st)
        if 'args' in d:
            d['args'] = args_json(d['args'])
        return d
    return {'inputs_rows_cols_bits_maxbits': [list(o) for o in seq['inputs']], 'steps': [sj(s) for s in seq['steps']],
            'observe': seq['observe']}


def seq_from_json(d):
    def sj(st):
        st = dict(st)
        if 'args' in st:
            st['args'] = args_from_json(st['args'])
        return st
    return {'inputs': [tuple(o) for o in d['inputs_rows_cols_bits_maxbits']], 'steps': [sj(s) for s in d['steps']],
            'observe': d.get('observe', 'every-step')}


def seq_reference(seq, vec):
    pool = {'in%d' % k: obj(r, c, capb(b, mb), mb, dec(v, r, c, capb(b, mb)))
            for k, ((r, c, b, mb), v) in enumerate(zip(seq['inputs'], vec))}
    out = []
    for st in seq['steps']:
        pool = ref_step(pool, st)
        out.append(pool)
    return out


def seq_first_failure(seq, vecs, real):
    """first disagreement between the implementation and the value-level reference, or None"""
    snaps, values, error = real
    for vi, vec in enumerate(vecs):
        ref = seq_reference(seq, vec)
        for t, st in enumerate(seq['steps']):
            if error and error[0] == t:
                return {'step': t, 'op': st['op'], 'kind': 'raises', 'what': 'step %d (%s) raises %s where it is defined'
                        % (t, st['op'], error[1]), 'values': list(vec)}
            if t >= len(snaps):
                break
            for (k, attrs, oname) in snaps[t]:
                want = ref[t][k]
                touched = k in (st.get('new'),) or (k == st['i'] and st['op'] in SEQ_INPLACE + SEQ_UPDATE)
                who = 'result/target' if touched else 'BYSTANDER (not documented as modified by this call)'
                got_attrs = (attrs['rows'], attrs['cols'], attrs['bits'], attrs['max_bits'], attrs['signed'])
                want_attrs = (want['r'], want['c'], want['b'], want['mb'], False)
                if got_attrs != want_attrs:
                    return {'step': t, 'op': st['op'], 'kind': 'attrs' if touched else 'bystander', 'object': k,
                            'what': 'after step %d (%s) object %s [%s] has (rows, columns, bits, max_bits, signed) = %s, '
                                    'expected %s' % (t, st['op'], k, who, got_attrs, want_attrs), 'values': list(vec)}
                if oname is not None:
                    if attrs['len'] != want['r'] * want['c'] * want['b']:
                        return {'step': t, 'op': st['op'], 'kind': 'len', 'object': k, 'values': list(vec),
                                'what': 'after step %d (%s) len(%s.to_wirevector()) = %d' % (t, st['op'], k, attrs['len'])}
                    got = dec(values[vi][oname], want['r'], want['c'], want['b'])
                    if got != want['v']:
                        return {'step': t, 'op': st['op'], 'kind': 'value' if touched else 'bystander', 'object': k,
                                'what': 'after step %d (%s) object %s [%s] holds %s, expected %s' % (
                                    t, st['op'], k, who, got, want['v']), 'values': list(vec),
                                'expected': want['v'], 'got': got}
    return None


def seq_shrink(seq, vecs, fail):
    """greedy: drop steps / shorten while the history still fails"""
    best, bfail = seq, fail
    best = dict(best, steps=best['steps'][:fail['step'] + 1])
    changed = True
    budget = 40
    while changed and budget > 0:
        changed = False
        for k in range(len(best['steps']) - 1):
            cand = dict(best, steps=best['steps'][:k] + best['steps'][k + 1:])
            try:
                seq_reference(cand, vecs[0])
            except Exception:
                continue
            budget -= 1
            f = seq_first_failure(cand, vecs, seq_run_real((cand, vecs)))
            if f is not None:
                best, bfail, changed = dict(cand, steps=cand['steps'][:f['step'] + 1]), f, True
                break
            if budget <= 0:
                break
    f = seq_first_failure(best, vecs, seq_run_real((best, vecs)))
    return (best, f) if f is not None else (seq, fail)


def seq_coq_expr(seq, vecs):
    pos = {'in%d' % k: k for k in range(len(seq['inputs']))}
    steps = []
    for st in seq['steps']:
        steps.append(seq_coq_step(st, pos))
        if st['op'] not in ('probe',) + SEQ_UPDATE:
            pos[st['new']] = len(pos)
    ins = '; '.join('mx_in %d %d %d %d (nth %d v 0)' % (r, c, b, mb, k) for k, (r, c, b, mb) in enumerate(seq['inputs']))
    return 'map (fun v : list Z => prun_out [%s] [%s]) [%s]' % (ins, '; '.join(steps), '; '.join(zl(list(t)) for t in vecs)), pos


def run_sequences(ctx):
    tier = ctx.tier
    nseq = 140 if tier == 'quick' else 900
    seqs = [gen_sequence(ctx, n, tier) for n in range(nseq)]
    seqs = [s for s in seqs if s['steps']]
    vecs = [seq_vectors(ctx, s, n, tier) for n, s in enumerate(seqs)]
    box = {}
    exprs, poss = [], []
    for s, v in zip(seqs, vecs):
        e, pos = seq_coq_expr(s, v)
        exprs.append(e)
        poss.append(pos)

    def eval_model():
        try:
            box['model'] = ctx.coq_eval(exprs, IMPORTS, tag='c19seq', shard=(25 if tier == 'quick' else 60), jobs=6)
        except Exception as e:
            box['error'] = str(e)[-800:]
    th = threading.Thread(target=eval_model)
    th.start()
    reals = pmap(seq_run_real, list(zip(seqs, vecs)), chunksize=2)
    th.join()
    model = box.get('model')
    if model is None:
        ctx.model_mismatch('Lib/Matrix.v (prun) could not be evaluated: %s' % box.get('error'), {})
    reported = {}
    for n, (seq, vs, real) in enumerate(zip(seqs, vecs, reals)):
        try:
            ctx.count('ops', 'sequence')
            ctx.count('sequence_length', len(seq['steps']))
            ctx.count('sequence_observe', seq['observe'])
            for st in seq['steps']:
                ctx.count('sequence_steps', st['op'])
            pairs = set()
            for x, y in zip(seq['steps'], seq['steps'][1:]):
                pairs.add((x['op'], y['op']))
            for pr in pairs:
                ctx.count('sequence_adjacent_pairs_distinct', 'any')
            for vi, vec in enumerate(vs):
                ctx.case(('sequence', repr(seq_json(seq)), vec), nontrivial=any(vec),
                         sample=(dict(seq_json(seq), wire_inputs=list(vec)) if n % 60 == 0 and vi == 0 else None))
            fail = seq_first_failure(seq, vs, real)
            if fail is not None:
                sig = 'sequence:%s:%s' % (fail['kind'], fail['op'])
                if reported.get(sig, 0) < 2 and len(reported) < 8:
                    reported[sig] = reported.get(sig, 0) + 1
                    sseq, sfail = seq_shrink(seq, vs, fail)
                    sig = 'sequence:%s:%s' % (sfail['kind'], sfail['op'])
                    ctx.spec_violation(sig, 'Matrix history: ' + sfail['what'],
                                       dict(sequence=seq_json(sseq), wire_inputs=sfail['values'], first_failure=sfail,
                                            seed=ctx.seed, tier=ctx.tier, original_sequence=seq_json(seq)))
            # tie with the Coq pool model
            if model is None:
                continue
            snaps, values, error = real
            inv = {}
            for k, pidx in poss[n].items():
                inv[pidx] = k
            for vi, vec in enumerate(vs):
                mruns = model[n][vi]
                bad = None
                if len(mruns) != len(snaps) and not (error and len(mruns) >= len(snaps)):
                    bad = 'model runs %d steps, implementation %d' % (len(mruns), len(snaps))
                for t in range(min(len(mruns), len(snaps))):
                    if bad:
                        break
                    got = {k: (attrs, oname) for (k, attrs, oname) in snaps[t]}
                    if len(mruns[t]) != len(got):
                        bad = 'pool size after step %d: model %d, implementation %d' % (t, len(mruns[t]), len(got))
                        break
                    for pidx, (mbits, mdat, mwv, mmaxb) in enumerate(mruns[t]):
                        attrs, oname = got[inv[pidx]]
                        if (attrs['bits'], attrs['max_bits'], attrs['rows']) != (mbits, mmaxb, len(mdat)):
                            bad = 'step %d object %s: attributes %s vs model bits=%d maxb=%d rows=%d' % (
                                t, inv[pidx], attrs, mbits, mmaxb, len(mdat))
                            break
                        if oname is not None and values[vi][oname] != mwv:
                            bad = 'step %d (%s) object %s: wire %d vs model %d' % (
                                t, seq['steps'][t]['op'], inv[pidx], values[vi][oname], mwv)
                            break
                if bad:
                    ctx.model_mismatch('Matrix history: implementation != Lib/Matrix.v prun: ' + bad,
                                       dict(sequence=seq_json(seq), wire_inputs=list(vec)))
                    break
        except Exception as e:      # a harness fault on one history is reported for it; the run goes on
            ctx.model_mismatch('harness fault while judging a history: %s: %s' % (type(e).__name__, clean(str(e))),
                               dict(sequence=seq_json(seq)))


def replay(ctx, data):
    """re-run one recorded case: data = a VIOLATION file written by the runner"""
    rep = data.get('replay', data)
    if 'sequence' in rep:
        seq = seq_from_json(rep['sequence'])
        vecs = [tuple(rep['wire_inputs'])]
        real = seq_run_real((seq, vecs))
        fail = seq_first_failure(seq, vecs, real)
        if fail is not None:
            ctx.spec_violation('sequence:%s:%s' % (fail['kind'], fail['op']), 'Matrix history: ' + fail['what'],
                               dict(sequence=seq_json(seq), wire_inputs=fail['values'], first_failure=fail))
        print(json.dumps({'sequence': seq_json(seq), 'first_failure': fail}, default=str))
        return
    case = case_from_json(rep)
    vec = tuple(rep['wire_inputs'])
    infos, outs = run_batch([case], [[vec]])
    try:
        model = ctx.coq_eval(['map (fun v : list Z => %s) [%s]' % (coq_expr(case), zl(list(vec)))], IMPORTS,
                             tag='c19replay')[0]
    except Exception as e:
        model = None
        ctx.model_mismatch('Lib/Matrix.v could not be evaluated: %s' % str(e)[-800:], {})
    judge(ctx, 0, case, [vec], infos[0], outs[0], model)
    print(json.dumps({'case': case_json(case), 'implementation': infos[0], 'wire_output': outs[0], 'model': model},
                     default=str))
