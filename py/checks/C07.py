"""C07: conditional_assignment gives each target its unique active branch's value.

Tie (model <-> /repo, every run):
  * accept/reject: the real `with pyrtl.conditional_assignment:` program raises PyrtlError
    exactly when Front/Cond.v `elab` returns None;
  * structural: the mux/and/not netlist the real elaboration leaves behind for each target
    IS the expression `elab` returns (prefix serialisation compared node by node), so the
    Coq theorems (all valuations, all data values) apply to that netlist;
  * behavioural: pyrtl.Simulation under all predicate valuations over a multi-cycle run
    equals `veval` of the model expression cycle by cycle.
Search (implementation <-> specification):
  * the tree interpreter of Front/CondSpec.v (evaluated in Coq) AND an independent
    plain-Python tree interpreter with its own register / memory state;
  * the syntactic exclusivity criterion decides which programs must raise.
A stream of malformed programs (raising ones, a foreign exception inside the block, a
2-bit predicate, nested conditional_assignment, several blocks per design) is interleaved
to detect module state leaking from one elaboration into the next.
"""
import itertools
import traceback

import pyrtl

RULE = ('condition programs = forests of with-predicate / otherwise / |= nodes: (1) bounded-exhaustive: ALL '
        'forests with <= N branch nodes labelled {p0,p1,otherwise} x every subset of 2 targets assigned per '
        'branch, for 4 target pairs (wire+register, wire+memory, register+memory, wire+wire); quick N=2 plus '
        '300 seeded samples of N=3 over 3 predicates, thorough N=3 (two pairs) plus 2000 samples of N=4; '
        '(2) seeded random forests (quick 400, thorough 6000): depth <= 4 (thorough 5), 3-5 shared 1-bit Input '
        'predicates, 2-3 targets among WireVector/Register/MemBlock, assignments at random positions among the '
        'branches, otherwise at any position (first, middle, repeated), defaults= in 40 %, mixed-width / int '
        'right-hand sides sometimes; 60 % are repaired into accepted programs by dropping conflicting '
        'assignments; the random forests also reuse address / data / enable wires with probability 0-0.8; '
        '(2a) programs with one predicate wire 2-4 bits wide (80/800 random + all 2-node shapes): PyrtlError '
        'exactly when a `with` on it is entered, pred_sets observed up to that point; '
        '(2c) state-dependent right-hand sides: the rhs of a branch or the declared default IS one of the design\'s '
        'registers -- explicit hold r.next |= r, copy of another register, wire |= register -- all combinations of '
        'rhs kinds {Input, the target itself, another register} over 1-2 (thorough 3) exclusive branches x declared '
        'default {none, Input, itself, other register} x 3 shapes, and 0/25/50 % of the rhs in the random forests; '
        '(2d) right-hand sides of every kind |= accepts, in every slot (wire, register, memory data / address / '
        'enable) and at widths 1/3/8: ints 0, 1, 2^w-1, 2^w, 2^w+3, -1, -2^(w-1), -2^(w-1)-1, -2^w, bools, Verilog '
        'strings of the right / wrong width and negative, Const objects unsigned / signed / narrower / wider, Inputs '
        'narrower / equal / wider; outcome (value at the target width, or PyrtlError) decided by the small coercion '
        'spec coerce_ok; 25 % of the non-plain rhs in random forests are drawn from the same menu; '
        '(2e) caught errors: 150 (thorough 1500) random forests in which most conflicting |= (and a few good ones) '
        'are wrapped in try/except PyrtlError so that the elaboration of the block continues; specification: a '
        'rejected statement has no effect, the design is that of the program without it (values, pred_sets seen); '
        '(2f) other legal kinds of objects: targets that are Outputs or user SUBCLASSES of Register / WireVector / '
        'Output, MemBlocks built with max_write_ports None / 1 / 2 / 3, max_read_ports, asynchronous, predicates that '
        'are a memory read used directly (`with mem[a]:`), a comparison, a match_bitpattern result, a '
        'WrappedWireVector, a bit slice or a 1-bit Const -- a third of every stream is re-dressed this way and 240 '
        '(thorough 2400) random forests have the aspects forced; any exception other than PyrtlError is a violation; '
        '(2b) memory write chains: 2-4 (thorough 5) conditional writes to ONE MemBlock with address wires drawn '
        'from a pool of 3 SHARED address Inputs -- every address-wire pattern up to renaming (XY, XYY, XYX, XXYY, '
        'XYZX ...) x 4 tree shapes (flat chain, chain ending in otherwise, nested otherwise, split), plus 60 '
        '(thorough 600) random ones with shared data wires too; distinct address wires get distinct values '
        'each cycle and the FULL memory contents are compared after every cycle; '
        '(3) multi-block designs (2-3 conditional blocks per design; fresh defaults literal per block, or ONE dict '
        'object passed to every block and checked unchanged afterwards; defaults of one block naming '
        'targets of another) and a malformed stream (2-bit predicate, foreign exception inside the block, nested '
        'conditional_assignment, otherwise outside a block, repeated assignment, unguarded assignment) '
        'interleaved with the good programs in one process, module state inspected after each. Each accepted '
        'program is simulated under ALL valuations of its predicates (<= 32, shuffled, twice with fresh data, '
        'random initial register/memory contents) in one multi-cycle run so registers and memories carry state. '
        'Per program: accept/reject vs model and vs syntactic criterion; pred_set of every |= (observed by '
        'wrapping conditional._check_and_add_pred_set) vs model; elaborated netlist vs model expression '
        '(structural); simulated values vs Coq model, Coq tree interpreter and an independent Python tree '
        'interpreter. Distinct by generated source text + stimulus; non-trivial when rejected for a conflict or '
        'some target takes >= 2 values during the run.')
IMPORTS = ('From Coq Require Import ZArith List Bool.\n'
           'From PyRTL Require Import Front.Cond Front.CondSpec Front.CondHarness.\n'
           'Import ListNotations. Open Scope Z_scope.')
COQ_TARGETS = ['theories/Front/CondHarness.vo']
PROPS_FILES = ['theories/Props/C07.v', 'theories/Props/C07Rules.v']
TRUSTED = ['py/checks/C07.py coerce_ok / leaf_own_value: the coercion rule of |= (which right-hand sides are taken, at what value)',
           'Front/CondSpec.v: the tree interpreter (branch_active / next_taken / flags_tree), '
           'spec_value / spec_mem, and the syntactic exclusivity criterion (slits / syn_excl / spec_accepts)',
           'py/checks/C07.py py_flags / py_lits: the same specification written independently in Python']
ASSUMPTIONS = ['the model has three target kinds (wire / register / memory) and abstract predicate ids: the Python class of a target '
               '(Output, user subclasses), a memory\'s port options and the kind of object a predicate is (Input, memory read, '
               'comparison, match_bitpattern, wrapper, slice, Const) are abstracted; covered by the correspondence only',
               'predicates are wires of known bitwidth (a `with` on a wire wider than 1 bit raises: elab_w); right-hand sides, addresses, data, enables and declared '
               'defaults are opaque wires (leaves) whose per-cycle values are the environment',
               'a right-hand side is first converted to the target width by |= (as_wires/truncate/zero-extend); '
               'the model sees the converted value',
               'the Coq value theorems are per cycle for EVERY environment (predicates, data, register file); '
               'C07_multi_cycle_registers composes them over input sequences for a latch-every-cycle model of '
               'registers; that the simulator really latches / applies enabled memory writes is C01/C08 and is '
               'exercised here by multi-cycle simulation with state-carrying registers and memories',
               'several conditional blocks in one design are specified block by block (declared defaults belong '
               'to the block that declares them)',
               'Python with-protocol / exception unwinding is exercised by the malformed stream only; a PyrtlError '
               'caught around a single |= inside the block is specified as "the statement has no effect" and the '
               'remaining program is modelled',
               'translator tie (py/genfrag_C07.py -> Gen/CondRules.v, Props/C07Rules.v): translated from the current '
               'source are the conflict condition, the width guard, the WHOLE of _current_select (and_with_possible_none, '
               'between_otherwise_and_current incl. its last-otherwise index and slices, the select conjuncts and recorded '
               'polarities; C07_rule_current_select: on every stack it returns the (select, pred_set) of the model), the '
               'default selection and the select steps of both _finalize folds; the generator then assembles _push_condition, '
               '_build, the per-target _finalize and the whole elaboration (gen_elab) from these rules and C07_rule_elab proves '
               'elab_w = gen_elab, so the property theorems hold of the regenerated elaborator; only the statement ORDER of the state '
               'machine (_push/_pop_condition, _build, _check_and_add_pred_set, __enter__/__exit__, the loop skeletons) is '
               'shape-checked fail-closed (any other edit there reports the tie broken until the model is re-validated)']


# ----------------------------------------------------------------------------------------
# program representation
#   ('with', p, [body]) | ('oth', [body]) | ('asg', ('w'|'r', i), leaf) | ('mem', m, a, d, e)

def lhs_of(t):
    return t[1] if t[0] == 'asg' else ('m', t[1])


def walk(forest):
    for t in forest:
        yield t
        if t[0] == 'with':
            for x in walk(t[2]):
                yield x
        elif t[0] == 'oth':
            for x in walk(t[1]):
                yield x


def depth_of(forest):
    d = 0
    for t in forest:
        if t[0] == 'with':
            d = max(d, 1 + depth_of(t[2]))
        elif t[0] == 'oth':
            d = max(d, 1 + depth_of(t[1]))
    return d


# ---------------------------------------------------------------- independent Python spec
def py_flags(forest, rho, en=True):
    """[(assignment node, active?)] in program order"""
    out = []
    taken = False
    for t in forest:
        if t[0] == 'with':
            me = en and (not taken) and bool(rho[t[1]])
            out += py_flags(t[2], rho, me)
            taken = taken or me
        elif t[0] == 'oth':
            me = en and (not taken)
            out += py_flags(t[1], rho, me)
            taken = False
        else:
            out.append((t, en))
    return out


def py_lits(forest, ctx=()):
    out = []
    since = []
    for t in forest:
        if t[0] == 'with':
            c = ctx + tuple((q, True) for q in since) + ((t[1], False),)
            out += py_lits(t[2], c)
            since = since + [t[1]]
        elif t[0] == 'oth':
            c = ctx + tuple((q, True) for q in since)
            out += py_lits(t[1], c)
            since = []
        else:
            out.append((lhs_of(t), ctx, t))
    return out


def py_excl(a, b):
    return any(pa == pb and na != nb for (pa, na) in a for (pb, nb) in b)


def py_accepts(forest, pwidths=None):
    """spec criterion: every `with` predicate is a 1-bit wire, every assignment is guarded, and
    assignments to one target are pairwise syntactically exclusive"""
    if pwidths and any(t[0] == 'with' and pwidths[t[1]] > 1 for t in walk(forest)):
        return False, 'wide-predicate'
    ls = py_lits(forest)
    if any(len(c) == 0 for _, c, _ in ls):
        return False, 'unguarded'
    for i in range(len(ls)):
        for j in range(i + 1, len(ls)):
            if ls[i][0] == ls[j][0] and not py_excl(ls[i][1], ls[j][1]):
                return False, 'conflict'
    return True, 'ok'


def assigned_targets(forest):
    out = []
    for t in walk(forest):
        if t[0] in ('asg', 'mem'):
            l = lhs_of(t)
            if l not in out:
                out.append(l)
    return out


# ---------------------------------------------------------------- emit: Python source + Coq term
def wname(l):
    return '%s%d' % (l[0], l[1])


def leaf_src(case, i):
    lf = case['leaves'][i]
    if lf['kind'] == 'reg':
        return wname(lf['reg'])       # the Register object itself: `r0.next |= r0` (hold), `w0 |= r1`, ...
    if lf['kind'] in ('int', 'bool'):
        return repr(lf['val'])
    if lf['kind'] == 'str':
        return repr(lf['text'])
    if lf['kind'] == 'const':
        return 'pyrtl.Const(%d, bitwidth=%d, signed=%s)' % (lf['val'], lf['bw'], lf['signed'])
    return 'x%d' % i


# ---------------------------------------------------------------- the coercion rule of `|=` (small spec)
# What `target |= rhs` accepts, from the documentation of as_wires / Const / infer_val_and_bitwidth:
#   WireVector (Input, Register, Const object ...) of width w:
#       wire / register target of width W : always; the value is taken at width W (zero-extended or the
#                                           most significant bits dropped)
#       memory data / address / enable    : never truncated -> PyrtlError when w > the port width
#   Python int v   : a constant OF THE TARGET'S WIDTH: 0 <= v < 2^W as is, -2^(W-1) <= v < 0 as two's
#                    complement at width W, anything else PyrtlError
#   bool           : a 1-bit constant: only for 1-bit targets (PyrtlError otherwise)
#   "n'd.." string : a constant of width n: PyrtlError unless n equals the target's width
def wire_like_width(lf):
    if lf['kind'] in ('in', 'reg'):
        return lf['width']
    if lf['kind'] == 'const':
        return lf['bw']
    return None


def coerce_ok(lf, width, truncating):
    k = lf['kind']
    if k in ('in', 'reg', 'const'):
        return truncating or wire_like_width(lf) <= width
    if k == 'int':
        v = lf['val']
        return v < (1 << width) if v >= 0 else v >= -(1 << (width - 1))
    if k == 'bool':
        return width == 1
    if k == 'str':
        return lf['num'] is not None and lf['n'] == width
    raise ValueError(k)


def leaf_own_value(lf):
    """value of a constant-like leaf at its own width (None for wires whose value is stimulus / state)"""
    k = lf['kind']
    if k == 'int':
        return lf['val']            # masked to the target width by eff (two's complement for negatives)
    if k == 'bool':
        return int(lf['val'])
    if k == 'str':
        return lf['num'] or 0
    if k == 'const':
        return lf['val'] & ((1 << lf['bw']) - 1)
    return None


def asg_coercion_ok(case, t):
    L = case['leaves']
    if t[0] == 'asg':
        return coerce_ok(L[t[2]], case['W'], True)
    return (coerce_ok(L[t[2]], case['A'], False) and coerce_ok(L[t[3]], case['W'], False)
            and coerce_ok(L[t[4]], 1, False))


def coercions_ok(case):
    return all(asg_coercion_ok(case, t) for b in case['blocks'] for t in walk(b['prog']) if t[0] in ('asg', 'mem'))


def const_menu(width, rng=None):
    """right-hand sides of every non-wire kind, around the boundaries of `width`"""
    top = 1 << width
    half = 1 << (width - 1)
    ints = [0, 1, top - 1, top, top + 3, -1, -half, -half - 1, -top, top // 2]
    out = [{'kind': 'int', 'val': v} for v in ints]
    out += [{'kind': 'bool', 'val': True}, {'kind': 'bool', 'val': False}]
    for text, n, num in [("%d'd1" % width, width, 1), ("%d'b%s" % (width, '1' * width), width, top - 1),
                         ("%d'd1" % (width + 1), width + 1, 1), ("%d'h0" % width, width, 0)] + (
                             # (the most negative value of a width as a string, e.g. "-1'd1", is C16's business)
                             [("%d'd1" % (width - 1), width - 1, 1), ("-%d'd1" % width, width, top - 1)] if width > 1 else []):
        out.append({'kind': 'str', 'text': text, 'n': n, 'num': num})
    out += [{'kind': 'const', 'val': top - 1, 'bw': width, 'signed': False},
            {'kind': 'const', 'val': 1, 'bw': 1, 'signed': False},
            {'kind': 'const', 'val': top + 1, 'bw': width + 2, 'signed': False}]
    if width > 1:
        out += [{'kind': 'const', 'val': -1, 'bw': width, 'signed': True},
                {'kind': 'const', 'val': -half, 'bw': width, 'signed': True},
                {'kind': 'const', 'val': half - 1, 'bw': width, 'signed': True}]
    return out


def add_kind_leaf(case, role, spec):
    width = case['W'] if role == 'data' else case['A'] if role == 'addr' else 1
    lf = dict(spec, role=role)
    lf.setdefault('width', width)
    case['leaves'].append(lf)
    case['structural'] = False
    return len(case['leaves']) - 1


def add_reg_leaf(case, reg):
    """a right-hand side / declared default that IS one of the design's registers (state-dependent rhs)"""
    for i, lf in enumerate(case['leaves']):
        if lf['kind'] == 'reg' and lf['reg'] == reg:
            return i
    case['leaves'].append({'role': 'data', 'kind': 'reg', 'width': case['W'], 'reg': reg})
    return len(case['leaves']) - 1


def demote_dangling_reg_leaves(case):
    """a register that is not (or no longer) a declared target cannot be referenced: use a fresh Input"""
    for lf in case['leaves']:
        if lf['kind'] == 'reg' and lf['reg'] not in case['targets']:
            lf['kind'] = 'in'
            del lf['reg']


def emit_body(case, forest, ind, lines):
    pad = '    ' * ind
    if not forest:
        lines.append(pad + 'pass')
    for t in forest:
        if t[0] == 'with':
            lines.append(pad + 'with p%d:' % t[1])
            emit_body(case, t[2], ind + 1, lines)
        elif t[0] == 'oth':
            lines.append(pad + 'with pyrtl.otherwise:')
            emit_body(case, t[1], ind + 1, lines)
        else:
            if is_try(t):     # the statement's PyrtlError (if any) is caught; elaboration of the block goes on
                lines.append(pad + 'try:')
                pad2 = pad + '    '
            else:
                pad2 = pad
            if t[0] == 'asg':
                if t[1][0] == 'w':
                    lines.append(pad2 + '%s |= %s' % (wname(t[1]), leaf_src(case, t[2])))
                else:
                    lines.append(pad2 + '%s.next |= %s' % (wname(t[1]), leaf_src(case, t[2])))
            else:
                lines.append(pad2 + 'm%d[%s] |= pyrtl.MemBlock.EnabledWrite(%s, enable=%s)' % (
                    t[1], leaf_src(case, t[2]), leaf_src(case, t[3]), leaf_src(case, t[4])))
            if is_try(t):
                lines.append(pad + 'except pyrtl.PyrtlError:')
                lines.append(pad + '    pass')


def is_try(t):
    return t[0] in ('asg', 'mem') and t[-1] == 'try'


def has_try(case):
    return any(is_try(t) for b in case['blocks'] for t in walk(b['prog']))


def scan_block(case, forest):
    """Program-order account of what every |= does.  Returns (dropped, log, fatal):
    dropped = ids of caught (try-wrapped) statements that raise -- by the specification a rejected
    statement has NO effect on the design that remains; log = [(lhs name, pred_set)] of the statements that
    reach the conflict check; fatal = an uncaught statement raises (the whole program is rejected)."""
    pw = pw_of(case)
    ls = {id(node): (l, c) for l, c, node in py_lits(forest)}
    accepted = []
    dropped = set()
    log = []
    for t in walk(forest):
        if t[0] == 'with' and pw[t[1]] > 1:
            return dropped, log, True
        if t[0] not in ('asg', 'mem'):
            continue
        l, c = ls[id(t)]
        bad = (not asg_coercion_ok(case, t)) or len(c) == 0
        if not bad:
            log.append((wname(l), sorted(set(('p%d' % q, bool(n)) for q, n in c))))
            bad = any(l == l2 and not py_excl(c, c2) for l2, c2 in accepted)
        if bad:
            if not is_try(t):
                return dropped, log, True
            dropped.add(id(t))
        else:
            accepted.append((l, c))
    return dropped, log, False


def effective_case(case):
    """the program that remains when every caught, rejected statement is deleted (try markers removed)"""
    if not has_try(case):
        return case

    def strip(f, dropped):
        out = []
        for t in f:
            if t[0] == 'with':
                out.append(('with', t[1], strip(t[2], dropped)))
            elif t[0] == 'oth':
                out.append(('oth', strip(t[1], dropped)))
            elif id(t) not in dropped:
                out.append(t[:-1] if is_try(t) else t)
        return out
    new = dict(case)
    new['blocks'] = []
    for b in case['blocks']:
        dropped, _, fatal = scan_block(case, b['prog'])
        new['blocks'].append(dict(b, prog=strip(b['prog'], set() if fatal else dropped)))
    left = [l for b in new['blocks'] for l in assigned_targets(b['prog'])]
    new['undriven'] = [l for l in case['targets'] if l not in left]    # every |= to them was rejected
    new['targets'] = [l for l in case['targets'] if l in left]
    return new


def add_try_markers(rng, case):
    """wrap statements in try/except PyrtlError: most of those that raise for a conflict, a few that succeed"""
    def mark(f, status):
        out = []
        for t in f:
            if t[0] == 'with':
                out.append(('with', t[1], mark(t[2], status)))
            elif t[0] == 'oth':
                out.append(('oth', mark(t[1], status)))
            else:
                out.append(t + ('try',) if status.get(id(t)) else t)
        return out
    for b in case['blocks']:
        ls = py_lits(b['prog'])
        accepted = []
        status = {}
        for l, c, node in ls:
            conflict = len(c) > 0 and any(l == l2 and not py_excl(c, c2) for l2, c2 in accepted)
            if conflict:
                status[id(node)] = rng.random() < 0.85
            else:
                if len(c) > 0 and asg_coercion_ok(case, node):
                    accepted.append((l, c))
                status[id(node)] = rng.random() < 0.1
        b['prog'] = mark(b['prog'], status)
    return case


PRED_KINDS = ['memread', 'cmp', 'match', 'wrapped', 'bit', 'const1', 'const0']


def pkinds_of(case):
    return case.get('pkinds') or ['in'] * case['npred']


def pred_inputs(case, rho):
    """values of the Inputs that make predicate i evaluate to rho[i]"""
    ins = {}
    for i, k in enumerate(pkinds_of(case)):
        b = int(bool(rho[i]))
        if k == 'in':
            ins['p%d' % i] = rho[i]
        elif k in ('memread', 'wrapped'):
            ins['q%d' % i] = b
        elif k == 'cmp':
            ins['q%d' % i] = 1 if b else 2
        elif k in ('match', 'bit'):
            ins['q%d' % i] = 2 + (i & 1) if b else (i & 1)
    return ins


def decorate(rng, case, force=()):
    """the same condition program over other legal kinds of objects: targets that are Outputs or user
    subclasses of Register / WireVector / Output, memories built with other port options, predicates that
    are memory reads used directly, comparisons, match_bitpattern results, WrappedWireVectors, bit slices,
    1-bit Consts.  None of this changes what the property says about the program."""
    if 'targets' in force or rng.random() < 0.5:
        case['tclass'] = {}
        for l in case['targets']:
            if l[0] == 'w':
                case['tclass'][l] = rng.choice(['plain', 'sub', 'output', 'suboutput'])
            elif l[0] == 'r':
                case['tclass'][l] = rng.choice(['plain', 'sub', 'sub'])
    if 'mems' in force or rng.random() < 0.5:
        case['memopts'] = {l: rng.choice([', max_write_ports=None', ', max_write_ports=None', ', max_write_ports=1',
                                          ', max_write_ports=2', ', max_read_ports=None, max_write_ports=3',
                                          ', asynchronous=True'])
                           for l in case['targets'] if l[0] == 'm'}
    if 'preds' in force or rng.random() < 0.5:
        pw = pw_of(case)
        ks = []
        for i in range(case['npred']):
            if pw[i] > 1 or rng.random() < 0.3:
                ks.append('in')
            else:
                ks.append(rng.choice(PRED_KINDS[:5] * 3 + PRED_KINDS[5:]))
        case['pkinds'] = ks
        if any(k in ('const0', 'const1') for k in ks):
            case['structural'] = False
    return case


def emit_source(case):
    L = ['import pyrtl', 'pyrtl.reset_working_block()']
    tcl = case.get('tclass', {})
    if any(v.startswith('sub') for v in tcl.values()):
        L += ['class SubRegister(pyrtl.Register):', '    pass', 'class SubWire(pyrtl.WireVector):', '    pass',
              'class SubOutput(pyrtl.Output):', '    pass']
    pk = pkinds_of(case)
    if 'memread' in pk:
        L.append("fm = pyrtl.MemBlock(bitwidth=1, addrwidth=1, name='fm', asynchronous=True, max_read_ports=None)   # 1-bit flag table")
    for i in range(case['npred']):
        k = pk[i]
        if k == 'in':
            L.append("p%d = pyrtl.Input(%d, 'p%d')" % (i, pw_of(case)[i], i))
        elif k == 'memread':
            L.append("q%d = pyrtl.Input(1, 'q%d'); p%d = fm[q%d]   # a lazy memory read used directly as predicate" % (i, i, i, i))
        elif k == 'cmp':
            L.append("q%d = pyrtl.Input(2, 'q%d'); p%d = (q%d == 1)" % (i, i, i, i))
        elif k == 'match':
            L.append("q%d = pyrtl.Input(2, 'q%d'); p%d = pyrtl.match_bitpattern(q%d, '1?')" % (i, i, i, i))
        elif k == 'wrapped':
            L.append("q%d = pyrtl.Input(1, 'q%d'); p%d = pyrtl.wire.WrappedWireVector(q%d)" % (i, i, i, i))
        elif k == 'bit':
            L.append("q%d = pyrtl.Input(2, 'q%d'); p%d = q%d[1]" % (i, i, i, i))
        else:
            L.append("p%d = pyrtl.Const(%d, bitwidth=1)" % (i, 1 if k == 'const1' else 0))
    for i, lf in enumerate(case['leaves']):
        if lf['kind'] == 'in':
            L.append("x%d = pyrtl.Input(%d, 'x%d')" % (i, lf['width'], i))
    for l in case['targets']:
        n = wname(l)
        tc = tcl.get(l, 'plain')
        if l[0] == 'w':
            if tc in ('output', 'suboutput'):      # an Output (or user subclass of it) assigned conditionally
                L.append("%s = %s(%d, '%s')" % (n, 'pyrtl.Output' if tc == 'output' else 'SubOutput', case['W'], n))
            else:
                L.append("%s = %s(%d, '%s')" % (n, 'SubWire' if tc == 'sub' else 'pyrtl.WireVector', case['W'], n))
                L.append("o%s = pyrtl.Output(%d, 'o%s'); o%s <<= %s" % (n, case['W'], n, n, n))
        elif l[0] == 'r':
            L.append("%s = %s(%d, '%s')" % (n, 'SubRegister' if tc == 'sub' else 'pyrtl.Register', case['W'], n))
        else:
            L.append("%s = pyrtl.MemBlock(bitwidth=%d, addrwidth=%d, name='%s'%s)" % (
                n, case['W'], case['A'], n, case.get('memopts', {}).get(l, '')))
    if case.get('shared_defaults'):
        L.append('D = {%s}' % ', '.join('%s: %s' % (wname(l), leaf_src(case, lf))
                                        for l, lf in case['shared_defaults'] if l in case['targets']))
        L.append('D_ids = [(id(k), id(v)) for k, v in D.items()]')
    for blk in case['blocks']:
        if case.get('shared_defaults'):
            L.append('with pyrtl.conditional_assignment(defaults=D):')
        elif blk['defaults'] is None:
            L.append('with pyrtl.conditional_assignment:')
        else:
            L.append('with pyrtl.conditional_assignment(defaults={%s}):' % ', '.join(
                '%s: %s' % (wname(l), leaf_src(case, lf)) for l, lf in blk['defaults']))
        emit_body(case, blk['prog'], 1, L)
    return '\n'.join(L) + '\n'


def coq_forest(forest):
    out = []
    for t in forest:
        if t[0] == 'with':
            out.append('With %d %s' % (t[1], coq_forest(t[2])))
        elif t[0] == 'oth':
            out.append('Otherwise %s' % coq_forest(t[1]))
        elif t[0] == 'asg':
            out.append('Assign (%s %d) %d' % ('TWire' if t[1][0] == 'w' else 'TReg', t[1][1], t[2]))
        else:
            out.append('MemAssign %d %d %d %d' % (t[1], t[2], t[3], t[4]))
    return '[' + '; '.join(out) + ']'


def coq_defaults(d):
    if not d:
        return '[]'
    return '[' + '; '.join('(%s %d, %d)' % ('TWire' if l[0] == 'w' else 'TReg', l[1], lf) for l, lf in d) + ']'


def coq_steps(steps):
    return '[' + '; '.join('([%s], [%s], [%s])' % (
        '; '.join('true' if b else 'false' for b in rho),
        '; '.join(str(v) for v in lv),
        '; '.join(str(v) for v in rv)) for rho, lv, rv in steps) + ']'


def lhs_code(l):
    return [{'w': 0, 'r': 1, 'm': 2}[l[0]], l[1]]


# ---------------------------------------------------------------- generators
def pw_of(case):
    return case.get('pwidths') or [1] * case['npred']


def fresh_case(npred, W, A, targets):
    return {'npred': npred, 'W': W, 'A': A, 'leaves': [], 'targets': list(targets),
            'blocks': [], 'structural': True, 'origin': ''}


def add_leaf(case, role, rng=None, exact=True, reuse=0.0):
    """new leaf wire, or (with probability `reuse`) an existing leaf of the same role: the SAME wire
    object then feeds several assignments (shared address / data / enable wires)"""
    W = case['W']
    if rng is not None and reuse and rng.random() < reuse:
        same = [i for i, lf in enumerate(case['leaves'])
                if lf['role'] == role and lf['kind'] == 'in' and lf['width'] == (
                    W if role == 'data' else case['A'] if role == 'addr' else 1)]
        if same:
            return rng.choice(same)
    if role == 'data':
        if exact or rng is None:
            lf = {'role': 'data', 'kind': 'in', 'width': W}
        else:
            r = rng.random()
            if r < 0.2:
                lf = {'role': 'data', 'kind': 'int', 'width': W, 'val': rng.randrange(1 << W)}
            elif r < 0.45:
                lf = dict(rng.choice(const_menu(W)), role='data', width=W)     # any kind, ok or PyrtlError
            elif r < 0.7 and W > 1:
                lf = {'role': 'data', 'kind': 'in', 'width': rng.randint(1, W - 1)}
            else:
                lf = {'role': 'data', 'kind': 'in', 'width': W + rng.randint(1, 3)}
            case['structural'] = False
    elif role == 'addr':
        lf = {'role': 'addr', 'kind': 'in', 'width': case['A']}
    else:
        lf = {'role': 'en', 'kind': 'in', 'width': 1}
    case['leaves'].append(lf)
    return len(case['leaves']) - 1


def enum_forests(n, labels, asgs):
    """all forests with exactly n branch nodes; node = (label, assignment subset, children)"""
    if n == 0:
        yield []
        return
    for k in range(1, n + 1):
        for first in enum_tree(k, labels, asgs):
            for rest in enum_forests(n - k, labels, asgs):
                yield [first] + rest


def enum_tree(k, labels, asgs):
    for lab in labels:
        for a in asgs:
            for ch in enum_forests(k - 1, labels, asgs):
                yield (lab, a, ch)


def skeleton_to_case(skel, npred, targets, W=3, A=2):
    """skeleton node (label, targets assigned at body start, children) -> case with fresh leaves"""
    case = fresh_case(npred, W, A, targets)

    def conv(nodes):
        out = []
        for lab, a, ch in nodes:
            body = []
            for l in a:
                if l[0] == 'm':
                    body.append(('mem', l[1], add_leaf(case, 'addr'), add_leaf(case, 'data'), add_leaf(case, 'en')))
                else:
                    body.append(('asg', l, add_leaf(case, 'data')))
            body += conv(ch)
            out.append(('oth', body) if lab == 'oth' else ('with', lab, body))
        return out
    prog = conv(skel)
    case['blocks'] = [{'defaults': None, 'prog': prog}]
    asg = assigned_targets(prog)
    case['targets'] = [l for l in case['targets'] if l in asg]
    return case


def subsets(xs):
    out = []
    for r in range(len(xs) + 1):
        out += [tuple(c) for c in itertools.combinations(xs, r)]
    return out


TARGET_PAIRS = [[('w', 0), ('r', 0)], [('w', 0), ('m', 0)], [('r', 0), ('m', 0)], [('w', 0), ('w', 1)]]


def memchain_case(pattern, shape, dpattern=None, W=3, A=2):
    """len(pattern) conditional writes to ONE MemBlock, mutually exclusive by construction; write i uses
    address wire pattern[i] (a small pool of shared address Inputs), data wire dpattern[i] (default: all
    distinct), its own enable.  shape: 'flat' (with p0 / with p1 / ...), 'flat-oth' (last branch is
    otherwise), 'nested' (with p0: W0; otherwise: (with p1: W1; otherwise: ...)), 'split' (first two
    writes under with p0: with p1 / otherwise, the rest a flat chain)"""
    n = len(pattern)
    case = fresh_case(n, W, A, [('m', 0)])
    addrs = {}
    datas = {}
    writes = []
    for i, a in enumerate(pattern):
        if a not in addrs:
            addrs[a] = add_leaf(case, 'addr')
        dk = i if dpattern is None else dpattern[i]
        if dk not in datas:
            datas[dk] = add_leaf(case, 'data')
        writes.append(('mem', 0, addrs[a], datas[dk], add_leaf(case, 'en')))
    if shape == 'flat':
        prog = [('with', i, [w]) for i, w in enumerate(writes)]
    elif shape == 'flat-oth':
        prog = [('with', i, [w]) for i, w in enumerate(writes[:-1])] + [('oth', [writes[-1]])]
    elif shape == 'nested':
        prog = [('with', n - 1, [writes[-1]])]
        for i in range(n - 2, -1, -1):
            prog = [('with', i, [writes[i]]), ('oth', prog)]
    else:  # split
        prog = [('with', 0, [('with', 1, [writes[0]]), ('oth', [writes[1]])])]
        prog += [('with', i, [w]) for i, w in list(enumerate(writes))[2:]]
    case['blocks'] = [{'defaults': None, 'prog': prog}]
    case['origin'] = 'memchain%d' % n
    return case


def state_rhs_case(kinds, dkind, shape, tkind='r'):
    """one target t0 (register or wire) assigned in len(kinds) exclusive branches; the rhs of branch i is
    kinds[i] in {'x' fresh Input, 'self' the target register itself, 'other' another register r1 of the
    design}; declared default dkind in {None, 'x', 'self', 'other'}; r1 is driven in the same block."""
    n = len(kinds)
    t0, r1 = (tkind, 0), ('r', 1)
    case = fresh_case(n + 1, 3, 2, [t0, r1])

    def leaf(k):
        if k == 'x':
            return add_leaf(case, 'data')
        return add_reg_leaf(case, t0 if k == 'self' else r1)
    asg = [('asg', t0, leaf(k)) for k in kinds]
    if shape == 'flat':
        prog = [('with', i, [a]) for i, a in enumerate(asg)]
    elif shape == 'flat-oth':
        prog = [('with', i, [a]) for i, a in enumerate(asg[:-1])] + [('oth', [asg[-1]])]
    else:  # nested
        prog = [('with', n - 1, [asg[-1]])]
        for i in range(n - 2, -1, -1):
            prog = [('with', i, [asg[i]]), ('oth', prog)]
    prog = prog + [('with', n, [('asg', r1, add_leaf(case, 'data'))])]    # r1 changes over time
    d = None if dkind is None else [(t0, leaf(dkind))]
    case['blocks'] = [{'defaults': d, 'prog': prog}]
    case['origin'] = 'state-rhs'
    return case


def rhs_kind_case(slot, spec, W, A=2):
    """`with p0: T |= RHS` / `with p1: T |= plain Input`, RHS of the given kind in the given slot:
    slot 'w' / 'r' (wire / register target), 'mdata' / 'maddr' / 'men' (the three operands of a
    conditional memory write)."""
    tgt = {'w': ('w', 0), 'r': ('r', 0)}.get(slot, ('m', 0))
    case = fresh_case(2, W, A, [tgt])

    def leaf(role, special):
        if special:
            if spec['kind'] == 'in':
                case['leaves'].append({'role': role, 'kind': 'in', 'width': spec['width']})
                case['structural'] = False
                return len(case['leaves']) - 1
            return add_kind_leaf(case, role, spec)
        return add_leaf(case, role)
    if tgt[0] == 'm':
        a0 = ('mem', 0, leaf('addr', slot == 'maddr'), leaf('data', slot == 'mdata'), leaf('en', slot == 'men'))
        a1 = ('mem', 0, add_leaf(case, 'addr'), add_leaf(case, 'data'), add_leaf(case, 'en'))
    else:
        a0 = ('asg', tgt, leaf('data', True))
        a1 = ('asg', tgt, add_leaf(case, 'data'))
    case['blocks'] = [{'defaults': None, 'prog': [('with', 0, [a0]), ('with', 1, [a1])]}]
    case['origin'] = 'rhs-kinds'
    return case


def rhs_kind_cases(quick):
    for slot in ('w', 'r', 'mdata', 'maddr', 'men'):
        widths = [1, 3, 8] if slot in ('w', 'r') else [3] if slot == 'mdata' else [2] if slot == 'maddr' else [1]
        for width in widths:
            menu = const_menu(width)
            menu += [{'kind': 'in', 'width': width}, {'kind': 'in', 'width': width + 2}]
            if width > 1:
                menu.append({'kind': 'in', 'width': width - 1})
            for spec in menu:
                if slot == 'mdata':
                    yield rhs_kind_case(slot, spec, width)
                elif slot == 'maddr':
                    yield rhs_kind_case(slot, spec, 3, A=width)
                elif slot == 'men':
                    yield rhs_kind_case(slot, spec, 3)
                else:
                    yield rhs_kind_case(slot, spec, width)


def random_forest(rng, case, depth, maxdepth, cfg):
    """random body: branches and assignments at random positions"""
    items = []
    nbr = rng.choice([0, 1, 1, 2, 2, 3]) if depth < maxdepth else 0
    if depth == 0:
        nbr = max(nbr, 1) + rng.choice([0, 0, 1])
    for _ in range(nbr):
        if rng.random() < cfg['p_oth']:
            items.append(('oth', random_forest(rng, case, depth + 1, maxdepth, cfg)))
        else:
            items.append(('with', rng.randrange(case['npred']), random_forest(rng, case, depth + 1, maxdepth, cfg)))
    if depth > 0 or rng.random() < cfg['p_top_asg']:
        nas = rng.choice([0, 1, 1, 1, 2])
        for _ in range(nas):
            l = rng.choice(case['targets'])
            if l[0] == 'm':
                a = ('mem', l[1], add_leaf(case, 'addr', rng, reuse=cfg['p_share']),
                     add_leaf(case, 'data', rng, reuse=cfg['p_share'] / 2), add_leaf(case, 'en', rng, reuse=cfg['p_share']))
            elif rng.random() < cfg.get('p_regrhs', 0.0) and any(t[0] == 'r' for t in case['targets']):
                regs = [t for t in case['targets'] if t[0] == 'r']
                src = l if (l[0] == 'r' and rng.random() < 0.6) else rng.choice(regs)   # explicit hold / other state
                a = ('asg', l, add_reg_leaf(case, src))
            else:
                ex = rng.random() >= cfg['p_mixed']
                a = ('asg', l, add_leaf(case, 'data', rng, exact=ex, reuse=(cfg['p_share'] / 2 if ex else 0.0)))
            items.insert(rng.randint(0, len(items)), a)
    return items


def repair(forest):
    """drop assignments (later ones first) until the program is syntactically exclusive and guarded"""
    ls = py_lits(forest)
    drop = set()
    kept = []
    for l, c, node in ls:
        if len(c) == 0 or any(l == l2 and not py_excl(c, c2) for l2, c2 in kept):
            drop.add(id(node))
        else:
            kept.append((l, c))

    def rebuild(f):
        out = []
        for t in f:
            if t[0] == 'with':
                out.append(('with', t[1], rebuild(t[2])))
            elif t[0] == 'oth':
                out.append(('oth', rebuild(t[1])))
            elif id(t) not in drop:
                out.append(t)
        return out
    return rebuild(forest)


def random_case(rng, tier, wide=False, norepair=False):
    npred = rng.randint(3, 5)
    W = rng.choice([1, 2, 3, 3, 4, 8])
    A = rng.choice([1, 2, 3])
    pool = [('w', 0), ('r', 0), ('m', 0), ('w', 1), ('r', 1)]
    nt = rng.randint(2, 3)
    targets = rng.sample(pool, nt)
    case = fresh_case(npred, W, A, targets)
    cfg = {'p_oth': rng.choice([0.15, 0.3, 0.45]), 'p_top_asg': 0.03,
           'p_mixed': rng.choice([0.0, 0.0, 0.3]), 'p_share': rng.choice([0.0, 0.5, 0.8]),
           'p_regrhs': rng.choice([0.0, 0.25, 0.5])}
    maxdepth = rng.randint(2, 4 if tier == 'quick' else 5)
    prog = random_forest(rng, case, 0, maxdepth, cfg)
    if rng.random() < 0.6 and not norepair:
        prog = repair(prog)
    asg = assigned_targets(prog)
    d = None
    if rng.random() < 0.4:
        d = []
        for l in case['targets']:
            if l[0] != 'm' and rng.random() < 0.7:
                if rng.random() < 0.25:
                    case['leaves'].append({'role': 'data', 'kind': 'int', 'width': W, 'val': rng.randrange(1 << W)})
                    case['structural'] = False
                    d.append((l, len(case['leaves']) - 1))
                elif cfg['p_regrhs'] and rng.random() < 0.3 and any(t[0] == 'r' for t in case['targets']):
                    d.append((l, add_reg_leaf(case, rng.choice([t for t in case['targets'] if t[0] == 'r']))))
                else:
                    d.append((l, add_leaf(case, 'data')))
    case['blocks'] = [{'defaults': d, 'prog': prog}]
    # only declare targets that are assigned (an unassigned WireVector would be undriven)
    case['targets'] = [l for l in case['targets'] if l in asg]
    if d is not None:
        case['blocks'][0]['defaults'] = [(l, lf) for l, lf in d if l in case['targets'] or rng.random() < 0.0]
    demote_dangling_reg_leaves(case)
    case['origin'] = 'random'
    if wide or rng.random() < 0.05:
        # one predicate wire is 2..4 bits wide; `wide` forces it to be one that some `with` uses
        used = used_preds(case)
        pool = used if (wide and used) else list(range(npred))
        case['pwidths'] = [1] * npred
        case['pwidths'][rng.choice(pool)] = rng.randint(2, 4)
        case['origin'] = 'random-wide-predicate'
    return case


def multiblock_case(rng, shared=False):
    """two or three conditional blocks in one design, disjoint targets; defaults of an earlier
    block may name a target that only a later block assigns (it is not *declared* there)"""
    npred = rng.randint(2, 3)
    W = 3
    targets = [('w', 0), ('r', 0), ('w', 1), ('r', 1)]
    rng.shuffle(targets)
    case = fresh_case(npred, W, 2, targets)
    nb = rng.randint(2, 3)
    groups = [targets[i::nb] for i in range(nb)]
    for bi, g in enumerate(groups):
        prog = []
        for l in g:
            chain = []
            for p in rng.sample(range(npred), rng.randint(1, npred)):
                chain.append(('with', p, [('asg', l, add_leaf(case, 'data'))]))
            if rng.random() < 0.3:
                chain.append(('oth', [('asg', l, add_leaf(case, 'data'))]))
            prog += chain
            if rng.random() < 0.5:
                prog.append(('oth', []))
        d = None
        if rng.random() < 0.7:
            d = []
            later = [l for gg in groups[bi + 1:] for l in gg]
            for l in g + later:
                if rng.random() < 0.6:
                    d.append((l, add_leaf(case, 'data')))
        case['blocks'].append({'defaults': d, 'prog': prog})
    case['origin'] = 'multiblock'
    if shared:
        # ONE dict object (a design-wide defaults table) handed to every block: each block declares all of it
        D = [(l, add_leaf(case, 'data')) for l in targets if rng.random() < 0.75]
        if not D:
            D = [(targets[0], add_leaf(case, 'data'))]
        case['shared_defaults'] = D
        for b in case['blocks']:
            b['defaults'] = list(D)
        case['origin'] = 'multiblock-shared-dict'
    return case


# ---------------------------------------------------------------- malformed stream (poison)
POISON = [
    ('two-bit-predicate', '''import pyrtl
pyrtl.reset_working_block()
a = pyrtl.Input(1, 'a'); b2 = pyrtl.Input(2, 'b2'); w = pyrtl.WireVector(2, 'w'); r = pyrtl.Register(2, 'r')
with pyrtl.conditional_assignment:
    with a:
        w |= 1
        with b2:
            r.next |= 2
''', 'PyrtlError'),
    ('foreign-exception', '''import pyrtl
pyrtl.reset_working_block()
a = pyrtl.Input(1, 'a'); b = pyrtl.Input(1, 'b'); w = pyrtl.WireVector(2, 'w'); r = pyrtl.Register(2, 'r')
with pyrtl.conditional_assignment(defaults={w: 3, r: 2}):
    with a:
        w |= 1
        with b:
            r.next |= 2
            raise ValueError('user code failed inside the block')
''', 'ValueError'),
    ('nested-conditional', '''import pyrtl
pyrtl.reset_working_block()
a = pyrtl.Input(1, 'a'); b = pyrtl.Input(1, 'b'); w = pyrtl.WireVector(2, 'w'); r = pyrtl.Register(2, 'r')
with pyrtl.conditional_assignment:
    with a:
        w |= 1
        with pyrtl.conditional_assignment:
            with b:
                r.next |= 2
''', 'PyrtlError'),
    ('otherwise-outside', '''import pyrtl
pyrtl.reset_working_block()
a = pyrtl.Input(1, 'a'); w = pyrtl.WireVector(2, 'w')
with pyrtl.otherwise:
    w |= 1
''', 'PyrtlError'),
    ('same-branch-twice', '''import pyrtl
pyrtl.reset_working_block()
a = pyrtl.Input(1, 'a'); b = pyrtl.Input(1, 'b'); m = pyrtl.MemBlock(2, 2, 'm'); r = pyrtl.Register(2, 'r')
with pyrtl.conditional_assignment:
    with a:
        with b:
            m[r] |= 1
        with pyrtl.otherwise:
            r.next |= 1
        m[r] |= 2
''', 'PyrtlError'),
    ('unguarded-assignment', '''import pyrtl
pyrtl.reset_working_block()
a = pyrtl.Input(1, 'a'); w = pyrtl.WireVector(2, 'w'); r = pyrtl.Register(2, 'r')
with pyrtl.conditional_assignment:
    with a:
        r.next |= 1
    with pyrtl.otherwise:
        pass
    with pyrtl.otherwise:
        w |= 1
''', 'PyrtlError'),
]


def module_state():
    c = pyrtl.conditional
    return (c._depth, c._conditions_list_stack, dict(c._predicate_map), dict(c._conflicts_map))


def state_is_initial():
    return module_state() == (0, [[]], {}, {})


def run_poison(ctx, k):
    name, src, expect = POISON[k % len(POISON)]
    got = 'none'
    try:
        exec(compile(src, '<poison:%s>' % name, 'exec'), {})
    except pyrtl.PyrtlError:
        got = 'PyrtlError'
    except Exception as e:  # noqa
        got = type(e).__name__
    ctx.count('malformed_stream', name)
    if got != expect:
        ctx.spec_violation('malformed:%s:raises-%s' % (name, got),
                           'malformed program %s: expected %s, got %s' % (name, expect, got),
                           {'source': src, 'expected': expect, 'got': got})
    if not state_is_initial():
        ctx.spec_violation('state-leak-after:%s' % name,
                           'conditional module state not reset after a failed block (%s): %r' % (name, module_state()[:2]),
                           {'source': src, 'state': repr(module_state())})
    pyrtl.reset_working_block()


# ---------------------------------------------------------------- running the real thing
def build_real(case, src, log=None):
    """exec the generated source. returns (ok, namespace_or_error_kind, message).
    While it runs, conditional._check_and_add_pred_set is wrapped (in this process only) so
    that the pred_set computed by _current_select for every |= is observed."""
    ns = {}
    cond = pyrtl.conditional
    orig = cond._check_and_add_pred_set

    def spy(lhs, pred_set):
        if log is not None:
            log.append((getattr(lhs, 'name', '?'), [(p, bool(b)) for p, b in pred_set]))
        return orig(lhs, pred_set)

    def resolve():
        if log is None:
            return
        ids = {}
        for i in range(case['npred']):
            o = ns.get('p%d' % i)
            if o is None:
                continue
            ids[id(o)] = 'p%d' % i
            for attr in ('matched', 'wire'):      # match_bitpattern results / wrappers enter their inner wire
                inner = getattr(o, attr, None) if not isinstance(o, pyrtl.Input) else None
                if inner is not None:
                    ids[id(inner)] = 'p%d' % i
        for k, (n, ps) in enumerate(log):
            log[k] = (n, sorted((ids.get(id(p), '?'), b) for p, b in ps))
    cond._check_and_add_pred_set = spy
    try:
        exec(compile(src, '<C07 program>', 'exec'), ns)
    except pyrtl.PyrtlError as e:
        return False, 'PyrtlError', str(e)
    except Exception as e:  # noqa
        return False, type(e).__name__, traceback.format_exc()[-800:]
    finally:
        cond._check_and_add_pred_set = orig
        resolve()
    return True, ns, ''


def asgs_before_wide(forest, pwidths):
    """number of |= executed before the first `with` on a multi-bit wire is entered (None: no such with)"""
    n = 0
    for t in walk(forest):      # walk is program order, a branch node before its body
        if t[0] == 'with' and pwidths[t[1]] > 1:
            return n
        if t[0] in ('asg', 'mem'):
            n += 1
    return None


def expected_log_len(forest, pwidths=None, case=None):
    """how many |= reach _check_and_add_pred_set before the elaboration stops"""
    k = expected_log_len1(forest)
    if case is not None:
        for i, (_, _, node) in enumerate(py_lits(forest)):
            if not asg_coercion_ok(case, node):
                k = min(k, i)        # the |= itself raises, _build is not reached
                break
    w = asgs_before_wide(forest, pwidths) if pwidths else None
    return k if w is None else min(k, w)


def expected_log_len1(forest):
    ls = py_lits(forest)
    for i, (l, c, _) in enumerate(ls):
        if len(c) == 0:
            return i            # _current_select raises before the pred_set is looked at
        if any(l == l2 and not py_excl(c, c2) for l2, c2, _ in ls[:i]):
            return i + 1        # the conflicting pred_set is seen, then the check raises
    return len(ls)


def used_preds(case):
    ps = set()
    for blk in case['blocks']:
        for t in walk(blk['prog']):
            if t[0] == 'with':
                ps.add(t[1])
    return sorted(ps)


def make_stimulus(rng, case, rounds=2, cap=None):
    """all valuations of the used predicates, shuffled, `rounds` times with fresh data"""
    ups = used_preds(case)
    vals = []
    for _ in range(rounds):
        allv = list(itertools.product([0, 1], repeat=len(ups)))
        rng.shuffle(allv)
        vals += allv
    if cap:
        vals = vals[:cap]
    steps = []
    nl = len(case['leaves'])
    for v in vals:
        rho = [rng.randint(0, 1) for _ in range(case['npred'])]
        for p, b in zip(ups, v):
            rho[p] = b
        for i, k in enumerate(pkinds_of(case)):
            if k in ('const0', 'const1'):
                rho[i] = 1 if k == 'const1' else 0      # a constant predicate has one valuation
        raw = []
        W = case['W']
        # distinct data values where the width allows, so that a wrong branch is visible
        perm = list(range(1 << W))
        rng.shuffle(perm)
        aperm = list(range(1 << case['A']))
        rng.shuffle(aperm)
        k = 0
        ka = 0
        for lf in case['leaves']:
            if leaf_own_value(lf) is not None:
                raw.append(leaf_own_value(lf))
            elif lf['kind'] == 'reg':
                raw.append(0)      # not an input: its value is the register's state (see eff)
            elif lf['role'] == 'data' and lf['width'] == W:
                raw.append(perm[k % len(perm)])
                k += 1
            elif lf['role'] == 'en':
                raw.append(1 if rng.random() < 0.8 else 0)
            elif lf['role'] == 'addr':
                # distinct address wires point at distinct cells (where addrwidth allows): a write through
                # the wrong address wire lands in a visibly wrong cell
                raw.append(aperm[ka % len(aperm)] & ((1 << lf['width']) - 1))
                ka += 1
            else:
                raw.append(rng.randrange(1 << lf['width']))
        steps.append((rho, raw))
    init_regs = {l: rng.randrange(1 << case['W']) for l in case['targets'] if l[0] == 'r'}
    init_mems = {l: {a: rng.randrange(1 << case['W']) for a in range(1 << case['A']) if rng.random() < 0.5}
                 for l in case['targets'] if l[0] == 'm'}
    return steps, init_regs, init_mems


def eff(case, raw, regvals=None):
    """leaf values as seen by a target of width W (the |= conversion); a leaf that is a register of the
    design has that register's CURRENT value (regvals: {('r', i): value})"""
    wd = {'data': case['W'], 'addr': case['A'], 'en': 1}
    out = [v & ((1 << wd[lf['role']]) - 1) for v, lf in zip(raw, case['leaves'])]
    if regvals is not None:
        for i, lf in enumerate(case['leaves']):
            if lf['kind'] == 'reg':
                out[i] = regvals[lf['reg']]
    return out


def simulate(case, ns, steps, init_regs, init_mems):
    block = pyrtl.working_block()
    regmap = {ns[wname(l)]: v for l, v in init_regs.items()}
    memmap = {ns[wname(l)]: dict(c) for l, c in init_mems.items()}
    if 'fm' in ns:
        memmap[ns['fm']] = {0: 0, 1: 1}
    sim = pyrtl.Simulation(register_value_map=regmap, memory_value_map=memmap, block=block)
    rows = []
    for rho, raw in steps:
        ins = pred_inputs(case, rho)
        for i, lf in enumerate(case['leaves']):
            if lf['kind'] == 'in':
                ins['x%d' % i] = raw[i]
        sim.step(ins)
        row = {}
        for l in case['targets']:
            if l[0] == 'm':
                row[l] = dict(sim.inspect_mem(ns[wname(l)]))
            else:
                row[l] = sim.inspect(wname(l))
        rows.append(row)
    return rows


def spec_run(case, steps, init_regs, init_mems, leaky=False):
    """independent Python specification with its own state. returns rows like simulate(), or
    (None, why) if some valuation activates two branches of one target.
    leaky=True is NOT the specification: it is the hypothesis "a block without defaults= inherits the
    defaults declared by an earlier block", used only to name a failure precisely."""
    regs = dict(init_regs)
    mems = {l: dict(c) for l, c in init_mems.items()}
    rows = []
    for rho, raw in steps:
        lv = eff(case, raw, regs)
        row = {}
        nxt = {}
        stale = {}
        for blk in case['blocks']:
            fl = py_flags(blk['prog'], rho)
            dflt = dict(blk['defaults'] or [])
            if leaky:
                if blk['defaults'] is None:
                    dflt = dict(stale)
                else:
                    stale = dflt
            for l in assigned_targets(blk['prog']):
                act = [t for t, a in fl if a and lhs_of(t) == l]
                if len(act) > 1:
                    return None, (l, rho)
                if l[0] == 'w':
                    row[l] = lv[act[0][2]] if act else (lv[dflt[l]] if l in dflt else 0)
                elif l[0] == 'r':
                    row[l] = regs[l]
                    nxt[l] = lv[act[0][2]] if act else (lv[dflt[l]] if l in dflt else regs[l])
                else:
                    if act and lv[act[0][4]]:
                        mems[l][lv[act[0][2]]] = lv[act[0][3]]
                    row[l] = dict(mems[l])
        for l in case['targets']:
            if l not in row:   # declared but not assigned anywhere (does not happen)
                row[l] = regs.get(l, 0)
        regs.update(nxt)
        rows.append(row)
    return rows, None


def norm_mem(d):
    return {a: v for a, v in d.items() if v != 0}


# ---------------------------------------------------------------- structural extraction
def extract_exprs(case, ns):
    """prefix serialisation of the netlist the real elaboration built, per assigned target.
    Returns {lhs: [ser,...]} or raises ValueError on an unexpected shape."""
    block = pyrtl.working_block()
    driver = {}
    for n in block.logic:
        for d in n.dests:
            driver[d] = n
    memo = {}

    def is_zero(w):
        if isinstance(w, pyrtl.Const):
            return w.val == 0
        n = driver.get(w)
        if n is None:
            return False
        if n.op in ('s', 'w'):
            return is_zero(n.args[0])
        if n.op == 'c':
            return all(is_zero(a) for a in n.args)
        return False

    def ex(w):
        if w in memo:
            return memo[w]
        r = ex1(w)
        memo[w] = r
        return r

    predwire = {}
    for i, k in enumerate(pkinds_of(case)):
        o = ns.get('p%d' % i)
        if k == 'memread':
            o = o.wire
        elif k == 'wrapped':
            o = o.wire
        elif k == 'match':
            o = o.matched
        if isinstance(o, pyrtl.WireVector):
            predwire[o] = i

    def ex1(w):
        if w in predwire:
            return [0, predwire[w]]
        if isinstance(w, pyrtl.Input):
            if w.name.startswith('p'):
                return [0, int(w.name[1:])]
            return [5, int(w.name[1:])]
        if isinstance(w, pyrtl.Register):
            return [6, int(w.name[1:])]
        if is_zero(w):
            return [4]
        if isinstance(w, pyrtl.Const):
            raise ValueError('non-zero constant %r' % w)
        n = driver.get(w)
        if n is None:
            raise ValueError('undriven %r' % w)
        if n.op == 'w':
            return ex(n.args[0])
        if n.op == '~':
            return [1] + ex(n.args[0])
        if n.op == '&':
            return [2] + ex(n.args[0]) + ex(n.args[1])
        if n.op == 'x':
            return [3] + ex(n.args[0]) + ex(n.args[2]) + ex(n.args[1])
        if n.op == 'c' and all(is_zero(a) for a in n.args[:-1]):
            return ex(n.args[-1])   # zero extension
        raise ValueError('unexpected net %s' % str(n))

    out = {}
    for blk in case['blocks']:
        for l in assigned_targets(blk['prog']):
            obj = ns[wname(l)]
            if l[0] == 'w':
                out[l] = [ex(driver[obj].args[0])]
            elif l[0] == 'r':
                out[l] = [ex(driver[obj].args[0])]
            else:
                ports = [n for n in block.logic if n.op == '@' and n.op_param[1] is obj]
                if len(ports) != 1:
                    raise ValueError('%d write ports for %s' % (len(ports), wname(l)))
                a, d, e = ports[0].args
                out[l] = [ex(e), ex(a), ex(d)]
    return out


# ---------------------------------------------------------------- one case
def impl_vs_spec(case, seed):
    """Stand-alone search step: build the real program, simulate, compare with the Python tree
    interpreter.  Returns None (agrees) or a dict describing the first disagreement."""
    import random
    src = emit_source(case)
    case = effective_case(case)
    try:
        ok, ns, msg = build_real(case, src)
        accept = [py_accepts(b['prog'], pw_of(case)) for b in case['blocks']]
        if not coercions_ok(case):
            accept.append((False, 'rhs-coercion'))
        spec_ok = all(a for a, _ in accept)
        why = next((w for a, w in accept if not a), 'ok')
        if not ok and ns != 'PyrtlError':
            return {'kind': 'foreign', 'source': src, 'error': msg}
        if ok != spec_ok:
            return {'kind': 'accept', 'source': src, 'impl': 'accepted' if ok else 'rejected: ' + msg, 'spec': why}
        if not ok or not case['targets']:
            return None
        steps, init_regs, init_mems = make_stimulus(random.Random(seed), case, rounds=2)
        try:
            rows = simulate(case, ns, steps, init_regs, init_mems)
        except Exception:  # noqa
            return None
        srows, bad = spec_run(case, steps, init_regs, init_mems)
        if srows is None:
            return {'kind': 'two-active', 'source': src, 'target': wname(bad[0]), 'predicates': bad[1]}
        leak = False
        if len(case['blocks']) > 1 and not same_rows(case, rows, srows):
            lrows, _ = spec_run(case, steps, init_regs, init_mems, leaky=True)
            leak = lrows is not None and same_rows(case, rows, lrows)
        for k, (ir, sr) in enumerate(zip(rows, srows)):
            for l in case['targets']:
                a, b = ir[l], sr[l]
                if l[0] == 'm':
                    a, b = norm_mem(a), norm_mem(b)
                if a != b:
                    return {'kind': 'value', 'leak': leak, 'source': src, 'cycle': k, 'target': wname(l),
                            'expected': sr[l], 'got': ir[l], 'predicates': steps[k][0], 'leaves': steps[k][1],
                            'inputs': [{'rho': x[0], 'x': x[1], 'pins': pred_inputs(case, x[0])} for x in steps[:k + 1]],
                            'init_regs': {wname(x): v for x, v in init_regs.items()},
                            'init_mems': {wname(x): v for x, v in init_mems.items()}}
        return None
    finally:
        pyrtl.reset_working_block()


def remove_at(forest, path):
    i = path[0]
    if len(path) == 1:
        return forest[:i] + forest[i + 1:]
    t = forest[i]
    if t[0] == 'with':
        return forest[:i] + [('with', t[1], remove_at(t[2], path[1:]))] + forest[i + 1:]
    return forest[:i] + [('oth', remove_at(t[1], path[1:]))] + forest[i + 1:]


def all_paths(forest, prefix=()):
    for i, t in enumerate(forest):
        yield prefix + (i,)
        if t[0] == 'with':
            for x in all_paths(t[2], prefix + (i,)):
                yield x
        elif t[0] == 'oth':
            for x in all_paths(t[1], prefix + (i,)):
                yield x


def retarget(case):
    asg = []
    for b in case['blocks']:
        for l in assigned_targets(b['prog']):
            if l not in asg:
                asg.append(l)
    case['targets'] = asg
    return case


def shrink(case, seed, want, budget=400):
    """greedy: drop subtrees / assignments / default entries / blocks while the same kind of
    disagreement (want = (kind, leak)) persists"""
    def same(m):
        return m is not None and (m['kind'], m.get('leak', False)) == want
    cur = case
    changed = True
    while changed and budget > 0:
        changed = False
        cands = []
        for bi, b in enumerate(cur['blocks']):
            if len(cur['blocks']) > 1:
                cands.append(('block', bi))
            for pth in all_paths(b['prog']):
                cands.append(('node', bi, pth))
            if not cur.get('shared_defaults'):
                for di in range(len(b['defaults'] or [])):
                    cands.append(('dflt', bi, di))
        for c in cands:
            budget -= 1
            if budget <= 0:
                break
            new = dict(cur, blocks=[dict(b) for b in cur['blocks']])
            if c[0] == 'block':
                new['blocks'] = new['blocks'][:c[1]] + new['blocks'][c[1] + 1:]
            elif c[0] == 'node':
                new['blocks'][c[1]]['prog'] = remove_at(new['blocks'][c[1]]['prog'], c[2])
            else:
                d = new['blocks'][c[1]]['defaults']
                new['blocks'][c[1]]['defaults'] = d[:c[2]] + d[c[2] + 1:]
            retarget(new)
            try:
                m = impl_vs_spec(new, seed)
            except Exception:  # noqa
                m = None
            if same(m):
                cur = new
                changed = True
                break
    return cur


def report_shrunk(ctx, case, seed_key, fallback_sig, fallback_what, fallback_rep):
    """re-find the disagreement stand-alone, shrink it, report the smallest program"""
    try:
        seed = repr(seed_key)
        m = impl_vs_spec(case, seed)
        if m is None:
            raise ValueError('not reproduced stand-alone')
        small = shrink(case, seed, (m['kind'], m.get('leak', False)))
        m2 = impl_vs_spec(small, seed) or m
        if m2['kind'] == 'value':
            sig = 'defaults-leak-across-blocks' if m2.get('leak') else 'value-mismatch:%s' % {
                'w': 'wire', 'r': 'register', 'm': 'memory'}[m2['target'][0]]
            what = 'cycle %d target %s: tree interpreter says %r, simulation gives %r' % (
                m2['cycle'], m2['target'], m2['expected'], m2['got'])
        elif m2['kind'] == 'accept':
            sig = fallback_sig
            what = 'program is %s by PyRTL but the specification (1-bit predicates, guarded + syntactically exclusive assignments, coercible right-hand sides) says %s' % (m2['impl'], m2['spec'])
        else:
            sig, what = fallback_sig, fallback_what
        ctx.spec_violation(sig, what + ' (shrunk)', dict(m2, seed=seed, shrunk_from=fallback_rep.get('source')))
    except Exception:  # noqa
        ctx.spec_violation(fallback_sig, fallback_what, fallback_rep)


def process_case(ctx, case, rng, jobs, seed_key=None):
    """build + simulate the real program, queue the Coq evaluation. Appends to jobs."""
    src = emit_source(case)
    plog = []
    ok, ns, msg = build_real(case, src, plog)
    orig = case
    case = effective_case(orig)      # caught, rejected statements must have no effect
    accept = []
    for blk in case['blocks']:
        accept.append(py_accepts(blk['prog'], pw_of(case)))
    if not coercions_ok(case):
        accept.append((False, 'rhs-coercion'))
    spec_ok = all(a for a, _ in accept)
    why = next((w for a, w in accept if not a), 'ok')
    rep = {'source': src, 'case': {k: case[k] for k in ('npred', 'W', 'A', 'origin')}}
    job = {'case': case, 'orig': orig, 'src': src, 'ok': ok, 'spec_ok': spec_ok, 'why': why, 'rep': rep, 'plog': plog}
    if not ok and ns != 'PyrtlError':
        ctx.spec_violation('foreign-exception:%s' % ns,
                           'program raised %s instead of PyrtlError / success' % ns, dict(rep, error=msg))
        pyrtl.reset_working_block()
        return
    if not ok:
        job['error'] = msg
        if not state_is_initial():
            ctx.spec_violation('state-leak-after:rejected-program',
                               'conditional module state not reset after PyrtlError', dict(rep, state=repr(module_state())))
    if ok != spec_ok:
        pyrtl.reset_working_block()
        report_shrunk(ctx, orig, seed_key, 'accept-mismatch:%s:%s' % ('accepted' if ok else 'rejected', why),
                      'program is %s by PyRTL but the specification (1-bit predicates, guarded + exclusive assignments, coercible right-hand sides) says %s' % (
                          'accepted' if ok else 'rejected (%s)' % msg, why), rep)
        ok2, ns, msg = build_real(case, src)   # rebuild: the shrinker reset the working block
    if ok and case.get('shared_defaults'):
        now = [(id(k), id(v)) for k, v in ns['D'].items()]
        ctx.count('caller_defaults_dict', 'unchanged' if now == ns['D_ids'] else 'MUTATED')
        if now != ns['D_ids']:
            ctx.spec_violation('caller-defaults-dict-mutated',
                               'the dict passed as defaults= had %d entries before the blocks and %d after' % (
                                   len(ns['D_ids']), len(now)), rep)
    undriven = [l for l in case.get('undriven', []) if l[0] != 'm']
    if ok and undriven:
        # every |= to these targets was rejected and caught: the design that remains leaves them undriven
        try:
            pyrtl.Simulation(tracer=pyrtl.SimulationTrace())
            refused = False
        except pyrtl.PyrtlError:
            refused = True
        ctx.count('target_with_every_assignment_rejected', 'design refused by sanity check' if refused else 'SIMULABLE')
        if not refused:
            ctx.spec_violation('undriven-target-simulable',
                               '%s has no accepted assignment left, yet the design simulates' % ', '.join(map(wname, undriven)), rep)
    steps = []
    job.update(steps=[], rows=[], init_regs={}, init_mems={})
    if ok and undriven:
        pass
    elif ok and case['targets']:
        small = case['origin'].startswith('enum')
        steps, init_regs, init_mems = make_stimulus(rng, case, rounds=2, cap=(16 if small else None))
        try:
            rows = simulate(case, ns, steps, init_regs, init_mems)
        except Exception as e:  # noqa
            ctx.spec_violation('simulation-failed', 'accepted program cannot be simulated: %s' % e,
                               dict(rep, error=traceback.format_exc()[-800:]))
            pyrtl.reset_working_block()
            return
        job.update(steps=steps, rows=rows, init_regs=init_regs, init_mems=init_mems)
        if spec_ok:
            srows, bad = spec_run(case, steps, init_regs, init_mems)
            if srows is None:
                ctx.spec_violation('two-active-branches',
                                   'a syntactically exclusive program activates two branches of %s' % (bad,), rep)
            else:
                if len(case['blocks']) > 1 and not same_rows(case, rows, srows):
                    lrows, _ = spec_run(case, steps, init_regs, init_mems, leaky=True)
                    job['leak'] = lrows is not None and same_rows(case, rows, lrows)
                for k, (ir, sr) in enumerate(zip(rows, srows)):
                    for l in case['targets']:
                        a, b = ir[l], sr[l]
                        if l[0] == 'm':
                            a, b = norm_mem(a), norm_mem(b)
                        if a != b:
                            sig = classify(job, l)
                            job['pending_report'] = (sig, 'cycle %d target %s: tree interpreter says %r, simulation gives %r' % (
                                k, wname(l), sr[l], ir[l]),
                                dict(rep, cycle=k, target=wname(l), expected=sr[l], got=ir[l],
                                     predicates=steps[k][0], leaves=steps[k][1],
                                     inputs=[{'rho': s[0], 'x': s[1], 'pins': pred_inputs(case, s[0])} for s in steps[:k + 1]],
                                     init_regs={wname(x): v for x, v in init_regs.items()},
                                     init_mems={wname(x): v for x, v in init_mems.items()}))
                            break
                    else:
                        continue
                    break
        if case['structural']:
            try:
                job['struct'] = extract_exprs(case, ns)
            except Exception as e:  # noqa
                job['struct_error'] = str(e)
    # Coq evaluation: one expression per block
    csteps = []
    if ok and case['targets'] and not undriven:
        for k, (rho, raw) in enumerate(steps):
            rv = [0] * 2
            for l in case['targets']:
                if l[0] == 'r':
                    rv[l[1]] = job['rows'][k][l]
            csteps.append((rho, eff(case, raw, {l: job['rows'][k][l] for l in case['targets'] if l[0] == 'r'}), rv))
    job['csteps'] = csteps
    job['exprs'] = ['all_case5 [%s] %s %s %s' % ('; '.join(map(str, pw_of(case))), coq_forest(b['prog']), coq_defaults(b['defaults']), coq_steps(csteps))
                    for b in case['blocks']]
    jobs.append(job)
    pyrtl.reset_working_block()
    if 'pending_report' in job:
        if len(ctx.spec_fail) < 3:
            report_shrunk(ctx, orig, seed_key, *job['pending_report'])
        else:
            ctx.spec_violation(*job['pending_report'])


def ser_regs(tokens, regleaf):
    """in a prefix-serialised vexpr replace leaf tokens [5, id] that denote a register by [6, reg index]"""
    out = []
    pos = [0]

    def b():
        t = tokens[pos[0]]
        pos[0] += 1
        out.append(t)
        if t == 0:
            out.append(tokens[pos[0]])
            pos[0] += 1
        elif t == 1:
            b()
        else:
            b()
            b()

    def v():
        t = tokens[pos[0]]
        pos[0] += 1
        if t == 5:
            r = tokens[pos[0]]
            pos[0] += 1
            out.extend([6, regleaf[r]] if r in regleaf else [5, r])
        elif t == 6:
            out.extend([6, tokens[pos[0]]])
            pos[0] += 1
        elif t == 4:
            out.append(4)
        else:
            out.append(3)
            b()
            v()
            v()
    v()
    return out


def classify(job, l):
    """signature of a value mismatch: names the behaviour, not the program"""
    if job.get('leak'):
        return 'defaults-leak-across-blocks'
    return 'value-mismatch:%s' % {'w': 'wire', 'r': 'register', 'm': 'memory'}[l[0]]


def same_rows(case, r1, r2):
    for a, b in zip(r1, r2):
        for l in case['targets']:
            x, y = a[l], b[l]
            if l[0] == 'm':
                x, y = norm_mem(x), norm_mem(y)
            if x != y:
                return False
    return True


def check_job(ctx, job, results):
    case = job['case']
    rep = job['rep']
    any_model_none = False
    nontrivial = not job['ok'] and job['why'] == 'conflict'
    for blk, res in zip(case['blocks'], results):
        model, spec, struct, clits = res
        if len(case['blocks']) == 1 and has_try(job['orig']):
            _, elog, _ = scan_block(job['orig'], job['orig']['blocks'][0]['prog'])
            got = [(n, [tuple(x) for x in ls]) for n, ls in job['plog']]
            okp = got == elog
            ctx.count('pred_set_tie', 'identical(caught-error program)' if okp else 'DIFFERENT')
            if not okp:
                ctx.model_mismatch('pred_sets seen by _check_and_add_pred_set differ from the program-order account',
                                   dict(rep, impl=got, expected=elog))
        elif len(case['blocks']) == 1:
            want = [('%s%d' % ('wrm'[c[0]], c[1]), sorted(('p%d' % p, bool(b)) for p, b in ls))
                    for c, ls in clits]
            want = want[:expected_log_len(blk['prog'], pw_of(case), case)]
            got = [(n, [tuple(x) for x in ls]) for n, ls in job['plog']]
            okp = got == [(n, [tuple(x) for x in sorted(set(ls))]) for n, ls in want]
            ctx.count('pred_set_tie', 'identical' if okp else 'DIFFERENT')
            if not okp:
                ctx.model_mismatch('pred_sets seen by _check_and_add_pred_set differ from the model / spec path conditions',
                                   dict(rep, impl=got, model=want))
        spec_acc, spec_rows = spec[0], spec[1]
        pa = py_accepts(blk['prog'], pw_of(case))[0]
        if bool(spec_acc) != pa:
            ctx.model_mismatch('Coq spec_accepts and the Python criterion disagree', rep)
        if model is None:
            any_model_none = True
        if (model is None) == bool(spec_acc):
            ctx.model_mismatch('elab = %s but spec_accepts = %s (contradicts C07_accept_iff)' % (
                'None' if model is None else 'Some', spec_acc), rep)
        if not job['ok'] or model is None:
            continue
        asg = assigned_targets(blk['prog'])
        # order of finalisation = first-assignment order
        got_order = [r[:2] for r in model[0]] if model else [lhs_code(l) for l in asg]
        if got_order != [lhs_code(l) for l in asg]:
            ctx.model_mismatch('model finalises targets in a different order', rep)
        rows = job['rows']
        for k in range(len(rows)):
            mrow = {tuple(r[:2]): r[2:] for r in model[k]}
            srow = {tuple(r[:2]): r[2:] for r in spec_rows[k]}
            for l in asg:
                mv = mrow[tuple(lhs_code(l))]
                sv = srow[tuple(lhs_code(l))]
                nact, sv = sv[0], sv[1:]
                if nact > 1:
                    ctx.spec_violation('two-active-branches', 'Coq spec: %d active branches for %s' % (nact, wname(l)), rep)
                    continue
                if l[0] == 'w':
                    impl = [rows[k][l]]
                elif l[0] == 'r':
                    if k + 1 >= len(rows):
                        continue
                    impl = [rows[k + 1][l]]
                else:
                    before = job['init_mems'][l] if k == 0 else rows[k - 1][l]
                    after = rows[k][l]
                    # compare by effect on the memory
                    def apply(port):
                        m2 = dict(before)
                        if port[0]:
                            m2[port[1]] = port[2]
                        return norm_mem(m2)
                    if apply(mv) != norm_mem(after):
                        ctx.model_mismatch('cycle %d %s: model write port %r does not explain the memory change' % (
                            k, wname(l), mv), dict(rep, cycle=k))
                    if apply(sv) != norm_mem(after):
                        ctx.spec_violation(classify(job, l),
                                           'cycle %d %s: Coq spec write %r does not explain the memory change' % (k, wname(l), sv),
                                           dict(rep, cycle=k, predicates=job['steps'][k][0], leaves=job['steps'][k][1]))
                    continue
                if impl != sv:
                    ctx.spec_violation(classify(job, l),
                                       'cycle %d %s: Coq tree interpreter says %r, simulation gives %r' % (k, wname(l), sv, impl),
                                       dict(rep, cycle=k, predicates=job['steps'][k][0], leaves=job['steps'][k][1],
                                            expected=sv, got=impl))
                elif impl != mv:
                    ctx.model_mismatch('cycle %d %s: model says %r, simulation gives %r' % (k, wname(l), mv, impl),
                                       dict(rep, cycle=k, predicates=job['steps'][k][0], leaves=job['steps'][k][1]))
        # structural tie
        if case['structural'] and len(case['blocks']) == 1:
            if 'struct_error' in job:
                ctx.model_mismatch('netlist of the real elaboration has an unexpected shape: %s' % job['struct_error'], rep)
                ctx.count('structural_tie', 'unexpected-shape')
            elif 'struct' in job:
                regleaf = {i: lf['reg'][1] for i, lf in enumerate(case['leaves']) if lf['kind'] == 'reg'}
                want = {tuple(r[0]): [ser_regs(e, regleaf) for e in r[1:]] for r in struct}
                same = all(want.get(tuple(lhs_code(l))) == job['struct'][l] for l in asg)
                ctx.count('structural_tie', 'identical' if same else 'DIFFERENT')
                if not same:
                    ctx.model_mismatch('elaborated netlist differs from the model expression',
                                       dict(rep, model={str(k): v for k, v in want.items()},
                                            impl={wname(l): v for l, v in job['struct'].items()}))
        else:
            ctx.count('structural_tie', 'not-applicable(mixed widths/ints/multiblock)')
    # the tree model is about WHICH branch; whether each rhs is coercible is decided by coerce_ok
    if job['ok'] != ((not any_model_none) and coercions_ok(case)):
        ctx.model_mismatch('PyRTL %s the program but elab returns %s' % (
            'accepts' if job['ok'] else 'rejects (%s)' % job.get('error', ''), 'None' if any_model_none else 'Some'), rep)
    if job['ok']:
        rows = job['rows']
        for l in case['targets']:
            if len({repr(sorted(r[l].items())) if isinstance(r[l], dict) else r[l] for r in rows}) > 1:
                nontrivial = True
    # statistics
    prog_all = [t for b in case['blocks'] for t in walk(b['prog'])]
    ctx.count('outcome', 'accepted' if job['ok'] else 'rejected:' + job['why'])
    ctx.count('predicate_widths', 'all-1-bit' if max(pw_of(case)) == 1 else ('wide-used' if job['why'] == 'wide-predicate' else 'wide-declared-unused-or-later-error'))
    ctx.count('origin', case['origin'])
    ctx.count('depth', max(depth_of(b['prog']) for b in case['blocks']))
    ctx.count('branch_nodes', min(sum(1 for t in prog_all if t[0] in ('with', 'oth')), 12))
    ctx.count('otherwise_nodes', min(sum(1 for t in prog_all if t[0] == 'oth'), 6))
    ctx.count('assignments', min(sum(1 for t in prog_all if t[0] in ('asg', 'mem')), 12))
    for l in case['targets']:
        ctx.count('target_kinds', l[0])
    ctx.count('defaults', 'declared' if any(b['defaults'] for b in case['blocks']) else 'none')
    for b in case['blocks']:
        per = {}
        for t in walk(b['prog']):
            if t[0] == 'mem':
                per.setdefault(t[1], []).append(t[2])
        for m, al in per.items():
            if len(al) >= 2:
                pat = ''.join('XYZUVW'[min(i, 5)] for i in canon_pattern(al))
                ctx.count('mem_addr_wire_patterns(>=2 writes)', pat if len(pat) <= 4 else 'len%d:%d-wires' % (len(pat), len(set(al))))
    if job['ok']:
        ctx.count('valuations_per_program', len(job['rows']))
    key = (job['src'], repr(job['csteps']))
    sample = None
    if case['origin'] in ('random', 'multiblock') and job['ok'] and len(job['src']) < 1500:
        sample = {'source': job['src'], 'coq': job['exprs'][0][:300], 'cycles': len(job['rows']),
                  'first_rows': [{wname(l): v for l, v in r.items()} for r in job['rows'][:2]]}
    ctx.case(key, nontrivial=nontrivial, sample=sample)


def canon_pattern(pat):
    """rename wires in order of first use: (2,0,0) -> [0,1,1]"""
    m = {}
    return [m.setdefault(a, len(m)) for a in pat]


def gen_cases(ctx):
    """all streams; a third of the programs of every stream are re-dressed with other legal kinds of objects
    (decorate), plus a directed stream where every aspect is forced"""
    drng = ctx.sub_rng('decorate')
    for c in gen_cases0(ctx):
        if max(pw_of(c)) == 1 and drng.random() < 0.33 and not c.get('shared_defaults'):
            decorate(drng, c)
            c['origin'] += '+objects'
        yield c
    quick = ctx.tier == 'quick'
    for i in range(240 if quick else 2400):
        rng = ctx.sub_rng('objects', i)
        c = random_case(rng, ctx.tier, norepair=(i % 3 == 0))
        if max(pw_of(c)) > 1:
            continue
        decorate(rng, c, force=('targets', 'mems', 'preds')[: 1 + i % 3] if i % 4 else ('targets', 'mems', 'preds'))
        c['origin'] = 'random-object-kinds'
        yield c


def gen_cases0(ctx):
    """yield (key, case)"""
    quick = ctx.tier == 'quick'
    # (1) bounded-exhaustive
    nmax = 2 if quick else 3
    for ti, targets in enumerate(TARGET_PAIRS):
        npred = 2
        labels = list(range(npred)) + ['oth']
        asgs = subsets(targets)
        for n in range(1, nmax + 1):
            if not quick and n == 3 and ti > 1:
                break   # n = 3 exhaustive for two of the target pairs (thorough)
            for skel in enum_forests(n, labels, asgs):
                c = skeleton_to_case(skel, npred, targets)
                c['origin'] = 'enum%d' % n
                yield c
    # seeded sample of the n=3 (quick) / n=4 (thorough) space, 3 predicates
    rng = ctx.sub_rng('sample')
    nbig = 3 if quick else 4
    nsamp = 300 if quick else 2000
    labels = [0, 1, 2, 'oth']
    for i in range(nsamp):
        targets = rng.choice(TARGET_PAIRS)
        asgs = subsets(targets)

        def rnd_forest(n):
            if n == 0:
                return []
            k = rng.randint(1, n)
            first = (rng.choice(labels), rng.choice(asgs), rnd_forest(k - 1))
            return [first] + rnd_forest(n - k)
        c = skeleton_to_case(rnd_forest(nbig), 3, targets)
        c['origin'] = 'enum-sample%d' % nbig
        yield c
    # (2) random
    nrand = 400 if quick else 6000
    for i in range(nrand):
        c = random_case(ctx.sub_rng('random', i), ctx.tier)
        yield c
    # (2a) one predicate wider than 1 bit, used by a `with` somewhere (possibly with an empty body, under an
    # otherwise, after accepted assignments ...): must raise PyrtlError when that `with` is entered
    for i in range(80 if quick else 800):
        yield random_case(ctx.sub_rng('wide', i), ctx.tier, wide=True)
    for pw in (2, 3):   # smallest shapes, exhaustive over position
        for skel in enum_forests(2, [0, 1, 'oth'], [(), (('w', 0),)]):
            c = skeleton_to_case(skel, 2, [('w', 0)])
            c['pwidths'] = [1, pw]
            c['origin'] = 'enum2-wide-predicate'
            yield c
    # (2c) right-hand sides / declared defaults that are the design's own registers: explicit holds
    # (r0.next |= r0), copies of another register, with and without a declared default; all combinations
    for tkind in ('r', 'w'):
        rk = ['x', 'self', 'other'] if tkind == 'r' else ['x', 'other']
        for n in (1, 2) if quick else (1, 2, 3):
            for kinds in itertools.product(rk, repeat=n):
                if all(k == 'x' for k in kinds):
                    continue
                for dkind in [None] + rk:
                    for shape in (('flat',) if n == 1 else ('flat', 'flat-oth', 'nested')):
                        yield state_rhs_case(kinds, dkind, shape, tkind)
    # (2d) every KIND of right-hand side the |= entry points take (ints at the boundaries of the width incl.
    # negatives, bools, Verilog strings, Const objects signed/unsigned, narrower/equal/wider wires) in every
    # slot (wire, register, memory data / address / enable): accepted with the value at the target's
    # width, or PyrtlError, as the coercion spec (coerce_ok) says
    for c in rhs_kind_cases(quick):
        yield c
    # (2e) a rejected |= whose PyrtlError is caught (try/except around the statement) while the elaboration
    # of the same block goes on: the rejected statement must leave nothing behind -- the design that remains
    # is the program without it
    for i in range(150 if quick else 1500):
        trng = ctx.sub_rng('caught', i)
        c = random_case(trng, ctx.tier, norepair=True)
        if max(pw_of(c)) > 1:
            continue
        c = add_try_markers(trng, c)
        c['origin'] = 'random-caught-error'
        c['structural'] = c['structural'] and True
        yield c
    # (2b) memory write chains: 2..4 (thorough 5) conditional writes to one MemBlock, ALL patterns of
    # address wires over a pool of 3 shared address Inputs (X,Y / X,Y,Y / X,Y,X / X,X,Y,Y ...), 4 shapes
    nmem = 4 if quick else 5
    for n in range(2, nmem + 1):
        for pat in itertools.product(range(3), repeat=n):
            if list(pat) != canon_pattern(pat):
                continue      # wire names are interchangeable: keep one representative per renaming
            for shape in ('flat', 'flat-oth', 'nested', 'split'):
                yield memchain_case(pat, shape)
    mrng = ctx.sub_rng('memchain')
    for i in range(60 if quick else 600):   # shared data wires too, 2-3 address wires, up to 5 writes
        n = mrng.randint(3, 5)
        k = mrng.randint(2, 3)
        pat = [mrng.randrange(k) for _ in range(n)]
        dpat = [mrng.randrange(n) for _ in range(n)]
        yield memchain_case(pat, mrng.choice(['flat', 'flat-oth', 'nested', 'split']), dpat,
                            W=mrng.choice([2, 3, 4]), A=mrng.choice([2, 3]))
    # (3) multi-block designs
    for i in range(40 if quick else 400):
        c = multiblock_case(ctx.sub_rng('multi', i))
        yield c
    for i in range(40 if quick else 400):
        yield multiblock_case(ctx.sub_rng('multi-shared', i), shared=True)


def run(ctx):
    jobs = []
    pyrtl.reset_working_block()
    prng = ctx.sub_rng('poison')
    n = 0
    def guarded_cases():
        # a fault inside a generator must not lose the cases already built nor the Coq phase
        it = gen_cases(ctx)
        while True:
            try:
                yield next(it)
            except StopIteration:
                return
            except Exception:  # noqa
                ctx.model_mismatch('harness error in the case generator: %s' % traceback.format_exc()[-600:], {})
                return
    for case in guarded_cases():
        if prng.random() < 0.08:
            run_poison(ctx, prng.randrange(len(POISON)))
        try:
            process_case(ctx, case, ctx.sub_rng('stim', n), jobs, seed_key=(ctx.seed, 'shrink', n))
        except Exception:  # noqa  -- a harness fault on one case is reported, the other cases still run
            ctx.model_mismatch('harness error while processing case %d (%s): %s' % (
                n, case.get('origin'), traceback.format_exc()[-600:]), {'source': emit_source(case)})
            pyrtl.reset_working_block()
        n += 1
    for k in range(len(POISON)):
        run_poison(ctx, k)
    # the Coq statement of the integer coercion rule agrees with the Python twin used by the search
    pts = [(w, v) for w in (1, 2, 3, 8) for v in sorted({0, 1, (1 << w) - 1, 1 << w, (1 << w) + 3, -1, -(1 << (w - 1)),
                                                         -(1 << (w - 1)) - 1, -(1 << w), 1 << (w - 1)})]
    try:
        cres = ctx.coq_eval(['coerce_int %d (%d)' % p for p in pts], IMPORTS, tag='c07coerce', shard=100, jobs=2)
        for (w, v), r in zip(pts, cres):
            lf = {'kind': 'int', 'val': v}
            want = (v & ((1 << w) - 1)) if coerce_ok(lf, w, True) else None
            if r != want:
                ctx.model_mismatch('Coq coerce_int %d %d = %r but the Python coercion spec says %r' % (w, v, r, want), {})
    except Exception as e:  # noqa
        ctx.model_mismatch('coerce_int could not be evaluated: %s' % str(e)[-300:], {})
    exprs = [e for j in jobs for e in j['exprs']]
    try:
        results = ctx.coq_eval(exprs, IMPORTS, tag='c07', shard=150 if ctx.tier == 'quick' else 300, jobs=12)
    except Exception as e:  # noqa
        ctx.model_mismatch('Front/Cond*.v could not be evaluated: %s' % str(e)[-800:], {})
        return
    pos = 0
    for j in jobs:
        nb = len(j['exprs'])
        try:
            check_job(ctx, j, results[pos:pos + nb])
        except Exception:  # noqa
            ctx.model_mismatch('harness error while checking a case (%s): %s' % (
                j['case'].get('origin'), traceback.format_exc()[-600:]), j['rep'])
        pos += nb


def replay(ctx, data):
    """re-run ONE stored program: rebuild it from its source text, re-apply the stored inputs and
    compare with the stored expectation (which came from the tree interpreter)."""
    rep = data.get('replay', data)
    sig = data.get('signature', 'replay')
    src = rep.get('source')
    print(src)
    ns = {}
    outcome = 'accepted'
    try:
        exec(compile(src, '<replay>', 'exec'), ns)
    except pyrtl.PyrtlError as e:
        outcome = 'rejected: %s' % e
    except Exception as e:  # noqa
        outcome = 'raised %s' % type(e).__name__
    print(outcome)
    ctx.case(('replay', src), nontrivial=True, sample={'source': src, 'outcome': outcome})
    if rep.get('kind') == 'accept' or sig.startswith('accept-mismatch'):
        expect_ok = rep.get('spec', 'ok') == 'ok' if 'spec' in rep else not sig.startswith('accept-mismatch:accepted')
        if (outcome == 'accepted') != expect_ok:
            ctx.spec_violation(sig, 'replay: program is %s, the syntactic criterion says %s' % (
                outcome, 'accept' if expect_ok else 'reject'), rep)
    elif 'inputs' in rep and outcome == 'accepted':
        sim = pyrtl.Simulation(register_value_map={ns[k]: v for k, v in rep.get('init_regs', {}).items()},
                               memory_value_map=dict({ns[k]: {int(a): v for a, v in c.items()}
                                                      for k, c in rep.get('init_mems', {}).items()},
                                                     **({ns['fm']: {0: 0, 1: 1}} if 'fm' in ns else {})))
        names = {w.name for w in pyrtl.working_block().wirevector_subset(pyrtl.Input)}
        for st in rep['inputs']:
            ins = {'p%d' % i: b for i, b in enumerate(st['rho']) if 'p%d' % i in names}
            ins.update({k: v for k, v in st.get('pins', {}).items() if k in names})
            for i, v in enumerate(st['x']):
                if 'x%d' % i in names:
                    ins['x%d' % i] = v
            sim.step(ins)
        t = rep['target']
        got = {int(a): v for a, v in sim.inspect_mem(ns[t]).items() if v} if t.startswith('m') else sim.inspect(t)
        exp = rep['expected']
        if isinstance(exp, dict):
            exp = {int(a): v for a, v in exp.items() if v}
        print('cycle', rep.get('cycle'), 'target', t, 'expected', exp, 'got', got)
        if got != exp:
            ctx.spec_violation(sig, 'replay: cycle %s target %s: expected %r, got %r' % (rep.get('cycle'), t, exp, got), rep)
    pyrtl.reset_working_block()
