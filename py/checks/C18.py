"""C18: rtllib AES and PRNG circuits vs (a) the Coq structure models Lib/AesModel.v, Lib/PrngModel.v
(tie), (b) the Coq specifications Lib/AesSpec.v (FIPS-197) and Lib/PrngSpec.v (published LFSR /
xoroshiro128+ / Trivium + documented protocol) and (c) independent plain-Python references written
from the same publications (search).  The regenerated Gen/AesTables.v is also compared with the
values the imported module holds at run time.  The PRNG structure model is tied to the source by the
translator: py/genfrag_C18prng.py regenerates the three step functions from prngs.py (Gen/PrngFrag.v),
Props/C18gen.v proves them equal to Lib/PrngModel.v, and the regenerated functions themselves are
also run against the real circuits here (which checks the translator)."""
import os
import sys

import pyrtl
from pyrtl.rtllib import aes, prngs

sys.path.insert(0, os.path.dirname(os.path.dirname(os.path.abspath(__file__))))
import genfrag_C18  # noqa: E402

RULE = ('AES: two designs per run, each built by ONE shared AES() object whose units have SEPARATE key Inputs driven '
        'by different keys (design 1, build order shuffled by seed: encryption(k1) + decryption(k2) + every sub-function + '
        'a bare _key_gen(kg) + encrypt_state_m(ks); design 2: _key_gen(kgA), decryption_statem(ks), _key_gen(kgB)); every '
        'unit is compared with FIPS-197 under ITS OWN key; fed FIPS-197 Appendix B/C.1 vectors, edge blocks and '
        'seeded random 128-bit key/block pairs on successive cycles (state machines: reset pulses with '
        'bogus data in between, early re-resets, random reset schedules); PRNGs: seeds x bitwidth in '
        '{1,7,63,64,65,127,128,129,200,256} x bits_per_cycle in {1,2,4,8,16,32,64} (3 and 17 must be '
        'rejected) x seed given as a WireVector or as a Python int constant (0, 1, small, top bit, all ones, full width) x protocol-abiding, random, and LONG-IDLE load/req schedules (idle stretches in every waiting state longer '
        'than 2**width of every small register read off the built netlist, plus req/load at arbitrary phases); every output compared on every '
        'cycle; the step functions REGENERATED from prngs.py (Gen/PrngFrag.v) are run on the long-idle, suite-vector and '
        'a sample of the other schedules (every protocol-abiding one in the thorough tier) and compared with the circuits too.  A case is distinct by (circuit, parameters, stimulus) and non-trivial when its outputs '
        'take at least two values (AES pairs: always; PRNG schedules: at least one ready pulse).')
IMPORTS = ('From Coq Require Import ZArith List.\nImport ListNotations.\nOpen Scope Z_scope.\n'
           'From PyRTL Require Import Lib.AesSpec Lib.AesModel Lib.PrngSpec Lib.PrngModel.\n')
PROPS_FILES = ['theories/Props/C18.v', 'theories/Props/C18gen.v']
COQ_TARGETS = ['theories/Lib/AesModel.vo', 'theories/Lib/PrngModel.vo', 'theories/Lib/PrngGenRun.vo']
IMPORTS_GEN = IMPORTS + 'From PyRTL Require Import Lib.PrngGenBase Gen.PrngFrag Lib.PrngGenRun.\n'
TRUSTED = ['coq/theories/Lib/AesSpec.v: FIPS-197 AES-128 written from the standard (xtime, inverse, affine map, '
           'ShiftRows, MixColumns, KeyExpansion, Cipher, InvCipher); reproduces Appendix A.1, B and C.1 by vm_compute',
           'coq/theories/Lib/PrngSpec.v: published LFSR / xoroshiro128+ / Trivium single steps and the documented '
           'load/req/ready protocol; reproduces the five Trivium vectors of tests/rtllib/test_prngs.py',
           'py/checks/C18.py: independent plain-Python references (ref_aes_*, RefLfsr, RefXoroshiro, RefTrivium)',
           'py/genfrag_C18prng.py + Lib/PrngGenBase.v: the PyRTL-construct -> Gallina elaborator for prngs.py and the meaning it '
           'gives to bit select / slices / concat / conditional_assignment (fail closed; its output is additionally run '
           'against the real circuits on every run)',
           'bit-order conventions (block/key: in[0] most significant byte; Trivium K_i/IV_i = bit i-1 of seed[159:80] / '
           'seed[79:0]; streams earliest-bit-most-significant) are taken from the docstrings and the suite']
ASSUMPTIONS = ['adders.kogge_stone(s0, s1) inside prng_xoroshiro128 is translated to integer addition (checked '
               'behaviourally here; adder correctness is property C13)',
               'Props/C18gen.v: load and req are one bit wide and the seed is within its declared width (127/128/160 bits) -- '
               'the premises bit1 / ins_ok, satisfiable (Example C18_gen_example) and true of every generated schedule',
               'FastSimulation is used for the three AES netlists and for PRNG schedules longer than 600 cycles (speed); all other PRNG runs use pyrtl.Simulation',
               'inputs are in range (128-bit key/block, 127/128/160-bit seeds, 1-bit load/req/reset)']

M128 = (1 << 128) - 1
_T = 'p%d_' % os.getpid()   # Coq scratch files are per process: concurrent runs of this check share work/C18
FIPS = [  # (key, plaintext, ciphertext): FIPS-197 Appendix B, Appendix C.1, and the suite's two
    (0x2b7e151628aed2a6abf7158809cf4f3c, 0x3243f6a8885a308d313198a2e0370734, 0x3925841d02dc09fbdc118597196a0b32),
    (0x000102030405060708090a0b0c0d0e0f, 0x00112233445566778899aabbccddeeff, 0x69c4e0d86a7b0430d8cdb78070b4c55a),
    (0x2b7e151628aed2a6abf7158809cf4f3c, 0x6bc1bee22e409f96e93d7e117393172a, 0x3ad77bb40d7a3660a89ecaf32466ef97),
    (0, 0, 0x66e94bd4ef8a2c3b884cfa59ca342b2e),
]
TRIVIUM_VECTORS = [  # tests/rtllib/test_prngs.py (eSTREAM vectors, per-byte bit order adapted by the suite)
    (0x0100000000000000000000000000000000000000, 0x1cd761ffceb05e39f5b18f5c22042ab0),
    (0x0a09080706050403020100000000000000000000, 0x372e6b86524afa71b5fee86d5cebb07d),
    (0xfffefdfcfbfaf9f8f7f600000000000000000000, 0xc100baca274287277ff49b9fb512af1c),
    (0xfaa75401ae5b08b5620fc760f9922bc45df68f28, 0xcb5996fcff373a953fc169e899e02f46),
    (0xf5a24ffca95603b05d0abe57f08922bb54ed861f, 0xf142d1df4b36c7652cba2e4a22ee51a0),
]


# --------------------------------------------------------------------------------------------
# independent plain-Python references
def _xtime(b):
    b <<= 1
    return (b ^ 0x11b) & 0xff if b & 0x100 else b


def _gmul(a, b):
    r = 0
    while b:
        if b & 1:
            r ^= a
        a = _xtime(a)
        b >>= 1
    return r


def _make_sbox():
    sbox = [0] * 256
    for x in range(256):
        inv = 0
        for y in range(256):
            if _gmul(x, y) == 1:
                inv = y
                break
        r = 0
        for i in range(8):
            bit = ((inv >> i) ^ (inv >> ((i + 4) % 8)) ^ (inv >> ((i + 5) % 8)) ^ (inv >> ((i + 6) % 8))
                   ^ (inv >> ((i + 7) % 8)) ^ (0x63 >> i)) & 1
            r |= bit << i
        sbox[x] = r
    return sbox


_SBOX = _make_sbox()
_INV_SBOX = [_SBOX.index(i) for i in range(256)]


def _to_bytes(x):
    return [(x >> (8 * (15 - i))) & 0xff for i in range(16)]


def _from_bytes(bs):
    r = 0
    for b in bs:
        r = (r << 8) | b
    return r


def _expand(key):
    w = [key[4 * i:4 * i + 4] for i in range(4)]
    rc = 1
    for i in range(4, 44):
        t = list(w[i - 1])
        if i % 4 == 0:
            t = [_SBOX[t[1]] ^ rc, _SBOX[t[2]], _SBOX[t[3]], _SBOX[t[0]]]
            rc = _xtime(rc)
        w.append([a ^ b for a, b in zip(w[i - 4], t)])
    return [sum((w[4 * r + c] for c in range(4)), []) for r in range(11)]


def _shift(s, inv=False):
    out = [0] * 16
    for c in range(4):
        for r in range(4):
            if inv:
                out[r + 4 * ((c + r) % 4)] = s[r + 4 * c]
            else:
                out[r + 4 * c] = s[r + 4 * ((c + r) % 4)]
    return out


def _mix(s, m):
    out = [0] * 16
    for c in range(4):
        col = s[4 * c:4 * c + 4]
        for r in range(4):
            out[4 * c + r] = (_gmul(col[0], m[(0 - r) % 4]) ^ _gmul(col[1], m[(1 - r) % 4])
                              ^ _gmul(col[2], m[(2 - r) % 4]) ^ _gmul(col[3], m[(3 - r) % 4]))
    return out


def ref_aes_rounds(key, x):
    """all intermediate states of FIPS-197 Cipher: [after AddRoundKey 0, after round 1, ..., after round 10]"""
    rk = _expand(_to_bytes(key))
    s = [a ^ b for a, b in zip(_to_bytes(x), rk[0])]
    out = [_from_bytes(s)]
    for rnd in range(1, 11):
        s = _shift([_SBOX[b] for b in s])
        if rnd != 10:
            s = _mix(s, [2, 3, 1, 1])
        s = [a ^ b for a, b in zip(s, rk[rnd])]
        out.append(_from_bytes(s))
    return out


def ref_aes_enc(key, x):
    return ref_aes_rounds(key, x)[-1]


def ref_aes_dec(key, x):
    rk = _expand(_to_bytes(key))
    s = [a ^ b for a, b in zip(_to_bytes(x), rk[10])]
    for rnd in range(9, -1, -1):
        s = [_INV_SBOX[b] for b in _shift(s, inv=True)]
        s = [a ^ b for a, b in zip(s, rk[rnd])]
        if rnd != 0:
            s = _mix(s, [14, 11, 13, 9])
    return _from_bytes(s)


class RefLfsr(object):
    """Fibonacci LFSR x^127 + x^126 + 1 as a bit stream: b[n] = b[n-126] ^ b[n-127]."""
    def __init__(self, bitwidth):
        self.n = bitwidth
        self.hist = [0] * max(127, bitwidth)     # hist[0] newest

    def cycle(self, load, req, seed):
        out = 0
        for b in reversed(self.hist[:self.n]):   # earliest of the n newest bits first -> MSB
            out = (out << 1) | b
        if load:
            self.hist = [(seed >> i) & 1 for i in range(len(self.hist))]
        elif req:
            for _ in range(self.n):
                self.hist = [self.hist[125] ^ self.hist[126]] + self.hist[:-1]
        return out


class RefXoroshiro(object):
    def __init__(self, bitwidth):
        self.bw = bitwidth
        self.g = -(-bitwidth // 64)
        self.s = [0, 0]
        self.words = []
        self.gen = False
        self.left = 0

    def _next(self):
        m = (1 << 64) - 1
        s0, s1 = self.s
        res = (s0 + s1) & m
        s1 ^= s0
        rot = lambda x, k: ((x << k) | (x >> (64 - k))) & m  # noqa: E731
        self.s = [rot(s0, 55) ^ s1 ^ ((s1 << 14) & m), rot(s1, 36)]
        self.words = (self.words + [res])[-self.g:]

    def cycle(self, load, req, seed):
        v = 0
        for w in ([0] * self.g + self.words)[-self.g:]:
            v = (v << 64) | w
        ready = int((not load) and (not req) and self.gen and self.left == 0)
        out = v >> (64 * self.g - self.bw)
        if load:
            self.s = [seed & ((1 << 64) - 1), (seed >> 64) & ((1 << 64) - 1)]
            self.gen = False
        elif req:
            self.gen, self.left = True, self.g
            self._next()
            self.left -= 1
        elif self.gen and self.left > 0:
            self._next()
            self.left -= 1
        return ready, out


class RefTrivium(object):
    """Trivium on the published 1-based 288-bit state list; position-counting protocol."""
    def __init__(self, bitwidth, k):
        self.bw, self.k = bitwidth, k
        self.g = -(-bitwidth // k)
        self.s = [0] * 289
        self.rand = []       # collected bits, earliest first
        self.phase, self.n = 0, 0

    def _step(self):
        s = self.s
        t1 = s[66] ^ s[93]
        t2 = s[162] ^ s[177]
        t3 = s[243] ^ s[288]
        z = t1 ^ t2 ^ t3
        t1 ^= (s[91] & s[92]) ^ s[171]
        t2 ^= (s[175] & s[176]) ^ s[264]
        t3 ^= (s[286] & s[287]) ^ s[69]
        self.s = [0, t3] + s[1:93] + [t1] + s[94:177] + [t2] + s[178:288]
        return z

    def cycle(self, load, req, seed):
        out = 0
        for b in self.rand:
            out = (out << 1) | b
        ready = int((not load) and (not req) and ((self.phase == 1 and self.n >= 1152)
                                                   or (self.phase == 2 and self.n == self.g)))
        if load:
            key, iv = seed >> 80, seed & ((1 << 80) - 1)
            self.s = ([0] + [(key >> i) & 1 for i in range(80)] + [0] * 13
                      + [(iv >> i) & 1 for i in range(80)] + [0] * 4 + [0] * 108 + [1, 1, 1])
            self.phase, self.n = 1, 0
        elif req:
            self.rand = (self.rand + [self._step() for _ in range(self.k)])[-self.bw:]
            self.phase, self.n = 2, 1
        elif self.phase == 1 and self.n < 1152:
            for _ in range(self.k):
                self._step()
            self.n += self.k
        elif self.phase == 2 and self.n < self.g:
            self.rand = (self.rand + [self._step() for _ in range(self.k)])[-self.bw:]
            self.n += 1
        return ready, out


# --------------------------------------------------------------------------------------------
# Coq term printing
def triples(rows):
    # hexadecimal literals: Coq parses them several times faster than decimal ones
    return '[' + '; '.join('(%d,%d,%#x)' % tuple(r) for r in rows) + ']'


HM = 0x9E3779B97F4A7C15F39CC0605CEDC8341082276BF3A27251F86C6A11D0C18E95


def summary(pairs):
    """mirror of PrngSpec.summary / AesModel.sm_summary on a list of (ready, value)"""
    vs = [(v << 1) + r for r, v in pairs]
    h = 0
    for v in vs:
        h = (h * HM + v + 1) & ((1 << 320) - 1)
    out = [[h, len(vs), vs[-1] if vs else 0]]
    prev = 0
    n = 12
    for i, v in enumerate(vs):
        if (v & 1) and not (prev & 1):
            if n == 0:
                break
            n -= 1
            out.append([i, v >> 1])
        prev = v
    return out


# --------------------------------------------------------------------------------------------
def check_tables(ctx):
    """the regenerated Gen/AesTables.v content == what the imported module holds now"""
    try:
        x = genfrag_C18.extract(os.environ.get('PYRTL_REPO', '/repo'))
    except Exception as e:
        ctx.model_mismatch('py/genfrag_C18.py cannot translate aes.py: %s' % e, {})
        return
    A = aes.AES
    for t in genfrag_C18.TABLES:
        ctx.case(('table', t), nontrivial=True)
        ctx.count('tables', t)
        if list(getattr(A, t)) != x['data'][t]:
            ctx.model_mismatch('translated table %s differs from the run-time value AES.%s' % (t, t), {'table': t})
    # the tables against the independent reference (the search side of aes_tables_correct)
    exp = {'_sbox_data': _SBOX, '_inv_sbox_data': _INV_SBOX}
    for k in (2, 3, 9, 11, 13, 14):
        exp['_GM%d_data' % k] = [_gmul(b, k) for b in range(256)]
    rc, r = [0x8d], 0x8d
    for _ in range(255):
        r = _xtime(r)
        rc.append(r)
    exp['_rcon_data'] = rc
    for t, e in exp.items():
        got = list(getattr(A, t))
        n_used = 11 if t == '_rcon_data' else 256      # only Rcon[1..10] are ever read
        bad = [i for i in range(len(e)) if i >= len(got) or got[i] != e[i]]
        bad_used = [i for i in bad if i < n_used]
        if bad_used:
            ctx.spec_violation('aes-table:%s' % t, 'AES.%s[%d] = %s, the published function gives %s' % (
                t, bad_used[0], got[bad_used[0]] if bad_used[0] < len(got) else None, e[bad_used[0]]),
                {'table': t, 'index': bad_used[0], 'expected': e[bad_used[0]]})


KG_SPEC = ('(m_key_list %#x, map (fun r => of_bytes_be (round_key (KeyExpansion (bytes_be %#x)) r)) (seq 0 11))')


def build_shared(which, order):
    """ONE AES() object builds every unit of the design, each unit with its OWN key Input, in the
    given build order (any state cached on the object by one unit is visible to the next):
      'enc' design: encryption(x, k1), decryption(x, k2), the sub-functions on x, a bare _key_gen(kg)
                    unit and encrypt_state_m(xs, ks, reset);
      'dec' design: _key_gen(kgA), decryption_statem(xs, ks, reset), _key_gen(kgB).
    (encrypt_state_m and decryption_statem cannot share a block: both name a register 'counter'.)"""
    pyrtl.reset_working_block()
    a = aes.AES()
    outs = {}
    x = pyrtl.Input(128, 'x') if which == 'enc' else None
    xs, ks, reset = pyrtl.Input(128, 'xs'), pyrtl.Input(128, 'ks'), pyrtl.Input(1, 'reset')

    def keygen_unit(name):
        outs[name] = pyrtl.concat_list(a._key_gen(pyrtl.Input(128, name)))

    def unit(u):
        if u == 'enc':
            outs['enc'] = a.encryption(x, pyrtl.Input(128, 'k1'))
        elif u == 'dec':
            outs['dec'] = a.decryption(x, pyrtl.Input(128, 'k2'))
        elif u == 'parts':
            parts = [a._sub_bytes(x), a._sub_bytes(x, True), a._shift_rows(x), a._inv_shift_rows(x),
                     a._mix_columns(x), a._mix_columns(x, True)] + [a._key_expansion(x, r) for r in range(10)]
            for j, w in enumerate(parts):
                outs['p%d' % j] = w
        elif u == 'sm':
            r, o = (a.encrypt_state_m if which == 'enc' else a.decryption_statem)(xs, ks, reset)
            outs['ready'], outs['out'] = r, o
        else:
            keygen_unit(u)
    for u in order:
        unit(u)
    for n in sorted(outs):
        o = pyrtl.Output(len(outs[n]), 'o_' + n)
        o <<= outs[n]
    blk = pyrtl.working_block()
    return pyrtl.FastSimulation(block=blk, tracer=pyrtl.SimulationTrace(
        wires_to_track=list(blk.wirevector_subset(pyrtl.Output)), block=blk))


def aes_triples(ctx):
    """forward stimuli (k1 for encryption, k2 for decryption, block): the two keys differ"""
    n = 20 if ctx.tier == 'quick' else 300
    rng = ctx.sub_rng('aes-pairs')
    r = lambda: rng.getrandbits(128)  # noqa: E731
    tr = [(k, r(), p) for k, p, c in FIPS] + [(r(), k, c) for k, p, c in FIPS]
    tr += [(0, M128, M128), (M128, 0, 0), (1, 1 << 127, 1 << 127), (1 << 127, 1, 1), (M128, M128, M128)]
    tr += [(r(), r(), r()) for _ in range(n)]
    return tr


def sm_schedules(ctx, which):
    """[(reset, x, k)...]"""
    rng = ctx.sub_rng('aes-sm', which)
    n = 6 if ctx.tier == 'quick' else 60
    pairs = [(k, p if which == 'enc' else c) for k, p, c in FIPS[:2]]
    pairs += [(rng.getrandbits(128), rng.getrandbits(128)) for _ in range(n)]
    sched = [(0, rng.getrandbits(128), rng.getrandbits(128)) for _ in range(rng.choice([3, 13]))]  # before any reset
    for (k, b) in pairs:
        sched.append((1, b, k))
        gap = rng.choice([11, 12, 12, 14, 15, rng.randint(1, 10)])     # sometimes re-reset early
        for _ in range(gap):
            bogus = rng.random() < 0.7
            sched.append((0, rng.getrandbits(128) if bogus else b, rng.getrandbits(128) if bogus else k))
    for _ in range(40 if ctx.tier == 'quick' else 600):                 # random reset schedule
        sched.append((1 if rng.random() < 0.12 else 0, rng.getrandbits(128), rng.getrandbits(128)))
    return sched


def check_keygen(ctx, unit, keys, outs, ncoq):
    """a bare _key_gen(k) unit: concat_list of the 11 round keys vs FIPS-197 KeyExpansion under ITS key"""
    got_all = [[(o >> (128 * r)) & M128 for r in range(11)] for o in outs]
    res = ctx.coq_eval([KG_SPEC % (k, k) for k in keys[:ncoq]], IMPORTS, tag=_T + 'aeskg' + unit, shard=4, jobs=6)
    for i, (k, got) in enumerate(zip(keys, got_all)):
        want = [_from_bytes(rk) for rk in _expand(_to_bytes(k))]
        ctx.case(('aes-keygen', unit, k), nontrivial=True)
        if got != want:
            r = [g != w for g, w in zip(got, want)].index(True)
            ctx.spec_violation('aes:key-schedule', 'AES._key_gen(%#x) (unit %s of a shared AES object): round key %d is %#x, '
                               'FIPS-197 KeyExpansion gives %#x' % (k, unit, r, got[r], want[r]), {'key': hex(k), 'unit': unit})
        if i < ncoq:
            m, sp = res[i]
            if sp != want:
                ctx.model_mismatch('Lib/AesSpec.v KeyExpansion and the Python reference disagree', {'key': hex(k)})
            if got != m:
                ctx.model_mismatch('AES._key_gen circuit and Lib/AesModel.v m_key_list disagree', {'key': hex(k)})
    ctx.count('aes', 'keygen-unit-cycles', len(keys))


def analyse_sm(ctx, which, sched, trace):
    fn = 'enc_sm_sum' if which == 'enc' else 'dec_sm_sum'
    model = ctx.coq_eval(['%s %s' % (fn, triples(sched))], IMPORTS, tag=_T + 'aessm' + which, shard=1, jobs=1)[0]
    if model != summary(trace):
        ctx.model_mismatch('AES %s state machine and Lib/AesModel.v disagree (trace summary: [digest, cycles, last], '
                           'ready rising edges [cycle, text])' % which,
                           {'circuit': which, 'model': model, 'implementation': summary(trace),
                            'schedule': [[a, hex(b), hex(c)] for a, b, c in sched]})
    ref = ref_aes_enc if which == 'enc' else ref_aes_dec
    last = None
    nready = 0
    for t, ((r, x, k), got) in enumerate(zip(sched, trace)):
        rep = {'circuit': which, 'cycle': t, 'shared_AES_object': True,
               'schedule_prefix': [[a, hex(b), hex(c)] for a, b, c in sched[max(0, t - 14):t + 1]]}
        if last is not None:
            age = t - last[0]
            want_ready = 1 if age >= 11 else 0
            if got[0] != want_ready:
                ctx.spec_violation('aes-sm:%s:ready' % which, '%s state machine: ready=%d %d cycles after reset (documented: '
                                   'ready from the 11th cycle)' % (which, got[0], age), rep)
            elif want_ready and got[1] != ref(last[2], last[1]):
                ctx.spec_violation('aes-sm:%s:result' % which, '%s state machine: ready but output %#x != %#x' % (
                    which, got[1], ref(last[2], last[1])), rep)
            elif which == 'enc' and 1 <= age <= 10 and got[1] != ref_aes_rounds(last[2], last[1])[age - 1]:
                ctx.spec_violation('aes-sm:enc:round-state', 'encrypt_state_m: state after round %d differs from FIPS-197' % (age - 1), rep)
            nready += want_ready
        if r:
            last = (t, x, k)
    nres = sum(1 for s in sched if s[0])
    ctx.count('aes-sm', which + ':cycles', len(sched))
    ctx.count('aes-sm', which + ':resets', nres)
    ctx.count('aes-sm', which + ':ready-cycles', nready)
    for t, s in enumerate(sched):
        if s[0]:
            ctx.case(('aes-sm', which, t, s[1], s[2]), nontrivial=True,
                     sample={'circuit': which + '_state_machine', 'reset_cycle': t, 'block': hex(s[1]), 'key': hex(s[2])} if t < 20 else None)


def check_aes_enc_design(ctx):
    """single AES() object: encryption(k1) + decryption(k2) + sub-functions + _key_gen(kg) + encrypt_state_m(ks)"""
    rng = ctx.sub_rng('aes-enc-design')
    order = ['enc', 'dec', 'parts', 'kg', 'sm']
    rng.shuffle(order)
    ctx.count('aes-build-order', '>'.join(order))
    fwd = aes_triples(ctx)
    n = len(fwd)
    sched = sm_schedules(ctx, 'enc')
    N = max(2 * n, len(sched))
    sched = sched + [(0, rng.getrandbits(128), rng.getrandbits(128)) for _ in range(N - len(sched))]
    sim = build_shared('enc', order)
    tr = sim.tracer.trace
    comb, rows, kgs, kgout, smtrace = [], [], [], [], []
    for t in range(N):
        if t < n:
            k1, k2, b = fwd[t]
        elif t < 2 * n:       # feed the ciphertext back under the encryption key; encryption gets a fresh key
            k1, k2, b = rng.getrandbits(128), fwd[t - n][0], rows[t - n]['enc']
        else:
            k1, k2, b = rng.getrandbits(128), rng.getrandbits(128), rng.getrandbits(128)
        kg = rng.getrandbits(128)
        r, xs, ks = sched[t]
        sim.step({'x': b, 'k1': k1, 'k2': k2, 'kg': kg, 'xs': xs, 'ks': ks, 'reset': r})
        comb.append((k1, k2, b))
        rows.append({nm[2:]: tr[nm][-1] for nm in tr if nm.startswith('o_')})
        kgs.append(kg)
        kgout.append(rows[-1]['kg'])
        smtrace.append([rows[-1]['ready'], rows[-1]['out']])
    shard = 4 if ctx.tier == 'quick' else 10
    res = ctx.coq_eval(['[m_encryption %#x %#x; m_decryption %#x %#x; CipherZ %#x %#x; InvCipherZ %#x %#x]' % (
        k1, b, k2, b, k1, b, k2, b) for (k1, k2, b) in fwd], IMPORTS, tag=_T + 'aes', shard=shard, jobs=10)
    npart = 12 if ctx.tier == 'quick' else 60
    parts = ctx.coq_eval(['aes_parts %#x' % b for (k1, k2, b) in fwd[:npart]], IMPORTS, tag=_T + 'aesparts', shard=20, jobs=6)
    for t, ((k1, k2, b), row) in enumerate(zip(comb, rows)):
        rep = {'enc_key': hex(k1), 'dec_key': hex(k2), 'block': hex(b), 'cycle': t, 'build_order': order,
               'shared_AES_object': True}
        e_ref, d_ref = ref_aes_enc(k1, b), ref_aes_dec(k2, b)
        if t < n:
            ctx.case(('aes', k1, k2, b), nontrivial=True,
                     sample={'enc_key': hex(k1), 'dec_key': hex(k2), 'block': hex(b), 'ciphertext': hex(row['enc']),
                             'build_order': order} if t in (1, 20) else None)
            ctx.count('aes', 'fips-vector' if t < 2 * len(FIPS) else ('edge' if t < 2 * len(FIPS) + 5 else 'random'))
            m_enc, m_dec, s_enc, s_dec = res[t]
            if not (s_enc == e_ref and s_dec == d_ref):
                ctx.model_mismatch('Lib/AesSpec.v and the Python FIPS-197 reference disagree', rep)
            if row['enc'] != m_enc or row['dec'] != m_dec:
                ctx.model_mismatch('AES circuit and Lib/AesModel.v disagree (encryption/decryption)', rep)
            if t < npart:
                got = [row['p%d' % j] for j in range(16)]
                if got != parts[t]:
                    j = [a != c for a, c in zip(got, parts[t])].index(True)
                    ctx.model_mismatch('AES sub-circuit #%d (sub,inv_sub,shift,inv_shift,mix,inv_mix,key_expansion r) '
                                       'and Lib/AesModel.v disagree' % j, rep)
        else:
            ctx.count('aes', 'feedback' if t < 2 * n else 'extra-random')
        if row['enc'] != e_ref:
            ctx.spec_violation('aes:encryption', 'AES.encryption(%#x, key=%#x) = %#x, FIPS-197 Cipher gives %#x' % (
                b, k1, row['enc'], e_ref), dict(rep, expected=hex(e_ref), got=hex(row['enc'])))
        if row['dec'] != d_ref:
            ctx.spec_violation('aes:decryption', 'AES.decryption(%#x, key=%#x) = %#x, FIPS-197 InvCipher gives %#x '
                               '(encryption in the same design uses key %#x)' % (b, k2, row['dec'], d_ref, k1),
                               dict(rep, expected=hex(d_ref), got=hex(row['dec'])))
        if n <= t < 2 * n and row['dec'] != fwd[t - n][2]:
            ctx.spec_violation('aes:decrypt-inverts', 'decryption(encryption(x)) = %#x != x = %#x (key %#x)' % (
                row['dec'], fwd[t - n][2], k2), dict(rep, got=hex(row['dec'])))
    for i, (k, p, c) in enumerate(FIPS):
        if rows[i]['enc'] != c:
            ctx.spec_violation('aes:fips-vector', 'FIPS-197 vector %d: got %#x expected %#x' % (i, rows[i]['enc'], c),
                               {'key': hex(k), 'block': hex(p), 'expected': hex(c)})
    check_keygen(ctx, 'kg', kgs, kgout, 4 if ctx.tier == 'quick' else 24)
    analyse_sm(ctx, 'enc', sched, smtrace)


def check_aes_dec_design(ctx):
    """single AES() object: _key_gen(kgA), then decryption_statem(ks), then _key_gen(kgB)"""
    rng = ctx.sub_rng('aes-dec-design')
    order = ['kgA', 'sm', 'kgB']
    ctx.count('aes-build-order', '>'.join(order))
    sched = sm_schedules(ctx, 'dec')
    sim = build_shared('dec', order)
    tr = sim.tracer.trace
    ka, kb, oa, ob, smtrace = [], [], [], [], []
    for (r, xs, ks) in sched:
        a, b = rng.getrandbits(128), rng.getrandbits(128)
        sim.step({'kgA': a, 'kgB': b, 'xs': xs, 'ks': ks, 'reset': r})
        ka.append(a)
        kb.append(b)
        oa.append(tr['o_kgA'][-1])
        ob.append(tr['o_kgB'][-1])
        smtrace.append([tr['o_ready'][-1], tr['o_out'][-1]])
    check_keygen(ctx, 'kgA', ka, oa, 2)
    check_keygen(ctx, 'kgB', kb, ob, 2)
    analyse_sm(ctx, 'dec', sched, smtrace)


# --------------------------------------------------------------------------------------------
BITWIDTHS = [1, 7, 63, 64, 65, 127, 128, 129, 200, 256]
BPCS = [1, 2, 4, 8, 16, 32, 64]


def build_prng(kind, bw, bpc=None, fast=False, const_seed=None):
    """const_seed: the seed is given as a Python int constant (the other documented call form) instead
    of a WireVector; every load then loads that constant"""
    pyrtl.reset_working_block()
    load, req = pyrtl.Input(1, 'load'), pyrtl.Input(1, 'req')
    seedw = {'lfsr': 127, 'xoro': 128, 'triv': 160}[kind]
    seed = pyrtl.Input(seedw, 'seed') if const_seed is None else const_seed
    rand = pyrtl.Output(bw, 'rand')
    ready = pyrtl.Output(1, 'ready')
    if kind == 'lfsr':
        rand <<= prngs.prng_lfsr(bw, load, req, seed)
        ready <<= 0
    elif kind == 'xoro':
        r, o = prngs.prng_xoroshiro128(bw, load, req, seed)
        ready <<= r
        rand <<= o
    else:
        r, o = prngs.csprng_trivium(bw, load, req, seed, bits_per_cycle=bpc)
        ready <<= r
        rand <<= o
    blk = pyrtl.working_block()
    if fast is None:
        return blk
    return make_prng_sim(blk, fast)


def make_prng_sim(blk, fast):
    cls = pyrtl.FastSimulation if fast else pyrtl.Simulation
    outs = [w for w in blk.wirevector_subset(pyrtl.Output) if w.name in ('rand', 'ready')]
    return cls(tracer=pyrtl.SimulationTrace(wires_to_track=outs, block=blk), block=blk)


def counter_span(blk):
    """2**bitwidth of the widest small register of the built design (internal counters / state
    registers are read off the netlist, not assumed): idle stretches must outlast every one of them"""
    small = [r.bitwidth for r in blk.wirevector_subset(pyrtl.Register) if r.bitwidth <= 16]
    return 1 << max(small) if small else 1


def prng_idle_schedule(rng, kind, bw, bpc, span):
    """protocol history with LONG idle stretches in every state in which the unit waits for the user
    (before any load, after the seed-initialised ready, after a result ready, between requests), each
    longer than the range of every internal counter (span = 2**width read off the design, + margin),
    plus req / load pulses at arbitrary phases of INIT and GEN"""
    seedw = {'lfsr': 127, 'xoro': 128, 'triv': 160}[kind]
    g = {'lfsr': 1, 'xoro': -(-bw // 64), 'triv': -(-bw // (bpc or 1))}[kind]
    warm = (1152 // bpc + 1) if kind == 'triv' else 1
    rows = []

    def idle(n):
        while n > 0:
            m = n if n < 4 else rng.randint(1, n)
            rows.append((0, 0, rng.getrandbits(seedw), m))
            n -= m

    def long_idle():
        return rng.choice([span + rng.randint(2, 9), span + rng.randint(2, 9), 2 * span + rng.randint(1, 5), span, span - 1])
    idle(span // 2 + rng.randint(1, 4))                       # waiting before any load
    rows.append((1, 0, rng.getrandbits(seedw) | 1, 1))
    idle(warm)                                               # initialisation completes
    idle(span + rng.randint(2, 9))                           # ... and the user is busy elsewhere
    rows.append((0, 1, rng.getrandbits(seedw), 1))
    idle(g)
    idle(span + rng.randint(2, 9))                           # result ready, nobody looks for a long time
    rows.append((0, 1, rng.getrandbits(seedw), 1))
    idle(g + rng.randint(0, 2))
    rows.append((0, 1, rng.getrandbits(seedw), 1))           # back-to-back / slightly late request
    idle(rng.randint(0, g))                                  # reload in the middle of a generation
    rows.append((1, rng.getrandbits(1), rng.getrandbits(seedw), 1))
    idle(warm + long_idle())
    rows.append((0, 1, rng.getrandbits(seedw), 1))
    idle(g + long_idle())
    if kind == 'triv':                                       # request in the middle of the warm-up
        rows.append((1, 0, rng.getrandbits(seedw), 1))
        idle(rng.randint(0, warm - 1))
        rows.append((0, 1, rng.getrandbits(seedw), 1))
        idle(g + span // 2 + rng.randint(1, 4))
    return rows


def prng_schedule(rng, kind, bw, bpc, style, seeds=None):
    """run-length encoded rows (load, req, seed, count); idle stretches hold one random seed value"""
    seedw = {'lfsr': 127, 'xoro': 128, 'triv': 160}[kind]
    g = {'lfsr': 1, 'xoro': -(-bw // 64), 'triv': -(-bw // (bpc or 1))}[kind]
    warm = (1152 // bpc + 1) if kind == 'triv' else 1
    rows = []

    def idle(n):
        while n > 0:
            m = n if n < 4 else rng.randint(1, n)
            rows.append((0, 0, rng.getrandbits(seedw), m))
            n -= m
    if style == 'protocol':   # load, wait for ready, a few requests each awaited, reseed, request again
        idle(rng.randint(0, 2))
        for si in range(2):
            s = seeds[si] if seeds and si < len(seeds) else rng.getrandbits(seedw) | 1
            rows.append((1, rng.getrandbits(1), s, 1))
            idle(warm - 1 + rng.randint(0, 2) + (1 if kind == 'triv' else 0))
            for _ in range(rng.randint(2, 3)):
                rows.append((0, 1, rng.getrandbits(seedw), 1))
                idle(g + rng.randint(0, 2))
    else:                     # arbitrary interleaving
        n = 6 * g + 30
        if kind == 'triv':    # one (possibly cut short) warm-up, then random pulses incl. rare reloads
            idle(rng.randint(0, 3))
            rows.append((1, 0, rng.getrandbits(seedw), 1))
            idle(rng.choice([warm, warm, max(1, warm // 2), warm - 1]))
        for t in range(n):
            pl = 0.03 if kind == 'triv' else 0.1
            rows.append((1 if rng.random() < pl else 0, 1 if rng.random() < (0.6 / g + 0.1) else 0,
                         rng.getrandbits(seedw), 1))
    return rows


def expand(rows):
    out = []
    for (l, r, s, n) in rows:
        out.extend([(l, r, s)] * n)
    return out


def quads(rows):
    return '(expand [' + '; '.join('(%d,%d,%#x,%d)' % tuple(r) for r in rows) + '])'


SEED_CONSTS = ('zero', 'one', 'small', 'top-bit', 'all-ones', 'full-width')


def seed_const(rng, kind, label):
    w = {'lfsr': 127, 'xoro': 128, 'triv': 160}[kind]
    return {'zero': 0, 'one': 1, 'small': rng.randint(2, 255), 'top-bit': 1 << (w - 1), 'all-ones': (1 << w) - 1,
            'full-width': rng.getrandbits(w) | (1 << (w - 1))}[label]


def prng_configs(ctx):
    cfgs = []
    quick = ctx.tier == 'quick'
    for bw in BITWIDTHS:
        for style in ('protocol', 'random'):
            for rep in range(1 if quick else 3):
                cfgs.append(('lfsr', bw, None, style, rep))
                cfgs.append(('xoro', bw, None, style, rep))
    for bw in BITWIDTHS:
        for bpc in BPCS:
            for style in ('protocol', 'random'):
                if quick:
                    keep = (bpc == 64 or (bw == 128 and style == 'protocol') or
                            (style == 'protocol' and (bw, bpc) in ((7, 1), (65, 8), (200, 16), (129, 32), (63, 4), (1, 2))) or
                            (style == 'random' and (bw, bpc) in ((256, 4), (65, 16), (127, 32), (200, 8))))
                    if not keep:
                        continue
                for rep in range(1 if (quick or bpc < 8) else 2):
                    cfgs.append(('triv', bw, bpc, style, rep))
    # the seed given as a Python int constant (call form `seed=<int>`): 0, 1, small, top bit, all ones, full width
    for kind, bws, bpcs in (('lfsr', (64, 200), (None,)), ('xoro', (65, 128), (None,)), ('triv', (128, 7), (64, 8))):
        for label in SEED_CONSTS:
            for k, bw in enumerate(bws if not quick else bws[:1]):
                for bpc in (bpcs if not quick else bpcs[:1]):
                    cfgs.append((kind, bw, bpc, 'const:' + label, 0))
    # long-idle protocol histories (idle lengths derived from the counter widths of the built design)
    for bw in ((7, 128) if quick else BITWIDTHS):
        cfgs.append(('lfsr', bw, None, 'idle', 0))
    for bw in ((1, 65, 200, 256) if quick else BITWIDTHS):
        cfgs.append(('xoro', bw, None, 'idle', 0))
    if quick:
        tv = [(128, 64), (65, 32), (7, 16), (200, 8)]
    else:
        tv = [(bw, bpc) for bpc in BPCS for bw in ((128, 7, 65, 200) if bpc >= 4 else (7, 129))]
    for bw, bpc in tv:
        cfgs.append(('triv', bw, bpc, 'idle', 0))
    return cfgs


def check_prngs(ctx):
    # rejected parameters
    for bad in (3, 17, 5, 48):
        pyrtl.reset_working_block()
        try:
            prngs.csprng_trivium(8, pyrtl.Input(1, 'load'), pyrtl.Input(1, 'req'), pyrtl.Input(160, 'seed'), bits_per_cycle=bad)
            ctx.spec_violation('trivium:bits_per_cycle-accepted', 'csprng_trivium accepted bits_per_cycle=%d (documented: a power of two <= 64)' % bad,
                               {'bits_per_cycle': bad})
        except pyrtl.PyrtlError:
            ctx.count('rejected-bits_per_cycle', bad)
        ctx.case(('triv-reject', bad), nontrivial=True)
    cases = []
    # the suite's Trivium vectors through the documented protocol
    vec_rows = []
    for s, _ in TRIVIUM_VECTORS:
        vec_rows += [(1, 0, s, 1), (0, 0, 0, 19), (0, 1, 0, 1), (0, 0, 0, 2)]
    cases.append((('triv', 128, 64, 'suite-vectors', 0), vec_rows + [(0, 0, 0, 1)]))
    for cfg in prng_configs(ctx):
        kind, bw, bpc, style, rep = cfg
        rng = ctx.sub_rng('prng', *cfg)
        if style.startswith('const:'):
            c = seed_const(rng, kind, style[6:])
            rle = [(l, r, c, n) for (l, r, _, n) in prng_schedule(rng, kind, bw, bpc, 'protocol')]
            cases.append((cfg, rle))
        else:
            cases.append((cfg, None if style == 'idle' else prng_schedule(rng, kind, bw, bpc, style)))
    exprs_m, exprs_s = [], {}
    # C18_prng_protocol proves model run = protocol-spec run for EVERY schedule, so in the quick tier the Coq
    # spec is evaluated on a sample only; the exact per-cycle search uses the Python references on all cases
    exprs_g = {}        # case index -> expression over the step functions REGENERATED from prngs.py
    impl = []
    for ci, (cfg, rle) in enumerate(cases):
        kind, bw, bpc, style, rep = cfg
        const = rle[0][2] if style.startswith('const:') else None
        blk = build_prng(kind, bw, bpc, fast=None, const_seed=const)
        ctx.count('prng-seed-form', 'python-int' if const is not None else 'wirevector')
        if rle is None:
            span = counter_span(blk)
            ctx.count('prng-idle-counter-span', '%s:%s' % (kind, span))
            rle = prng_idle_schedule(ctx.sub_rng('prng', *cfg), kind, bw, bpc, span)
            cases[ci] = (cfg, rle)
        rows = expand(rle)
        sim = make_prng_sim(blk, len(rows) > 600)
        ctx.count('prng-simulator', 'FastSimulation' if len(rows) > 600 else 'Simulation')
        ref = {'lfsr': lambda: RefLfsr(bw), 'xoro': lambda: RefXoroshiro(bw), 'triv': lambda: RefTrivium(bw, bpc)}[kind]()
        tr, rf = [], []
        for (l, r, s) in rows:
            sim.step({'load': l, 'req': r, 'seed': s} if const is None else {'load': l, 'req': r})
            got = [sim.tracer.trace['ready'][-1], sim.tracer.trace['rand'][-1]]
            want = ref.cycle(l, r, s)
            if kind == 'lfsr':
                tr.append(got[1])
                rf.append(want)
            else:
                tr.append(got)
                rf.append(list(want))
        impl.append((tr, rf))
        if style in ('idle', 'suite-vectors') or style.startswith('const:') or (ctx.tier != 'quick' and style == 'protocol') or (style == 'protocol' and (kind, bw) in (('lfsr', 129), ('lfsr', 256), ('xoro', 63), ('xoro', 129), ('triv', 200))):
            exprs_g[ci] = {'lfsr': 'g_lfsr_sum %d %s' % (bw, quads(rle)), 'xoro': 'g_xo_sum %d %s' % (bw, quads(rle)),
                           'triv': 'g_tv_sum %d %d %s' % (bw, bpc or 0, quads(rle))}[kind]
        if kind == 'lfsr':
            exprs_m.append('lfsr_sum %d %s' % (bw, quads(rle)))
            spec_expr = 's_lfsr_sum %d %s' % (bw, quads(rle))
        elif kind == 'xoro':
            exprs_m.append('xo_sum %d %s' % (bw, quads(rle)))
            spec_expr = 's_xo_sum %d %s' % (bw, quads(rle))
        else:
            exprs_m.append('tv_sum %d %d %s' % (bw, bpc, quads(rle)))
            spec_expr = 's_tv_sum %d %d %s' % (bw, bpc, quads(rle))
        if ctx.tier != 'quick' or style in ('idle', 'suite-vectors') or style.startswith('const:') or ci % 5 == 0:
            exprs_s[ci] = spec_expr
    res_m = ctx.coq_eval(exprs_m, IMPORTS, tag=_T + 'prngm', shard=6, jobs=12)
    skeys = sorted(exprs_s)
    res_sd = dict(zip(skeys, ctx.coq_eval([exprs_s[k] for k in skeys], IMPORTS, tag=_T + 'prngs', shard=6, jobs=12)))
    res_s = [res_sd.get(i) for i in range(len(cases))]
    ctx.count('prng-coq-spec-runs', 'evaluated', len(skeys))
    gkeys = sorted(exprs_g)
    try:
        res_g = dict(zip(gkeys, ctx.coq_eval([exprs_g[k] for k in gkeys], IMPORTS_GEN, tag=_T + 'prngg', shard=6, jobs=12)))
    except Exception as e:  # Gen/PrngFrag.v untranslatable or no longer type-checks
        res_g = {}
        ctx.model_mismatch('the step functions regenerated from prngs.py (Gen/PrngFrag.v) cannot be evaluated: %s' % str(e)[-500:], {})
    ctx.count('prng-regenerated-step-runs', 'evaluated', len(res_g))
    for ci, ((cfg, rle), (tr, rf), rm, rs) in enumerate(zip(cases, impl, res_m, res_s)):
        kind, bw, bpc, style, rep = cfg
        rows = expand(rle)
        nready = sum(1 for x in tr if kind != 'lfsr' and x[0]) if kind != 'lfsr' else sum(1 for r in rows if r[1])
        ctx.case((cfg, tuple(map(tuple, rows[:50]))), nontrivial=nready > 0,
                 sample={'generator': kind, 'bitwidth': bw, 'bits_per_cycle': bpc, 'schedule': style, 'cycles': len(rows),
                         'ready_pulses': nready} if len(cases) and cfg[1] in (65,) and rep == 0 and style == 'protocol' else None)
        ctx.count('prng', kind)
        ctx.count('prng-bitwidth', bw)
        if bpc:
            ctx.count('trivium-bits_per_cycle', bpc)
        ctx.count('prng-schedule', style)
        ctx.count('prng-cycles', kind, len(rows))
        ctx.count('prng-ready-pulses', kind, nready)
        rep_d = {'generator': kind, 'bitwidth': bw, 'bits_per_cycle': bpc, 'schedule_style': style, 'seed': ctx.seed,
                 'rows_rle(load,req,seed,count)': [[a, b, hex(c), n] for a, b, c, n in rle]}
        as_pairs = (lambda l: [(0, v) for v in l]) if kind == 'lfsr' else (lambda l: [tuple(x) for x in l])
        sum_impl, sum_ref = summary(as_pairs(tr)), summary(as_pairs(rf))
        if rs is not None and rs != sum_ref:
            ctx.model_mismatch('Lib/PrngSpec.v and the Python reference disagree on %s' % (cfg,), rep_d)
        if tr != rf:
            t = [a != b for a, b in zip(tr, rf)].index(True)
            what = 'rand'
            if kind != 'lfsr' and tr[t][0] != rf[t][0]:
                what = 'ready'
            ctx.spec_violation('prng:%s:%s' % (kind, what), '%s(bitwidth=%d%s): %s at cycle %d is %s, the published algorithm/protocol gives %s' % (
                kind, bw, '' if bpc is None else ', bits_per_cycle=%d' % bpc, what, t, tr[t], rf[t]), dict(rep_d, cycle=t))
        elif rs is not None and sum_impl != rs:
            ctx.spec_violation('prng:%s:coq-spec' % kind, '%s(bitwidth=%d%s): trace summary differs from Lib/PrngSpec.v' % (
                kind, bw, '' if bpc is None else ', bits_per_cycle=%d' % bpc), dict(rep_d, spec=rs, implementation=sum_impl))
        if ci in res_g and sum_impl != res_g[ci]:
            ctx.model_mismatch('%s circuit and the step function REGENERATED from prngs.py (Gen/PrngFrag.v) disagree (%s): '
                               'the translator py/genfrag_C18prng.py mis-reads the source' % (kind, cfg),
                               dict(rep_d, regenerated=res_g[ci], implementation=sum_impl))
        if sum_impl != rm:
            ctx.model_mismatch('%s circuit and Lib/PrngModel.v disagree (%s) (trace summary: [digest, cycles, last], '
                               'ready rising edges [cycle, rand])' % (kind, cfg), dict(rep_d, model=rm, implementation=sum_impl))
        if style == 'suite-vectors':
            for vi, (s, want) in enumerate(TRIVIUM_VECTORS):
                t = 23 * vi + 22
                if tr[t] != [1, want]:
                    ctx.spec_violation('prng:triv:vector', 'Trivium vector %d: got %s expected ready with %#x' % (vi, tr[t], want), rep_d)


def ensure_harness_targets():
    """the proof-free files the search evaluates must exist even when a proof (or the regenerated
    Gen/PrngFrag.v) no longer builds: make them on their own, dependency-exact, under the build lock"""
    import runner
    for t in COQ_TARGETS:
        vo = os.path.join(runner.COQ, t)
        v = vo[:-1]
        if os.path.exists(vo) and os.path.getmtime(vo) >= os.path.getmtime(v):
            continue                      # already built by the runner's own make
        try:
            runner.build([t])
        except Exception:
            pass


def run(ctx):
    import time
    ensure_harness_targets()
    for name, f in (('tables', lambda: check_tables(ctx)), ('aes-enc-design', lambda: check_aes_enc_design(ctx)),
                    ('aes-dec-design', lambda: check_aes_dec_design(ctx)),
                    ('prngs', lambda: check_prngs(ctx))):
        t0 = time.time()
        f()
        ctx.count('wall_seconds', name, round(time.time() - t0, 1))


def replay(ctx, data):
    print(data)
    run(ctx)
