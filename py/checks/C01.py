"""C01: pyrtl.Simulation vs the Coq model of Simulation (tie) and vs the
reference semantics Sem.v (search), every wire on every cycle + final memory.

Tie: T -- Gen/SimOps.v (simple_func) and Gen/SimExec.v (_sanitize / WireVector.bitmask, the 'c' and 's'
loops and the 'm' lookup of _execute, _mem_update, the register capture; shape of _execute's dispatch, order
of the phases of step, the three net lists of _initialize) are regenerated from the current source by
py/gen_coq.py + py/genfrag_C01.py on every run and Sim/SimModel.v is built from them; B -- the remaining
plumbing of the model (input application, dict/set machinery) is compared with the implementation on every case below.

Two streams of cases, both compared with the model (tie) and with Sem.v (search):
  random  seeded random API-built designs (gen_designs);
  sweep   one fixed micro design per operand width (quick: 1..40, the 64/128 boundaries and 16 seeded others up to 136;
          thorough: every width 1..136) exercising every regenerated fragment at that
          width (concat in both orders, reversed / repeated / msb select, masked ~ - + *, register capture,
          enabled memory write and read back), so that a change of one fragment at ONE width -- which the
          proof reports but random designs can miss -- is turned into a concrete failing input."""
import pyrtl
import gen_designs
import nlx

RULE = ('random API-built designs (all 16 primitive ops, widths 1..130, registers with/without '
        'reset, multi-port memories, ROMs) x initial states x input sequences, plus one micro design per '
        'operand width (quick: 1..40, 63-65, 127-130 and 16 seeded others <= 136; thorough: all 1..136) exercising concat/select/mask/register/memory at that width, plus directed designs decorated with raw '
        'Block.add_net nets whose destination is narrower than the natural result (every op, and registers narrower than '
        'their next-input), driven wires nobody reads, rtl_asserts that fire and are caught while stepping goes on, and a '
        'tracer that records only some wires (the others read through inspect); every wire on every '
        'cycle compared, through SimulationTrace.trace and through Simulation.inspect; a case is distinct by (design,stimulus) hash and non-trivial when at least '
        'half of its non-constant wires took two or more values during the run')
SWEEP_MAX = 136
SWEEP_ALWAYS = list(range(1, 41)) + [63, 64, 65, 127, 128, 129, 130]   # quick tier: these + 16 seeded others


def sweep_widths(ctx):
    if ctx.tier != 'quick':
        return list(range(1, SWEEP_MAX + 1))
    rest = [w for w in range(1, SWEEP_MAX + 1) if w not in SWEEP_ALWAYS]
    return sorted(SWEEP_ALWAYS + ctx.sub_rng('sweep-widths').sample(rest, 16))
IMPORTS_SPEC = 'From PyRTL Require Import Netlist.Sem Netlist.WFDefs Netlist.SpecHarness.'
IMPORTS_MODEL = 'From PyRTL Require Import Sim.SimModel Sim.Harness.'
COQ_TARGETS = ['theories/Netlist/SpecHarness.vo', 'theories/Sim/Harness.vo']
TRUSTED = []
ASSUMPTIONS = ['ROM contents are tabulated at dump time (RomBlock._get_read_data evaluated per address)',
               'initial register/memory values and default_value are within range (legal_init)']


def simulate(d, regmap, memmap, inputs, dflt, track=None, reject_rng=None):
    """every wire on every cycle, read both ways the property names: SimulationTrace.trace for the traced wires
    and Simulation.inspect for all of them (track=None: wires_to_track='all'; else only the listed wires are
    traced and the others are seen through inspect alone).  A firing rtl_assert added by gen_designs.decorate
    is caught and stepping goes on: the cycle it fired in still happened."""
    block = d.block
    if track == 'none':      # the documented tracer=None: nothing recorded, everything read through inspect
        tracer = None
    else:
        tracer = pyrtl.SimulationTrace(wires_to_track='all' if track is None else list(track), block=block)
    sim = pyrtl.Simulation(tracer=tracer, register_value_map=dict(regmap),
                           memory_value_map={m: dict(c) for m, c in memmap.items()},
                           default_value=dflt, block=block)
    seen, fired = [], 0
    for t, step in enumerate(inputs):
        if reject_rng is not None and t >= 1 and reject_rng.random() < 0.4:
            # a refused call between two cycles is not a cycle: every wire must still show the last cycle's value
            bad = {k: reject_rng.getrandbits(len(block.wirevector_by_name[k])) for k in step}
            victim = reject_rng.choice(sorted(bad))
            kind = reject_rng.choice(['missing', 'too-big', 'negative']) if len(bad) > 1 else 'too-big'
            if kind == 'missing':
                del bad[victim]
            elif kind == 'too-big':
                bad[victim] = 1 << len(block.wirevector_by_name[victim])
            else:
                bad[victim] = -1
            try:
                sim.step(bad)
                return sim, tracer, seen, fired, 'illegal step (%s) accepted' % kind   # C15's business, not C01's
            except pyrtl.PyrtlError:
                now = {w.name: sim.inspect(w.name) for w in block.wirevector_set}
                if now != seen[-1]:
                    diff = sorted(k for k in now if now[k] != seen[-1][k])[:4]
                    return sim, tracer, seen, fired, ('after a refused step(%s: %r) between cycles %d and %d, inspect shows '
                                                      'values no cycle had on %s' % (kind, bad, t - 1, t, diff))
        try:
            sim.step(dict(step))
        except gen_designs.AssertFired:
            fired += 1
        seen.append({w.name: sim.inspect(w.name) for w in block.wirevector_set})
    return sim, tracer, seen, fired, None


def driver_op(block, wname):
    for n in block.logic:
        if n.dests and n.dests[0].name == wname:
            return n.op
    return '?'


def sweep_design(w):
    """fixed micro design, built through the public API, with every operand-width dependent fragment of
    Simulation at width w"""
    pyrtl.reset_working_block()
    block = pyrtl.working_block()
    d = gen_designs.Design(block)
    a, b, en = pyrtl.Input(w, 'a'), pyrtl.Input(3, 'b'), pyrtl.Input(1, 'en')
    d.inputs = [a, b, en]

    def out(x, name, width=None):
        o = pyrtl.Output(len(x) if width is None else width, name)
        o <<= x
        d.outputs.append(o)
    out(pyrtl.concat(b, a), 'c_ba')
    out(pyrtl.concat(a, b, a), 'c_aba')
    out(a[::-1], 's_rev')
    out(a[w - 1], 's_msb')
    out(pyrtl.concat_list([a[w - 1], a[0], a[w // 2], a[0]]), 's_pick')
    out(~a, 'not_a')
    out(a.nand(b), 'nand_ab')
    out(a - b, 'sub_ab')
    out(a - b, 'sub_trunc', width=w)
    out(a + a, 'add_trunc', width=w)
    out(a * b, 'mul_ab')
    out(pyrtl.select(en, a, ~a), 'mux')
    r = pyrtl.Register(w, 'r')
    r.next <<= (r ^ a) + 1
    d.regs = [r]
    out(r, 'r_out')
    mem = pyrtl.MemBlock(bitwidth=w, addrwidth=2, name='m', asynchronous=True)
    mem[b[0:2]] <<= pyrtl.MemBlock.EnabledWrite(a, en)
    out(mem[b[1:3]], 'rd')
    d.mems = [mem]
    d.ops = [n.op for n in block.logic]
    return d


def sweep_case(ctx, w):
    rng = ctx.sub_rng('sweep', w)
    d = sweep_design(w)
    top = (1 << w) - 1
    avals = [top, rng.getrandbits(w), (top // 3) | (1 << (w - 1)), 0, rng.getrandbits(w) | 1, top >> 1]
    if ctx.tier == 'quick':
        avals = avals[:3]
    inputs = [{'a': av, 'b': rng.getrandbits(3), 'en': (1, 0, 1, 1, 0, 1)[t]} for t, av in enumerate(avals)]
    regmap = {d.regs[0]: rng.getrandbits(w)} if w % 2 else {}
    memmap = {d.mems[0]: {1: top}} if w % 3 == 0 else {}
    return d, regmap, memmap, inputs, (1 if w % 5 == 0 else 0)


def build_case(ctx, i, wide_prob):
    rng = ctx.sub_rng('design', i)
    d = gen_designs.make_design(rng, wide_prob=wide_prob, sparse_rom_prob=0.5)
    ncycles = rng.randint(2, 8 if ctx.tier == 'quick' else 20)
    dflt = 0 if rng.random() < 0.8 else 1
    regmap, memmap, inputs = gen_designs.make_stimulus(rng, d, ncycles)
    return d, regmap, memmap, inputs, dflt


def directed_case(ctx, i):
    """random design decorated with raw narrowing nets, dangling wires and rtl_asserts; only part of the wires traced"""
    rng = ctx.sub_rng('directed', i)
    d = gen_designs.make_design(rng, wide_prob=0.1, n_ops=rng.randint(3, 10))
    gen_designs.decorate(rng, d, n_raw=rng.randint(2, 5), n_dangling=rng.randint(0, 2), n_assert=rng.choice([0, 1, 1]))
    regmap, memmap, inputs = gen_designs.make_stimulus(rng, d, rng.randint(3, 8))
    named = sorted(w.name for w in d.block.wirevector_set if not isinstance(w, pyrtl.Const))
    keep = set(w.name for w in d.dangling if rng.random() < 0.3)
    track = [d.block.wirevector_by_name[nm] for nm in named
             if (nm in keep or rng.random() < 0.5) and not (nm.startswith(('dangle', 'raw')) and nm not in keep)]
    if not track:
        track = [d.inputs[0]]
    if i % 4 == 3:
        track = 'none'
    if i % 3 == 1:
        # the simulated block is not the one the API calls built but a copy_block() copy of it
        d2 = gen_designs.rebind(d, pyrtl.copy_block(d.block))
        regmap = {d2.remap_reg[r]: v for r, v in regmap.items()}
        memmap = {d2.remap_mem[m]: c for m, c in memmap.items() if m in d2.remap_mem}
        if track != 'none':
            track = [d2.block.wirevector_by_name[w.name] for w in track if w.name in d2.block.wirevector_by_name]
            track = track or [d2.inputs[0]]
        d = d2
    if i % 5 == 2:
        # Python bools are legal values wherever an int 0/1 is (numbers.Integral)
        tb = {0: False, 1: True}
        inputs = [{k: tb.get(v, v) if rng.random() < 0.7 else v for k, v in st.items()} for st in inputs]
        regmap = {r: tb.get(v, v) for r, v in regmap.items()}
    return d, regmap, memmap, inputs, 0, track


def run(ctx):
    n = 150 if ctx.tier == 'quick' else 2500
    ndir = 60 if ctx.tier == 'quick' else 1000
    cases = []
    exprs = []
    todo = ([('sweep', w) for w in sweep_widths(ctx)] + [('random', i) for i in range(n)]
            + [('directed', i) for i in range(ndir)])
    ctx.sub_rng('order').shuffle(todo)      # spreads the wide (slow to evaluate) cases over the shards
    for stream, i in todo:
        track = None
        if stream == 'sweep':
            d, regmap, memmap, inputs, dflt = sweep_case(ctx, i)
            ctx.count('stream', 'sweep')
            i = 'w%d' % i
        elif stream == 'directed':
            d, regmap, memmap, inputs, dflt, track = directed_case(ctx, i)
            ctx.count('stream', 'directed')
            i = 'd%d' % i
        else:
            wide = 0.1 if i % 3 else 0.4
            d, regmap, memmap, inputs, dflt = build_case(ctx, i, wide)
            ctx.count('stream', 'random')
        try:
            rrng = ctx.sub_rng('reject', i) if (stream == 'directed' and d.inputs) else None
            sim, tracer, seen, fired, refused = simulate(d, regmap, memmap, inputs, dflt, track, rrng)
            if refused and 'accepted' in refused:
                ctx.count('illegal-step-accepted', 1)
                continue
            if refused:
                ctx.spec_violation('refused-step-leaves-state', 'design %s: %s' % (i, refused),
                                   {'seed': ctx.seed, 'design': i, 'nets': [str(nn) for nn in d.block.logic],
                                    'inputs': inputs})
                continue
        except pyrtl.PyrtlError as e:
            ctx.spec_violation('api-built-design-rejected', 'Simulation rejected an API-built design: %s' % e,
                               {'seed': ctx.seed, 'design': i})
            continue
        except Exception as e:    # not even a PyRTL error: the simulator crashed on a well-formed design
            ctx.spec_violation('simulation-crashed:%s' % type(e).__name__,
                               'Simulation (tracer=%s) crashed on a well-formed design: %r' % (
                                   'None' if track == 'none' else 'all' if track is None else 'partial', e),
                               {'seed': ctx.seed, 'design': i, 'nets': [str(nn) for nn in d.block.logic],
                                'inputs': inputs})
            continue
        order = list(sim.ordered_nets)
        if set(order) != set(d.block.logic) or len(order) != len(d.block.logic):
            # the simulator does not evaluate exactly the block's nets: the reference semantics is still
            # evaluated on ALL of them (in a dependency order computed here, not by the simulator)
            ctx.model_mismatch('Simulation.ordered_nets is not a permutation of block.logic on design %s' % i,
                               {'seed': ctx.seed, 'design': i})
            order = list(d.block)
        dump = nlx.Dump(d.block, net_order=order)
        probes = [(m.id, a) for m in d.mems for a in range(1 << m.addrwidth)]
        expr = '%s %d %s %s %s %s' % (
            dump.coq(), dflt, dump.regmap(regmap), dump.memmap(memmap), dump.inputs(inputs),
            nlx.pairs(probes))
        names = dump.names()
        # position of each wire's driver in the simulator's order: the first difference reported is the
        # earliest one in dependency order, so the signature names the op that computed a wrong value
        rank = {nn.dests[0].name: k for k, nn in enumerate(order) if nn.dests}
        by_dep = sorted(range(len(names)), key=lambda k: rank.get(names[k], -1))
        traced = set(tracer.trace) if tracer is not None else set()
        ctx.count('tracer', 'None' if tracer is None else ('all' if track is None else 'partial'))
        impl_trace = [[tracer.trace[nm][t] if nm in traced else seen[t][nm] for nm in names]
                      for t in range(len(inputs))]
        ctx.count('asserts-fired', fired)
        ctx.count('untraced-wires', len(names) - len(traced))
        for t in range(len(inputs)):
            diff = [nm for nm in names if nm in traced and
                    (len(tracer.trace[nm]) != len(inputs) or tracer.trace[nm][t] != seen[t][nm])]
            if diff:
                ctx.spec_violation('trace-vs-inspect', 'SimulationTrace.trace and Simulation.inspect disagree on %s '
                                   'at cycle %d of design %s' % (diff[:3], t, i), {'seed': ctx.seed, 'design': i})
                break
        impl_mem = [sim.memvalue[mid].get(a, dflt) for (mid, a) in probes]
        varying = sum(1 for k, nm in enumerate(names)
                      if len({row[k] for row in impl_trace}) > 1)
        nonconst = sum(1 for w in dump.wires if not isinstance(w, pyrtl.Const))
        cases.append(dict(i=i, names=names, by_dep=by_dep, impl_trace=impl_trace, impl_mem=impl_mem, ncyc=len(inputs),
                          nontrivial=(2 * varying >= nonconst), block=d.block, ops=list(d.ops),
                          widths=[w.bitwidth for w in dump.wires], inputs=inputs,
                          regmap={r.name: v for r, v in regmap.items()},
                          memmap={m.name: c for m, c in memmap.items()}, dflt=dflt,
                          nregs=len(d.regs), nmems=len(d.mems), nroms=len(d.roms)))
        exprs.append(expr)
        for o in d.ops:
            ctx.count('ops', o)
        for w in dump.wires:
            ctx.count('widths', w.bitwidth if w.bitwidth <= 8 else ('9-64' if w.bitwidth <= 64 else '65+'))
        ctx.count('registers', len(d.regs))
        ctx.count('memories', len(d.mems) + len(d.roms))
        ctx.count('cycles', len(inputs))
    shard = 10 if ctx.tier == 'quick' else 40
    # the oracle and the model are evaluated side by side (independent coqc processes)
    import concurrent.futures
    with concurrent.futures.ThreadPoolExecutor(max_workers=2) as ex:
        f_spec = ex.submit(ctx.coq_eval, ['spec_case ' + e for e in exprs], IMPORTS_SPEC,
                           tag='c01spec', shard=shard, jobs=7)
        f_model = ex.submit(ctx.coq_eval, ['simmodel_case ' + e for e in exprs], IMPORTS_MODEL,
                            tag='c01model', shard=shard, jobs=7)
        spec_results = f_spec.result()
        try:
            model_results = f_model.result()
        except Exception as e:  # the model no longer builds (e.g. a generated fragment changed shape)
            model_results = None
            ctx.model_mismatch('Sim/SimModel.v could not be evaluated: %s' % str(e)[-600:], {})
    for ci, (c, res) in enumerate(zip(cases, spec_results)):
        wf = res[0][0]
        mem_spec = res[1]
        spec_trace = res[2:]
        if model_results is not None:
            mem_model, model_trace = model_results[ci][0], model_results[ci][1:]
        else:
            mem_model, model_trace = c['impl_mem'], c['impl_trace']
        key = (c['i'], tuple(map(tuple, c['impl_trace'])))
        sample = None
        if c['i'] in (0, 1, 'w37'):
            sample = {'design': c['i'], 'nets': [str(nn) for nn in list(c['block'].logic)[:8]],
                      'inputs': c['inputs'][:2], 'trace_row0': dict(zip(c['names'][:8], c['impl_trace'][0][:8]))}
        ctx.case(key, nontrivial=c['nontrivial'], sample=sample)
        rep = {'seed': ctx.seed, 'design': c['i'], 'tier': ctx.tier,
               'nets': [str(nn) for nn in c['block'].logic], 'inputs': c['inputs'],
               'regmap': c['regmap'], 'memmap': c['memmap'], 'default_value': c['dflt']}
        if wf != 1:
            ctx.model_mismatch('wfb is false on an API-built design accepted by Simulation', rep)
        # search: implementation vs reference semantics
        bad = None
        for t in range(c['ncyc']):
            for k in c['by_dep']:
                nm = c['names'][k]
                if c['impl_trace'][t][k] != spec_trace[t][k]:
                    bad = (t, nm, spec_trace[t][k], c['impl_trace'][t][k])
                    break
                v = c['impl_trace'][t][k]
                if not (0 <= v < (1 << c['widths'][k])):
                    bad = (t, nm, 'in [0,2^%d)' % c['widths'][k], v)
                    break
            if bad:
                break
        if bad is None and c['impl_mem'] != mem_spec:
            bad = ('final', 'memory', mem_spec, c['impl_mem'])
        if bad:
            op = driver_op(c['block'], bad[1]) if bad[1] != 'memory' else '@'
            rep2 = dict(rep, first_difference={'cycle': bad[0], 'wire': bad[1], 'expected': bad[2], 'got': bad[3]})
            ctx.spec_violation('sim-vs-spec:op=%s' % op,
                               'Simulation disagrees with documented semantics at op %r (cycle %s wire %s: expected %s got %s)' % (
                                   op, bad[0], bad[1], bad[2], bad[3]), rep2)
        # tie: implementation vs model of Simulation
        if c['impl_trace'] != model_trace or c['impl_mem'] != mem_model:
            ctx.model_mismatch('pyrtl.Simulation and Sim/SimModel.v disagree on design %s' % c['i'], rep)


def replay(ctx, data):
    print(data)
    run(ctx)
