"""C15: all observation channels of a simulation agree; illegal inputs are refused.

For random API-built designs x input sequences x {Simulation, FastSimulation,
CompiledSimulation}:
  A  inspect(w) == trace[w][-1] and len(trace) == number of steps, after every step;
  B  step_multiple on a twin instance vs stepping one call at a time: same trace, and the
     report written to `file=` lists exactly the mismatching expected outputs (random
     expected maps with wrong entries and '?'), incl. nsteps inference, the five prologue
     errors, stop_after_first_error, and a rejected input in the middle;
  C  print_vcd / print_trace text parsed back (Coq decoders of IO/Vcd.v through
     ctx.coq_eval AND an independent Python parser) == tracer.trace; the Coq encoders
     reproduce the text byte for byte;
  D  out-of-range inputs {-1, -2^w, 2^w, 2^w+1, 2^(64k)} raise PyrtlError in all three
     simulators, do not advance the trace and leave inspect == last trace entry; the
     translated guards (Gen/InputGuards.v) predict accept/reject;
  E  rtl_assert designs under Simulation and FastSimulation: the registered exception is
     raised at the first cycle the wire is 0 and not before;
  T14 the three copies of step_multiple normalise to one AST (and to the frozen text the
     Coq model was written against).
  T   translator: Gen/InputGuards.v (the three guards) and Gen/StepOrder.v (the event order of one
     step() of each simulator) are regenerated from the current source on every run.
impl vs specification -> viol(ctx, channel-specific signature);
impl vs Coq model    -> ctx.model_mismatch."""
import hashlib
import io
import os
import re
import pyrtl
import gen_designs
import genfrag_C15

RULE = ('random API-built designs (gen_designs: all primitive ops, widths 1..130, registers, memories, '
        'ROMs) plus 0-3 extra outputs with names that need sanitising / natural sorting, x 2-8 cycle '
        'input sequences x the three simulators; per (design, simulator): every step of the stepwise '
        'run (inspect vs trace), one step_multiple scenario on a twin (normal / nsteps given / 5 prologue '
        'errors / rejected input / stop_after_first_error, expected maps with ~25% wrong entries and ~20% '
        "'?'), 5 illegal values on a random Input, VCD (+/- clock) and print_trace in bases 2/8/10/16 "
        'padded + one compact; tracer = default / wires_to_track=\'all\' / an explicit partial list (inspect of '
        'untracked wires compared with a default-tracer twin; expected_outputs may name untracked wires); '
        'explicit lists that repeat wires (probe + all outputs, doubled list, random repeats); every stepping '
        'entry point (step, step_multiple with / without expected outputs / with nsteps, CompiledSimulation.run) '
        'on the history with an out-of-range value injected at a step k >= 1, followed by two legal steps, '
        'compared with step() once per cycle; step_multiple scenarios with 0-4 expected wires; '
        'I/O-shape designs (1-4 Inputs, 1-4 Outputs, widths 1..130, all traced; 64-bit word counts of the input '
        'and output records differ both ways): a legal multi-step table through CompiledSimulation.run (one call, '
        'two calls) / step_multiple / step and FastSimulation vs Simulation: trace, inspect, print_trace, print_vcd; '
        'assertion designs: 1-2 rtl_asserts going low at chosen cycles x 4 tracer configurations (default, all, '
        'explicit list without / with the assertion wires) x exception objects of 9 classes incl. PyrtlError, '
        'a PyrtlError subclass, PyrtlInternalError, IndexError. A case is '
        'distinct by (design hash, simulator, channel, scenario) and non-trivial when the trace has >= 2 '
        'cycles and at least one traced wire changes value')
IMPORTS = 'From Coq Require Import String.\nFrom PyRTL Require Import Base.PyZ Sim.TraceBase Sim.Trace IO.Vcd Gen.InputGuards Sim.TraceHarness.'
COQ_TARGETS = ['theories/Sim/TraceHarness.vo']
ASSUMPTIONS = [
    'the design itself is abstract in the Coq model (stepf); what a cycle computes is C01/C02, here only how it is observed',
    'print_trace(compact=True) concatenates digits without separators (documented: "omit spaces"), so it is '
    'decodable only when every value is a single digit; for other traces the text is compared with the '
    'concatenation itself, not decoded',
    'the VCD does not contain wire names, only sanitised identifiers: decoded values are related to '
    'tracer.trace through tracer.internal_names, which must be injective (checked)',
    'wire names are ASCII, non-empty, without newline; names containing spaces are decoded by the Python parser only',
    'CompiledSimulation traces only Inputs/Outputs (and probed wires); inspect is compared on traced wires',
    'rtl_assert is required of Simulation and FastSimulation only (property text)',
]
TRUSTED = [
    'Sim/TraceBase.v reject_spec (reject iff not 0 <= v < 2^w), render/parse (radix-b numerals, lower-case digits)',
    'the ORDER of the events of one step() (validate, compute, publish, commit, trace, check_rtl_assertions) is no '
    'longer hand-modelled: Gen/StepOrder.v is regenerated from Simulation.step / FastSimulation.step / '
    'CompiledSimulation.step+run and C15_step_order_simulation/_fast/_compiled prove the generated lists mean '
    'exactly sim_step; trusted instead: the fail-closed statement classification in py/genfrag_C15.py '
    '(_classify) and the meaning Sim/Trace.v exec_events gives to each event',
    'Sim/Trace.v: hand model of TraceStorage/add_step, of the step_multiple loop (frozen against the source text, '
    'gate T14) and of the report order; IO/Vcd.v: hand model of print_trace / print_vcd text layout',
    'py/checks/C15.py independent parsers of VCD / print_trace / step_multiple report and the natural sort key',
]

REPO = os.environ.get('PYRTL_REPO', '/repo')
COQ_TEXT_LIMIT = 12000     # longer texts are checked by the Python parser only (Coq term size)

SIMS = [('simulation', 'Simulation', 'guard_simulation'),
        ('fast', 'FastSimulation', 'guard_fast'),
        ('compiled', 'CompiledSimulation', 'guard_compiled')]

ODD_NAMES = ['out[3]', 'a.b', 'wire', 'module', 'x-y', '9lives', 'x10', 'x9', 'x2y10', 'x2y9',
             'a_very_long_wire_name_0', 'always', '$d', 'q$r', 'reg', 'A', 'a', 'o__1', 'sp ace', "t'", 'x01', 'x1', 'x001']

# Source of step_multiple (docstring stripped, ast.unparse) the hand model Sim/Trace.v was written against.
FROZEN_STEP_MULTIPLE = '''def step_multiple(self, provided_inputs={}, expected_outputs={}, nsteps=None, file=sys.stdout, stop_after_first_error=False):
    if not nsteps and len(provided_inputs) == 0:
        raise PyrtlError('need to supply either input values or a number of steps to simulate')
    if len(provided_inputs) > 0:
        longest = sorted(list(provided_inputs.items()), key=lambda t: len(t[1]), reverse=True)[0]
        msteps = len(longest[1])
        if nsteps:
            if nsteps > msteps:
                raise PyrtlError('nsteps is specified but is greater than the number of values supplied for each input')
        else:
            nsteps = msteps
    if nsteps < 1:
        raise PyrtlError('must simulate at least one step')
    if list(filter(lambda value: len(value) < nsteps, provided_inputs.values())):
        raise PyrtlError('must supply a value for each provided wire for each step of simulation')
    if list(filter(lambda value: len(value) < nsteps, expected_outputs.values())):
        raise PyrtlError('any expected outputs must have a supplied value each step of simulation')
    failed = []
    for i in range(nsteps):
        self.step({w: int(v[i]) for w, v in provided_inputs.items()})
        for expvar in expected_outputs.keys():
            expected = expected_outputs[expvar][i]
            if expected == '?':
                continue
            expected = int(expected)
            actual = self.inspect(expvar)
            if expected != actual:
                failed.append((i, expvar, expected, actual))
        if failed and stop_after_first_error:
            break
    if failed:
        if stop_after_first_error:
            s = '(stopped after step with first error):'
        else:
            s = 'on one or more steps:'
        file.write('Unexpected output ' + s + '\\n')
        file.write('{0:>5} {1:>10} {2:>8} {3:>8}\\n'.format('step', 'name', 'expected', 'actual'))

        def _sort_tuple(t):
            return (t[0], _trace_sort_key(t[1]))
        failed_sorted = sorted(failed, key=_sort_tuple)
        for step, name, expected, actual in failed_sorted:
            file.write('{0:>5} {1:>10} {2:>8} {3:>8}\\n'.format(step, name, expected, actual))
        file.flush()'''

ERR_PREFIX = [('need to supply either input values', 1), ('nsteps is specified but is greater', 2),
              ('must simulate at least one step', 3), ('must supply a value for each provided wire', 4),
              ('any expected outputs must have', 5)]


_SIG_COUNT = {}


def viol(ctx, sig, what, rep):
    """forward at most 2 instances per signature (the runner keeps the first 50 reports overall)"""
    _SIG_COUNT[sig] = _SIG_COUNT.get(sig, 0) + 1
    ctx.count('violations_by_signature', sig)
    if _SIG_COUNT[sig] <= 2:
        ctx.spec_violation(sig, what, rep)


# ------------------------------------------------------------------ Coq term printers
def zt(v):
    return str(v) if v >= 0 else '(%d)' % v


def zlist(vs):
    return '[%s]' % '; '.join(zt(v) for v in vs)


def txt(s):
    """Python str -> Coq text (list of character codes) through a string literal"""
    if any(ord(c) > 126 or (ord(c) < 32 and c != '\n') for c in s):
        return '[%s]' % '; '.join(str(ord(c)) for c in s)
    return '(codes "%s"%%string)' % s.replace('"', '""')


def lst(items):
    return '[%s]' % '; '.join(items)


def from_codes(cs):
    return ''.join(chr(c) for c in cs)


# ------------------------------------------------------------------ independent specifications
def natkey(s):
    """natural sort key written from the documentation of the behaviour (digit runs compare as
    numbers), independent of pyrtl.simulation._trace_sort_key"""
    out, cur, isnum = [], '', False
    for ch in s:
        d = '0' <= ch <= '9'
        if d != isnum:
            out.append(int(cur) if isnum else cur)
            cur, isnum = '', d
        cur += ch
    out.append(int(cur) if isnum else cur)
    if isnum:
        out.append('')
    return out


def fmt(v, base):
    """non-negative integer in radix base, lower-case digits"""
    digs = '0123456789abcdef'
    if v == 0:
        return '0'
    s = ''
    while v:
        s = digs[v % base] + s
        v //= base
    return s


def parse_vcd(text):
    """-> (decls [(id, width)], dumpvars [(id, val)], steps [(time, [(id, val)])], final time)"""
    lines = text.split('\n')
    decls, dump, steps = [], [], []
    i = 0
    while i < len(lines) and lines[i] != '$dumpvars':
        parts = lines[i].split(' ')
        if parts[0] == '$var':
            if len(parts) != 6 or parts[1] != 'wire' or parts[5] != '$end' or parts[3] != parts[4]:
                raise ValueError('malformed $var line %r' % lines[i])
            decls.append((parts[3], int(parts[2])))
        i += 1
    i += 1
    while i < len(lines) and lines[i] != '$end':
        bits, ident = lines[i].split(' ', 1)
        dump.append((ident, int(bits[1:], 2)))
        i += 1
    i += 1
    cur = None
    final = None
    while i < len(lines):
        ln = lines[i]
        if ln.startswith('#'):
            cur = (int(ln[1:]), [])
            steps.append(cur)
        elif ln.startswith('b'):
            bits, ident = ln.split(' ', 1)
            cur[1].append((ident, int(bits[1:], 2)))
        elif ln != '':
            raise ValueError('unexpected VCD line %r' % ln)
        i += 1
    return decls, dump, steps


def parse_trace_lines(text, base, compact, name_field):
    """Independent parser using the name-field width (ident_len + 1 or ident_len) read from the
    header / first column: -> [(name, [values])]"""
    lines = text.split('\n')
    if lines[-1] != '':
        raise ValueError('text does not end with a newline')
    lines = lines[:-1]
    rows = []
    if not compact:
        m = re.match(r'^( *)--- Values in base (\d+) ---$', lines[0])
        if not m or int(m.group(2)) != base:
            raise ValueError('bad header %r' % lines[0])
        lines = lines[1:]
    for ln in lines:
        if compact:
            nm = ln[:name_field].lstrip(' ')
            if ln[name_field:name_field + 1] != ' ':
                raise ValueError('no separator after the name field in %r' % ln)
            rows.append((nm, ln[name_field + 1:]))
        else:
            nm = ln[:name_field].rstrip(' ')
            rest = ln[name_field:]
            rows.append((nm, [int(t, base) for t in rest.split(' ') if t != '']))
    return rows


def parse_report(text):
    """-> (header line, [(step, name, expected, actual)])"""
    lines = text.split('\n')
    if lines[-1] != '':
        raise ValueError('report does not end with newline')
    lines = lines[:-1]
    rows = []
    for ln in lines[2:]:
        left, e, a = ln.rsplit(None, 2)
        st, nm = left.lstrip(' ').split(' ', 1)
        rows.append((int(st), nm.lstrip(' '), int(e), int(a)))
    return lines[0], lines[1], rows


# ------------------------------------------------------------------ designs
class Case(object):
    pass


def build(ctx, i):
    rng = ctx.sub_rng('design', i)
    wide = 0.3 if i % 3 == 0 else 0.06
    d = gen_designs.make_design(rng, wide_prob=wide)
    srcs = d.inputs + d.regs
    odd = rng.sample(ODD_NAMES, rng.choice([0, 1, 2, 3]))
    for nm in odd:
        w = rng.choice(srcs)
        o = pyrtl.Output(len(w), nm)
        o <<= w
        d.outputs.append(o)
    c = Case()
    c.i, c.d, c.block = i, d, d.block
    c.ncyc = rng.randint(2, 8 if ctx.tier == 'quick' else 14)
    c.regmap, c.memmap, c.inputs = gen_designs.make_stimulus(rng, d, c.ncyc)
    r = rng.random()
    c.track = 'all' if r < 0.2 else ('partial' if r < 0.42 else ('repeats' if r < 0.64 else 'named'))
    c.track_all = c.track == 'all'
    named = sorted((w.name for w in d.block.wirevector_set
                    if not isinstance(w, pyrtl.Const) and not w.name.startswith(('tmp', 'const_'))
                    and not w.name.endswith("'")))
    k = rng.randint(1, max(1, len(named) - 1))
    c.partial = sorted(set(rng.sample(named, k)) | {d.inputs[0].name})   # explicit wires_to_track list
    if c.track == 'repeats':
        # the caller's list names wires more than once ([probe] + all outputs, a wire listed twice in a row,
        # the whole list twice): the trace is keyed by name, so this is still one entry per wire and cycle
        outs = [w.name for w in d.outputs]
        style = rng.choice(['probe+outputs', 'doubled', 'random-repeats'])
        if style == 'probe+outputs':
            c.partial = [rng.choice(outs)] + outs + [d.inputs[0].name]
        elif style == 'doubled':
            c.partial = c.partial + c.partial
        else:
            c.partial = c.partial + [rng.choice(c.partial) for _ in range(rng.randint(1, 3))]
            rng.shuffle(c.partial)
    c.odd = odd
    return c


def make_sim(c, cls, track=None):
    track = track or getattr(c, 'track', 'all' if c.track_all else 'named')
    if track in ('partial', 'repeats'):
        wtt = [c.block.wirevector_by_name[nm] for nm in c.partial]
    else:
        wtt = 'all' if track == 'all' else None
    tracer = pyrtl.SimulationTrace(wires_to_track=wtt, block=c.block)
    sim = getattr(pyrtl, cls)(tracer=tracer, register_value_map=dict(c.regmap),
                              memory_value_map={m: dict(v) for m, v in c.memmap.items()}, block=c.block)
    return sim, tracer


def trace_dict(tracer):
    return {nm: list(tracer.trace[nm]) for nm in tracer.trace}


# ------------------------------------------------------------------ channel A
def reference_trace(c, cls):
    """the same simulator class stepped with a tracer on every named wire (the default set) plus whatever
    the explicit list mentions (e.g. an Output called t', which the default tracer takes for internal)"""
    names = {w.name for w in c.block.wirevector_set
             if not isinstance(w, pyrtl.Const) and not w.name.startswith(('tmp', 'const_'))
             and not w.name.endswith("'")} | set(c.partial)
    tracer = pyrtl.SimulationTrace(wires_to_track=[c.block.wirevector_by_name[nm] for nm in sorted(names)],
                                   block=c.block)
    sim = getattr(pyrtl, cls)(tracer=tracer, register_value_map=dict(c.regmap),
                              memory_value_map={m: dict(v) for m, v in c.memmap.items()}, block=c.block)
    for ins in c.inputs:
        sim.step(dict(ins))
    return trace_dict(tracer)


def channel_inspect(ctx, c, key, cls, ref=None):
    sim, tracer = make_sim(c, cls)
    rep = {'seed': ctx.seed, 'design': c.i, 'simulator': cls, 'inputs': c.inputs,
           'wires_to_track': c.partial if getattr(c, 'track', '') in ('partial', 'repeats') else getattr(c, 'track', 'named')}
    for t, ins in enumerate(c.inputs):
        sim.step(dict(ins))
        tracked = set(tracer.trace)     # (`in tracer.trace` raises PyrtlError for unknown names)
        if ref is not None:
            # wires left out of an explicit wires_to_track list: inspect must still give the wire's value
            # (Simulation, FastSimulation) or refuse with PyrtlError (CompiledSimulation), never anything else
            for nm in sorted(ref):
                if nm in tracked:
                    continue
                try:
                    got = ('value', sim.inspect(nm))
                except pyrtl.PyrtlError:
                    got = ('PyrtlError', None)
                except Exception as e:
                    got = (type(e).__name__, None)
                ok = got == ('value', ref[nm][t]) or (key == 'compiled' and got[0] == 'PyrtlError')
                ctx.count('inspect_untracked', '%s:%s' % (key, got[0]))
                if not ok:
                    viol(ctx, 'inspect-untracked:%s' % key,
                         '%s with wires_to_track=%s: inspect(%r) of an untracked wire gives %s after step %d, '
                         'the wire\'s value is %s' % (cls, c.partial, nm, got, t, ref[nm][t]), dict(rep, step=t))
                    break
        if len(tracer) != t + 1 or any(len(tracer.trace[nm]) != t + 1 for nm in tracer.trace):
            viol(ctx, 'trace-length:%s' % key,
                               '%s: after %d steps the trace lists have lengths %s' % (
                                   cls, t + 1, sorted({len(tracer.trace[nm]) for nm in tracer.trace})),
                               dict(rep, step=t))
            break
        bad = [(nm, sim.inspect(nm), tracer.trace[nm][-1]) for nm in tracer.trace
               if sim.inspect(nm) != tracer.trace[nm][-1]]
        if bad:
            viol(ctx, 'inspect-vs-trace:%s' % key,
                               '%s: inspect(%r) = %s but the last trace entry is %s after step %d' % (
                                   cls, bad[0][0], bad[0][1], bad[0][2], t), dict(rep, step=t))
            break
    return sim, tracer


# ------------------------------------------------------------------ channel B
def make_scenario(rng, c, trA, key, pool=None):
    n = c.ncyc
    names = sorted(pool if pool is not None else trA)   # sorted: the tracer's own order follows a set
    in_names = [w.name for w in c.d.inputs]
    widths = {w.name: len(w) for w in c.d.inputs}
    kinds = ['normal'] * 6 + ['nsteps', 'err2', 'err3', 'err4', 'err5', 'bad-input', 'nsteps0']
    kind = rng.choice(kinds)
    provided = {nm: [ins[nm] for ins in c.inputs] for nm in in_names}
    nsteps = None
    k = rng.randint(0, min(4, len(names)))      # 0: step_multiple without expected outputs
    exp_names = rng.sample(names, k)
    expected = {}
    for nm in exp_names:
        vals = []
        for t in range(n):
            a = trA[nm][t]
            r = rng.random()
            if r < 0.55:
                vals.append(a)
            elif r < 0.75:
                vals.append('?')
            else:
                vals.append(a + 1 if (a == 0 or rng.random() < 0.5) else a - 1)
        for _ in range(rng.choice([0, 0, 1, 2])):
            vals.append(rng.choice(['?', 0, 7]))
        expected[nm] = vals
    if kind == 'nsteps' and n >= 2:
        nsteps = rng.randint(1, n - 1)
    elif kind == 'nsteps0':
        nsteps = 0
    elif kind == 'err2':
        nsteps = n + rng.randint(1, 3)
    elif kind == 'err3':
        nsteps = -rng.randint(1, 3)
    elif kind == 'err4':
        if len(in_names) >= 2:
            provided[rng.choice(in_names)].pop()
        else:
            kind = 'normal'
    elif kind == 'err5':
        if exp_names:
            nm = rng.choice(exp_names)
            expected[nm] = expected[nm][:n - 1]
        else:
            kind = 'normal'
    bad_at = None
    if kind == 'bad-input':
        j = rng.randrange(n)
        nm = rng.choice(in_names)
        provided[nm][j] = 1 << widths[nm]          # too large for every guard (F6 concerns negatives)
        bad_at = j
    stop = rng.random() < 0.4
    # string forms (digits only)
    as_str = {}
    for nm, vals in list(expected.items()):
        if vals and all(v == '?' or (isinstance(v, int) and 0 <= v <= 9) for v in vals) and rng.random() < 0.35:
            as_str[nm] = True
    for nm, vals in list(provided.items()):
        if vals and all(0 <= v <= 9 for v in vals) and rng.random() < 0.2:
            as_str[('in', nm)] = True
    return dict(kind=kind, provided=provided, expected=expected, nsteps=nsteps, stop=stop, bad_at=bad_at,
                as_str=as_str, widths=widths)


def channel_step_multiple(ctx, c, key, cls, guard, trA, exprs, meta, pool=None):
    """trA: wire -> values of the stepwise twin (may cover more wires than this tracer tracks);
    pool: wires expected_outputs may mention (all inspectable ones)"""
    rng = ctx.sub_rng('sm', c.i, key)
    sc = make_scenario(rng, c, trA, key, pool)
    sim, tracer = make_sim(c, cls)
    prov = {nm: (''.join(str(v) for v in vals) if sc['as_str'].get(('in', nm)) else list(vals))
            for nm, vals in sc['provided'].items()}
    exp = {nm: (''.join(str(v) for v in vals) if sc['as_str'].get(nm) else list(vals))
           for nm, vals in sc['expected'].items()}
    f = io.StringIO()
    rep = {'seed': ctx.seed, 'design': c.i, 'simulator': cls, 'scenario': sc['kind'],
           'wires_to_track': c.partial if getattr(c, 'track', '') in ('partial', 'repeats') else getattr(c, 'track', 'named'),
           'provided_inputs': prov, 'expected_outputs': exp, 'nsteps': sc['nsteps'],
           'stop_after_first_error': sc['stop']}
    err = None
    try:
        sim.step_multiple(prov, exp, nsteps=sc['nsteps'], file=f, stop_after_first_error=sc['stop'])
    except pyrtl.PyrtlError as e:
        err = str(e)
    except Exception as e:  # not a PyRTL error
        viol(ctx, 'step_multiple:%s:unexpected-exception' % key,
                           '%s.step_multiple raised %r' % (cls, e), rep)
        return
    written = f.getvalue()
    trB = trace_dict(tracer)
    nB = len(next(iter(trB.values())))
    n = c.ncyc
    # ---- specification: what stepping one call at a time gives
    kind = sc['kind']
    want_err = None
    msteps = max(len(v) for v in sc['provided'].values())
    ns = sc['nsteps']
    if ns and ns > msteps:
        want_err = 2
    else:
        ns = ns if ns else msteps
        if ns < 1:
            want_err = 3
        elif any(len(v) < ns for v in sc['provided'].values()):
            want_err = 4
        elif any(len(v) < ns for v in sc['expected'].values()):
            want_err = 5
    got_err = None
    if err is not None:
        for p, k in ERR_PREFIX:
            if err.startswith(p):
                got_err = k
    sig = 'step_multiple:%s:' % key
    ctx.count('step_multiple_scenarios', kind)
    if want_err is not None:
        if got_err != want_err or nB != 0 or written:
            viol(ctx, sig + 'prologue', '%s.step_multiple: expected prologue error %d without '
                               'simulating, got %r, %d steps, %d chars written' % (
                                   cls, want_err, err, nB, len(written)), rep)
        model_want = (0, want_err, [], 0, '')
    else:
        want_fail = []
        executed = 0
        raised = False
        for i in range(ns):
            if sc['bad_at'] is not None and i == sc['bad_at']:
                raised = True
                break
            executed += 1
            for nm, vals in sc['expected'].items():
                e = vals[i]
                if e == '?':
                    continue
                if int(e) != trA[nm][i]:
                    want_fail.append((i, nm, int(e), trA[nm][i]))
            if want_fail and sc['stop']:
                break
        if raised:
            if err is None or got_err is not None or nB != executed or written:
                viol(ctx, sig + 'rejected-input', '%s.step_multiple with an out-of-range value at '
                                   'step %d: expected PyrtlError from step after %d cycles and nothing '
                                   'written; got error %r, %d cycles, %r' % (
                                       cls, sc['bad_at'], executed, err, nB, written[:80]), rep)
        else:
            if err is not None:
                viol(ctx, sig + 'spurious-error', '%s.step_multiple raised %r on legal arguments'
                                   % (cls, err), rep)
                return
            if nB != executed or any(trB[nm] != trA[nm][:executed] for nm in trB):
                viol(ctx, sig + 'trace', '%s.step_multiple (%d cycles) and %d single steps give '
                                   'different traces' % (cls, nB, executed), rep)
            if not want_fail:
                if written:
                    viol(ctx, sig + 'report', '%s.step_multiple wrote a report although every '
                                       'expected output matched: %r' % (cls, written[:200]), rep)
            else:
                try:
                    h1, h2, rows = parse_report(written)
                except Exception as e:
                    rows, h1 = None, repr(e)
                want_sorted = sorted(want_fail, key=lambda t: (t[0], natkey(t[1])))
                ok = rows is not None and sorted(rows) == sorted(want_fail) \
                    and [(r[0], natkey(r[1])) for r in rows] == [(r[0], natkey(r[1])) for r in want_sorted]
                hdr_ok = rows is not None and h1 == ('Unexpected output (stopped after step with first error):'
                                                    if sc['stop'] else 'Unexpected output on one or more steps:')
                if not ok or not hdr_ok:
                    viol(ctx, sig + 'report', '%s.step_multiple reported %s, the mismatching expected '
                                       'outputs are %s' % (cls, rows if rows is not None else h1, want_sorted),
                                       dict(rep, written=written))
        model_want = None
    # ---- tie: the Coq model on the table of observed values
    names = [nm for nm in trA if nm in sc['expected'] or nm in sc['provided']]
    tbl = lst('(%s, %s)' % (txt(nm), zlist(trA[nm])) for nm in names)
    e_prov = lst('(%s, %s)' % (txt(nm), zlist([int(v) for v in vals])) for nm, vals in sc['provided'].items())
    e_exp = lst('(%s, %s)' % (txt(nm), lst('None' if v == '?' else 'Some %s' % zt(int(v)) for v in vals))
                for nm, vals in sc['expected'].items())
    widths = lst('(%s, %d)' % (txt(nm), w) for nm, w in sc['widths'].items())
    exprs.append('sm_case %s %s [] %s %s %s %s %s %s' % (
        guard, widths, tbl, lst(txt(nm) for nm in names), e_prov, e_exp,
        'None' if sc['nsteps'] is None else '(Some %s)' % zt(sc['nsteps']), 'true' if sc['stop'] else 'false'))
    if got_err is not None:
        real = (0, got_err, [], 0, '')
    elif err is not None:
        real = (1, nB, [], nB, '')
    else:
        try:
            rows = parse_report(written)[2] if written else []
        except Exception:
            rows = None
        real = (2, 0, rows, nB, written)
    meta.append(('sm', c.i, key, real, rep))
    ctx.case(('sm', c.i, key, kind, sc['stop'], repr(sorted(exp.items(), key=str))), nontrivial=n >= 2,
             sample=dict(rep, written=written) if (c.i < 2 and key == 'simulation') else None)


# ------------------------------------------------------------------ channel F: stepping entry points
def _drive(c, cls, how, hist, tail, exp_name):
    """fresh simulator, feed `hist` through one entry point, then `tail` one step at a time.
    -> (error class name or None, trace after the entry point, trace after the tail)"""
    sim, tracer = make_sim(c, cls)
    err = None
    try:
        if how == 'step':
            for ins in hist:
                sim.step(dict(ins))
        elif how == 'run':
            sim.run([dict(ins) for ins in hist])
        else:
            table = {nm: [ins[nm] for ins in hist] for nm in hist[0]}
            kw = {}
            if how == 'step_multiple+expected':
                kw['expected_outputs'] = {exp_name: ['?'] * len(hist)}
            if how == 'step_multiple+nsteps':
                kw['nsteps'] = len(hist)
            sim.step_multiple(table, file=io.StringIO(), **kw)
    except pyrtl.PyrtlError:
        err = 'PyrtlError'
    except Exception as e:
        err = type(e).__name__
    t1 = trace_dict(tracer)
    bad = []
    try:
        for ins in tail:
            sim.step(dict(ins))
        for nm in tracer.trace:
            lst_ = tracer.trace[nm]
            if lst_ and sim.inspect(nm) != lst_[-1]:
                bad.append(nm)
    except Exception as e:      # the object is no longer usable after the entry point
        bad.append('raised %r' % e)
    return err, t1, trace_dict(tracer), bad


def channel_entry_points(ctx, c, key, cls, trA):
    """step / step_multiple (with, without expected outputs, with nsteps) / run on a history whose
    step k >= 1 carries an out-of-range value, then two more legal steps: every entry point must leave
    the simulator exactly where calling step() once per cycle leaves it (k cycles traced, PyrtlError,
    same continuation); run() -- a batch call -- may refuse earlier but must stay consistent."""
    rng = ctx.sub_rng('entry', c.i, key)
    n = c.ncyc
    k = rng.randint(1, n - 1)
    target = rng.choice(c.d.inputs)
    bad_v = rng.choice(illegal_values(len(target)))
    hist = [dict(ins) for ins in c.inputs]
    hist[k][target.name] = bad_v
    tail = [{w.name: gen_designs.boundary_value(rng, len(w)) for w in c.d.inputs} for _ in range(2)]
    legal = [dict(ins) for ins in c.inputs]
    exp_name = sorted(trA)[0]
    rep = {'seed': ctx.seed, 'design': c.i, 'simulator': cls, 'history': hist, 'illegal_step': k,
           'illegal_value': {target.name: bad_v}, 'bitwidth': len(target), 'tail': tail,
           'wires_to_track': c.partial if c.track in ('partial', 'repeats') else c.track}
    r_err, r1, r2, r_bad = _drive(c, cls, 'step', hist, tail, exp_name)
    first = next(iter(r1.values()))
    if r_err != 'PyrtlError' or len(first) != k or any(r1[nm] != trA[nm][:k] for nm in r1) or \
            any(len(v) != k + 2 for v in r2.values()) or r_bad:
        viol(ctx, 'entry-point:%s:step' % key,
             '%s: stepping a history with an illegal value at step %d: error %s, %d cycles traced (want PyrtlError '
             'after %d), %d after two more legal steps, inspect/trace disagree on %s'
             % (cls, k, r_err, len(first), k, len(next(iter(r2.values()))), r_bad), rep)
        return
    hows = ['step_multiple', 'step_multiple+expected', 'step_multiple+nsteps']
    if hasattr(getattr(pyrtl, cls), 'run'):
        hows.append('run')
    for how in hows:
        err, t1, t2, bad = _drive(c, cls, how, hist, tail, exp_name)
        n1 = min(len(v) for v in t1.values())
        if len({len(v) for v in t1.values()}) > 1:
            bad = bad + ['traced lists have different lengths %s' % sorted({len(v) for v in t1.values()})]
        ctx.count('entry_points', '%s:%s:%s:%s' % (key, how, err, 'k-cycles-traced' if n1 == k else 'fewer'))
        ctx.case(('entry', c.i, key, how, k, bad_v), nontrivial=True,
                 sample=dict(rep, entry_point=how) if (c.i == 0 and key == 'compiled') else None)
        if how == 'run':
            # batch call: must refuse, must not have simulated the illegal cycle, and whatever prefix it did
            # simulate must be the stepwise one, with a consistent continuation
            ok = err == 'PyrtlError' and n1 <= k and all(t1[nm] == r1[nm][:n1] for nm in t1) and not bad
            if ok and n1 != k:
                _, _, want2, _ = _drive(c, cls, 'step', legal[:n1], tail, exp_name)
                ok = t2 == want2
            elif ok:
                ok = t2 == r2
        else:
            ok = err == 'PyrtlError' and t1 == r1 and t2 == r2 and not bad
        if not ok:
            viol(ctx, 'entry-point:%s:%s' % (key, how),
                 '%s.%s on a history with an illegal value at step %d is not equivalent to step() once per cycle: '
                 'error %s, %d cycles traced (one at a time: PyrtlError after %d), traces equal: %s, after two more '
                 'legal steps equal: %s, inspect/trace disagree on %s'
                 % (cls, how, k, err, n1, k, t1 == r1, t2 == r2, bad), dict(rep, entry_point=how, trace_after=t1,
                                                                          trace_one_at_a_time=r1))
    # the legal history through the batch entry points
    for how in [h for h in hows if h in ('step_multiple', 'run')]:
        err, t1, t2, bad = _drive(c, cls, how, legal, [], exp_name)
        if err is not None or t1 != {nm: trA[nm] for nm in t1} or bad:
            viol(ctx, 'entry-point:%s:%s:legal%s' % (key, how, ':raised:' + err if err else ''),
                 '%s.%s on a legal %d-step history differs from step() once per cycle (error %s; wires that '
                 'differ: %s; %s)' % (cls, how, len(legal), err, [nm for nm in t1 if t1[nm] != trA[nm]][:6], bad),
                 dict(rep, entry_point=how, history=legal, trace_after=t1,
                      trace_one_at_a_time={nm: trA[nm] for nm in t1}))


# ------------------------------------------------------------------ channel C
def channel_text(ctx, c, key, cls, tracer, use_coq, exprs, meta):
    rng = ctx.sub_rng('text', c.i, key)
    tr = trace_dict(tracer)
    n = len(next(iter(tr.values())))
    order = sorted(tr, key=pyrtl.simulation._trace_sort_key)   # the order the implementation lists
    rep0 = {'seed': ctx.seed, 'design': c.i, 'simulator': cls, 'inputs': c.inputs,
            'wires_to_track': c.partial if getattr(c, 'track', '') in ('partial', 'repeats') else getattr(c, 'track', 'named'),
            'traced': {nm: tr[nm] for nm in order}}
    # the implementation's order must be a natural-sort order
    if [natkey(nm) for nm in order] != sorted(natkey(nm) for nm in order):
        viol(ctx, 'trace-order:%s' % key, 'traced wires are not listed in natural order: %s' % order, rep0)
    if use_coq:
        exprs.append('sorted_case %s' % lst(txt(nm) for nm in tr))
        meta.append(('sorted', c.i, key, order, rep0))
    # ---- VCD
    def vcd_part():
        clock = rng.random() < 0.5
        f = io.StringIO()
        try:
            tracer.print_vcd(f, include_clock=clock)
        except Exception as e:
            listed = [w.name for w in tracer.wires_to_track] if isinstance(tracer.wires_to_track, list) else []
            viol(ctx, 'print_vcd:raised:%s%s' % (type(e).__name__,
                                                 ':repeated-wires' if len(set(listed)) != len(listed) else ''),
                 'print_vcd raised %r on a %d-cycle trace of %s (wires_to_track=%s)'
                 % (e, n, cls, rep0['wires_to_track']), dict(rep0, channel='print_vcd', include_clock=clock))
            return
        text = f.getvalue()
        ids = dict(tracer.internal_names.val_map)
        rep = dict(rep0, channel='print_vcd', include_clock=clock, text=text)
        sig = 'vcd:%s'
        used = [ids[nm] for nm in order]
        if len(set(used)) != len(used):
            dup = sorted({x for x in used if used.count(x) > 1})
            viol(ctx, 'vcd:identifier-collision', 'print_vcd gives the same identifier %s to different wires %s'
                               % (dup, [nm for nm in order if ids[nm] in dup]), rep)
        else:
            try:
                decls, dump, steps = parse_vcd(text)
                got = {i_: [] for i_ in used}
                for tm, evs in steps:
                    for ident, v in evs:
                        if ident == 'clk' and clock:
                            continue
                        got[ident].append(v)
                ok_vals = all(got[ids[nm]] == tr[nm] for nm in order)
                times = [tm for tm, _ in steps]
                want_times = []
                for t in range(n):
                    want_times.append(10 * t)
                    if clock:
                        want_times.append(10 * t + 5)
                want_times.append(10 * n)
                ok_times = times == want_times
                want_decl = ([('clk', 1)] if clock else []) + [(ids[nm], tracer._wires[nm].bitwidth) for nm in order]
                ok_decl = decls == want_decl
                ok_dump = dump == [(ids[nm], tr[nm][0]) for nm in order]
                ok_width = all(v < (1 << tracer._wires[nm].bitwidth) for nm in order for v in tr[nm])
            except Exception as e:
                ok_vals = ok_times = ok_decl = ok_dump = ok_width = False
                rep['parse_error'] = repr(e)
            for ok, what in ((ok_vals, 'values'), (ok_times, 'timestamps'), (ok_decl, 'declarations'),
                             (ok_dump, 'dumpvars'), (ok_width, 'value-exceeds-declared-width')):
                if not ok:
                    viol(ctx, sig % what, 'print_vcd text does not encode the trace (%s)' % what, rep)
            if use_coq and len(text) <= COQ_TEXT_LIMIT:
                rows = lst('(%s, %s, %d, %s)' % (txt(nm), txt(ids[nm]), tracer._wires[nm].bitwidth, zlist(tr[nm]))
                           for nm in order)
                ctx.count('coq_decoded_texts', 'print_vcd')
                exprs.append('vcd_case %s %s %s' % ('true' if clock else 'false', rows, txt(text)))
                meta.append(('vcd', c.i, key, [tr[nm] for nm in order],
                             [(ids[nm], tracer._wires[nm].bitwidth) for nm in order], clock, rep))
        ctx.case(('vcd', c.i, key, clock, hashlib.sha1(text.encode()).hexdigest()), nontrivial=n >= 2,
                 sample={'design': c.i, 'channel': 'print_vcd', 'include_clock': clock, 'head': text[:300]}
                 if c.i == 0 and key == 'simulation' else None)
        ctx.count('vcd_sanitised_names', sum(1 for nm in order if ids[nm] != nm))

    vcd_part()
    # ---- print_trace
    il = max(len(nm) for nm in order)
    spacey = any(' ' in nm for nm in order)
    compact_base = rng.choice([2, 8, 10, 16])
    for base, compact in [(2, False), (8, False), (10, False), (16, False), (compact_base, True)]:
        f = io.StringIO()
        try:
            tracer.print_trace(f, base=base, compact=compact)
        except Exception as e:
            viol(ctx, 'print_trace:raised:%s' % type(e).__name__,
                 'print_trace(base=%d, compact=%s) raised %r on a %d-cycle trace of %s' % (base, compact, e, n, cls),
                 dict(rep0, channel='print_trace', base=base, compact=compact))
            continue
        text = f.getvalue()
        rep = dict(rep0, channel='print_trace', base=base, compact=compact, text=text)
        sig = 'print_trace:base%d%s:' % (base, ':compact' if compact else '')
        single = all(v < base for nm in order for v in tr[nm])
        try:
            rows = parse_trace_lines(text, base, compact, il if compact else il + 1)
            if compact:
                ok = [r[0] for r in rows] == order and \
                    all(r[1] == ''.join(fmt(v, base) for v in tr[r[0]]) for r in rows)
                if ok and single:
                    ok = all([int(ch, base) for ch in r[1]] == tr[r[0]] for r in rows)
            else:
                ok = rows == [(nm, tr[nm]) for nm in order]
        except Exception as e:
            ok = False
            rep['parse_error'] = repr(e)
        if not ok:
            viol(ctx, sig + 'values', 'print_trace(base=%d, compact=%s) text does not encode the trace'
                               % (base, compact), rep)
        ctx.count('print_trace', 'base%d%s' % (base, '-compact' if compact else ''))
        if use_coq and not spacey and len(text) <= COQ_TEXT_LIMIT and (compact or base == [2, 8, 10, 16][c.i % 4]):
            ctx.count('coq_decoded_texts', 'print_trace')
            rws = lst('(%s, %s)' % (txt(nm), zlist(tr[nm])) for nm in order)
            exprs.append('trace_case %d %s %s %s' % (base, 'true' if compact else 'false', rws, txt(text)))
            meta.append(('ptrace', c.i, key, [(nm, tr[nm]) for nm in order], (base, compact, single), rep))
        ctx.case(('ptrace', c.i, key, base, compact, hashlib.sha1(text.encode()).hexdigest()), nontrivial=n >= 2,
                 sample={'design': c.i, 'channel': 'print_trace', 'base': base, 'compact': compact,
                         'text': text[:300]} if c.i == 0 and key == 'simulation' and base == 16 else None)


# ------------------------------------------------------------------ channel D
def illegal_values(w):
    k = w // 64 + 1
    return [-1, -(1 << w), 1 << w, (1 << w) + 1, 1 << (64 * k)]


def channel_illegal(ctx, c, key, cls, sim, tracer, guard_pairs):
    rng = ctx.sub_rng('illegal', c.i, key)
    target = rng.choice(c.d.inputs)
    w = len(target)
    order = [x.name for x in c.d.inputs]
    for v in illegal_values(w) + [0, (1 << w) - 1]:
        legal = 0 <= v < (1 << w)
        ins = {}
        rng.shuffle(order)
        for nm in order:
            ww = c.block.wirevector_by_name[nm].bitwidth
            ins[nm] = gen_designs.boundary_value(rng, ww) ^ (1 if rng.random() < 0.5 else 0)
            ins[nm] &= (1 << ww) - 1
        ins[target.name] = v
        before = len(tracer)
        rep = {'seed': ctx.seed, 'design': c.i, 'simulator': cls, 'input': target.name, 'bitwidth': w,
               'value': v, 'step_inputs': dict(ins), 'steps_before': before}
        outcome = 'accepted'
        try:
            sim.step(dict(ins))
        except pyrtl.PyrtlError:
            outcome = 'rejected'
        except Exception as e:
            outcome = 'other:' + type(e).__name__
        after = len(tracer)
        guard_pairs.append((key, v, w, outcome, rep))
        ctx.case(('illegal', c.i, key, v, w), nontrivial=True,
                 sample=rep if (c.i == 0 and v == -1) else None)
        ctx.count('illegal_inputs', '%s:%s:%s' % (key, 'legal' if legal else ('negative' if v < 0 else 'too-large'), outcome))
        if legal:
            if outcome != 'accepted' or after != before + 1:
                viol(ctx, '%s:legal-input-refused' % key, '%s refused legal value %d for a %d-bit input (%s)'
                                   % (cls, v, w, outcome), rep)
            continue
        kindv = 'negative' if v < 0 else 'oversize'
        if outcome == 'accepted':
            viol(ctx, '%s:%s-input-accepted' % (key, kindv),
                               '%s.step accepted %s value %d for %d-bit Input %s and simulated it (trace %d -> %d)'
                               % (cls, kindv, v, w, target.name, before, after), rep)
        elif outcome != 'rejected':
            viol(ctx, '%s:%s-input-wrong-exception' % (key, kindv),
                               '%s.step raised %s instead of PyrtlError on value %d for a %d-bit input'
                               % (cls, outcome, v, w), rep)
        if outcome != 'accepted':
            if after != before:
                viol(ctx, '%s:rejected-step-advanced-trace' % key,
                                   '%s.step refused value %d but the trace grew %d -> %d' % (cls, v, before, after), rep)
            elif before > 0:
                bad = [(nm, sim.inspect(nm), tracer.trace[nm][-1]) for nm in tracer.trace
                       if sim.inspect(nm) != tracer.trace[nm][-1]]
                if bad:
                    viol(ctx, '%s:rejected-step-mutates-inspect' % key,
                                       '%s.step refused value %d for %s, yet afterwards inspect(%r) = %s while the '
                                       'last trace entry is %s' % (cls, v, target.name, bad[0][0], bad[0][1], bad[0][2]),
                                       rep)


# ------------------------------------------------------------------ channel E
class AssertA(Exception):
    pass


class AssertB(Exception):
    pass


class AssertPyrtl(pyrtl.PyrtlError):
    """an rtl_assert exception that is itself a PyrtlError"""
    pass


EXC_CLASSES = [AssertA, AssertB, AssertPyrtl, pyrtl.PyrtlError, pyrtl.PyrtlInternalError,
               ValueError, IndexError, RuntimeError, AssertionError]
TRACER_CONFIGS = ['default', 'all', 'without-assert-wires', 'with-assert-wires']


def channel_assert(ctx, j, exprs, meta):
    rng = ctx.sub_rng('assert', j)
    d = gen_designs.make_design(rng, wide_prob=0.05, n_ops=rng.randint(2, 8), allow_mem=False, allow_rom=False)
    block = d.block
    ncyc = rng.randint(3, 10)
    nas = rng.choice([1, 1, 2])
    cnt = pyrtl.Register(5, 'acnt')
    cnt.next <<= cnt + 1
    ecls = [EXC_CLASSES[(j + 3 * k) % len(EXC_CLASSES)] for k in range(2)]
    exps = [ecls[0]('first'), ecls[1]('second')]
    specs = []
    extra_in = []
    for a in range(nas):
        mode = rng.choice(['counter', 'input', 'window'])
        if mode == 'counter':
            cyc = rng.randint(0, ncyc + 1)
            okw = pyrtl.WireVector(1, 'ok%d' % a)
            okw <<= cnt != cyc
            lows = [t == cyc for t in range(ncyc)]
        elif mode == 'window':
            lo = rng.randint(0, ncyc)
            okw = pyrtl.WireVector(1, 'ok%d' % a)
            okw <<= cnt < lo
            lows = [t >= lo for t in range(ncyc)]
        else:
            inp = pyrtl.Input(1, 'ain%d' % a)
            extra_in.append(inp)
            okw = pyrtl.WireVector(1, 'ok%d' % a)
            okw <<= inp
            lows = [rng.random() < 0.25 for t in range(ncyc)]
        aw = pyrtl.rtl_assert(okw, exps[a])
        specs.append((okw.name, aw.name, lows, mode))
    # keep acnt observable
    o = pyrtl.Output(5, 'acnt_o')
    o <<= cnt
    regmap, memmap, inputs = gen_designs.make_stimulus(rng, d, ncyc)
    for t in range(ncyc):
        for a, (okn, awn, lows, mode) in enumerate(specs):
            if mode == 'input':
                inputs[t]['ain%d' % a] = 0 if lows[t] else 1
    # specification: first cycle where some assertion wire is 0; first registered wins
    first = None
    for t in range(ncyc):
        low = [a for a in range(nas) if specs[a][2][t]]
        if low:
            first = (t, low[0])
            break
    assert_names = {s_[0] for s_ in specs} | {s_[1] for s_ in specs}
    plain = [w for w in d.inputs + extra_in + d.outputs + [o]]

    def tracer_for(cfg):
        if cfg == 'default':
            return pyrtl.SimulationTrace(block=block)
        if cfg == 'all':
            return pyrtl.SimulationTrace(wires_to_track='all', block=block)
        ws = list(plain)
        if cfg == 'with-assert-wires':
            ws += [block.wirevector_by_name[nm] for nm in sorted(assert_names)]
        return pyrtl.SimulationTrace(wires_to_track=ws, block=block)

    for key, cls, guard in SIMS[:2]:
        default_tr = None
        default_raised = None
        for cfg in TRACER_CONFIGS:
            tracer = tracer_for(cfg)
            sim = getattr(pyrtl, cls)(tracer=tracer, register_value_map=dict(regmap), block=block)
            raised = None
            other = None
            for t in range(ncyc):
                try:
                    sim.step(dict(inputs[t]))
                except Exception as e:   # the registered exception OBJECT must come out, whatever its class
                    hit = [k for k in range(nas) if e is exps[k]]
                    if hit:
                        raised = (t, hit[0])
                    else:
                        other = (t, repr(e))
                    break
            rep = {'seed': ctx.seed, 'assert_design': j, 'simulator': cls, 'tracer': cfg,
                   'exception_classes': [c_.__name__ for c_ in ecls[:nas]],
                   'assert_wires': [s_[0] for s_ in specs], 'wire_is_low': [s_[2] for s_ in specs],
                   'inputs': inputs, 'raised': raised, 'other_exception': other, 'expected': first}
            tr = trace_dict(tracer)
            # where traced, the wire values themselves are the ground truth for "is 0"
            seen_low = first
            if all(s_[0] in tr for s_ in specs):
                seen_low = None
                for t in range(len(tr[specs[0][0]])):
                    low = [a for a in range(nas) if tr[specs[a][0]][t] == 0]
                    if low:
                        seen_low = (t, low[0])
                        break
            pyrtl_exc = any(isinstance(x, (pyrtl.PyrtlError, pyrtl.PyrtlInternalError)) for x in exps[:nas])
            if other is not None or raised != seen_low or raised != first:
                viol(ctx, 'rtl_assert:%s:tracer=%s%s' % (key, cfg, ':pyrtl-exception' if pyrtl_exc else ''),
                     '%s (tracer %s, exceptions %s): rtl_assert raised at %s (other exception: %s), the assertion '
                     'wire is first 0 at %s (traced: %s)' % (cls, cfg, rep['exception_classes'], raised, other,
                                                            first, seen_low), rep)
            ctx.count('assert_outcomes', '%s:%s:%s' % (key, cfg, 'raised' if raised else 'never-low'))
            for c_ in ecls[:nas]:
                ctx.count('assert_exception_classes', c_.__name__)
            ctx.case(('assert', j, key, cfg, raised), nontrivial=True,
                     sample=rep if j == 0 and key == 'simulation' and cfg == 'default' else None)
            if cfg == 'default':
                default_tr, default_raised = tr, raised
        raised, tr = default_raised, default_tr
        rep = {'seed': ctx.seed, 'assert_design': j, 'simulator': cls, 'tracer': 'default',
               'assert_wires': [s_[0] for s_ in specs], 'inputs': inputs, 'raised': raised, 'expected': first}
        # tie: Coq run with asserts over the table of values of an assertion-free replay of the same wires
        # (values beyond the raising cycle come from continuing the real simulator, which keeps stepping)
        sim2_tr = pyrtl.SimulationTrace(block=block)
        sim2 = getattr(pyrtl, cls)(tracer=sim2_tr, register_value_map=dict(regmap), block=block)
        for t in range(ncyc):
            try:
                sim2.step(dict(inputs[t]))
            except Exception as e:
                if not any(e is x for x in exps):
                    raise
        tr2 = trace_dict(sim2_tr)
        names = list(tr2)
        tbl = lst('(%s, %s)' % (txt(nm), zlist(tr2[nm])) for nm in names)
        in_w = [w for w in d.inputs + extra_in]
        widths = lst('(%s, %d)' % (txt(w.name), len(w)) for w in in_w)
        inss = lst(lst('(%s, %s)' % (txt(nm), zt(v)) for nm, v in inputs[t].items()) for t in range(ncyc))
        exprs.append('assert_case %s %s %s %s %s' % (
            widths, lst(txt(s_[1]) for s_ in specs), tbl, lst(txt(nm) for nm in names), inss))
        real = (raised[0] if raised else ncyc, (2, specs[raised[1]][1]) if raised else (0, ''),
                len(tr[names[0]]), (raised[0], specs[raised[1]][1]) if raised else None)
        meta.append(('assert', j, key, real, rep))


# ------------------------------------------------------------------ directed: sanitiser prefix as a wire name
def directed_prefix_names(ctx, exprs, meta):
    """a wire that is literally named like a sanitised identifier, next to names that need sanitising"""
    for k, (bad, plain) in enumerate([('a.b', '_vcd_tmp_0'), ('x[1]', '_vcd_tmp_1'), ('q-r', '_fastsim_tmp_0')]):
        pyrtl.reset_working_block()
        a = pyrtl.Input(4, bad)
        z = pyrtl.Input(3, 'z%d' % k)
        o = pyrtl.Output(4, plain)
        o <<= ~a
        o2 = pyrtl.Output(4, 'o.%d' % k)
        o2 <<= a + z
        c = Case()
        c.i, c.block, c.ncyc = 'directed%d' % k, pyrtl.working_block(), 3
        c.regmap, c.memmap, c.track_all, c.odd = {}, {}, False, [bad]
        c.inputs = [{bad: 3, 'z%d' % k: 1}, {bad: 12, 'z%d' % k: 7}, {bad: 0, 'z%d' % k: 2}]
        for key, cls, guard in SIMS:
            try:
                sim, tracer = channel_inspect(ctx, c, key, cls)
                channel_text(ctx, c, key, cls, tracer, False, exprs, meta)
            except Exception as e:
                viol(ctx, 'simulator-failed:%s' % key, '%s failed on a design with wires named %r and %r: %r'
                                   % (cls, bad, plain, e), {'names': [bad, plain], 'simulator': cls})


# ------------------------------------------------------------------ channel G: I/O buffer shapes
IO_WIDTHS = [1, 2, 3, 5, 8, 16, 31, 32, 33, 63, 64, 65, 96, 127, 128, 129, 130]


def _fit(w, width):
    return w[:width] if len(w) >= width else w.zero_extended(width)


def _words(ws):
    return sum((len(w) + 63) // 64 for w in ws)


def channel_io_shapes(ctx, j):
    """1-4 Inputs and 1-4 Outputs of widths 1..130 (so the numbers of 64-bit words per step of
    CompiledSimulation's input and output records differ in both directions), ALL of them traced:
    a legal multi-step table through every batch entry point of CompiledSimulation (run in one call,
    run in two calls, step_multiple without expected outputs) against one step() per cycle and against
    Simulation -- trace, inspect, print_trace and print_vcd text."""
    rng = ctx.sub_rng('ioshape', j)
    pyrtl.reset_working_block()
    n_in, n_out = rng.randint(1, 4), rng.randint(1, 4)
    big_in = rng.random() < 0.5           # bias one side towards wide wires
    def W(wide):
        return rng.choice(IO_WIDTHS[8:] if (wide and rng.random() < 0.6) else IO_WIDTHS[:9])
    ins = [pyrtl.Input(W(big_in), 'i%d' % k) for k in range(n_in)]
    reg = pyrtl.Register(rng.choice([3, 8, 40, 70]), 'acc')
    reg.next <<= _fit(reg + _fit(ins[0], len(reg)), len(reg))
    outs = []
    for k in range(n_out):
        ow = W(not big_in)
        a, b = rng.choice(ins), rng.choice(ins + [reg])
        kind = rng.choice(['wire', 'xor', 'concat', 'add'])
        if kind == 'wire':
            e = a
        elif kind == 'xor':
            e = _fit(a, ow) ^ _fit(b, ow)
        elif kind == 'concat':
            e = pyrtl.concat(b, a)
        else:
            e = _fit(a, ow) + _fit(b, ow)
        o = pyrtl.Output(ow, 'o%d' % k)
        o <<= _fit(e, ow)
        outs.append(o)
    block = pyrtl.working_block()
    ncyc = rng.randint(2, 7)
    table = [{w.name: gen_designs.boundary_value(rng, len(w)) for w in ins} for _ in range(ncyc)]
    wi, wo = _words(ins), _words(outs)
    ctx.count('io_words', 'inputs %s outputs' % ('<' if wi < wo else ('>' if wi > wo else '=')))
    rep = {'seed': ctx.seed, 'io_design': j, 'inputs': {w.name: len(w) for w in ins},
           'outputs': {w.name: len(w) for w in outs}, 'input_words': wi, 'output_words': wo, 'table': table}

    def observe(cls, how):
        tracer = pyrtl.SimulationTrace(wires_to_track=ins + outs, block=block)
        sim = getattr(pyrtl, cls)(tracer=tracer, block=block)
        if how == 'step':
            for row in table:
                sim.step(dict(row))
        elif how == 'run':
            sim.run([dict(row) for row in table])
        elif how == 'run-in-two-calls':
            cut = rng.randint(1, ncyc - 1)
            sim.run([dict(row) for row in table[:cut]])
            sim.run([dict(row) for row in table[cut:]])
        else:
            sim.step_multiple({w.name: [row[w.name] for row in table] for w in ins}, file=io.StringIO())
        tr = trace_dict(tracer)
        insp = {nm: sim.inspect(nm) for nm in tr}
        f1, f2 = io.StringIO(), io.StringIO()
        tracer.print_trace(f1, base=16)
        tracer.print_vcd(f2)
        return tr, insp, f1.getvalue(), f2.getvalue()

    want = observe('Simulation', 'step')
    # Simulation against the table itself: every Input trace is the column that was fed
    if any(want[0][w.name] != [row[w.name] for row in table] for w in ins):
        viol(ctx, 'io-shape:simulation:input-trace', 'Simulation: traced Inputs differ from the values fed', rep)
    for cls, how in [('FastSimulation', 'step'), ('CompiledSimulation', 'step'), ('CompiledSimulation', 'run'),
                     ('CompiledSimulation', 'run-in-two-calls'), ('CompiledSimulation', 'step_multiple')]:
        key = {'FastSimulation': 'fast', 'CompiledSimulation': 'compiled'}[cls]
        ctx.case(('ioshape', j, cls, how), nontrivial=True,
                 sample=dict(rep, simulator=cls, entry_point=how) if j == 0 and how == 'run' else None)
        try:
            got = observe(cls, how)
        except Exception as e:
            viol(ctx, 'io-shape:%s:%s:raised:%s' % (key, how, type(e).__name__),
                 '%s via %s on a legal %d-step table (%d input words, %d output words per step) raised %r'
                 % (cls, how, ncyc, wi, wo, e), dict(rep, simulator=cls, entry_point=how))
            continue
        if got[0] != want[0]:
            wrong = [nm for nm in want[0] if got[0].get(nm) != want[0][nm]]
            kindw = 'inputs' if all(nm.startswith('i') for nm in wrong) else 'outputs'
            viol(ctx, 'io-shape:%s:%s:trace:%s' % (key, how, kindw),
                 '%s via %s: trace of %s differs from Simulation stepped once per cycle (%d input words, %d output '
                 'words per step)' % (cls, how, wrong, wi, wo),
                 dict(rep, simulator=cls, entry_point=how, trace=got[0], expected_trace=want[0]))
        elif got[1] != want[1]:
            viol(ctx, 'io-shape:%s:%s:inspect' % (key, how), '%s via %s: inspect differs from Simulation'
                 % (cls, how), dict(rep, simulator=cls, entry_point=how, inspect=got[1], expected=want[1]))
        elif got[2] != want[2] or got[3] != want[3]:
            viol(ctx, 'io-shape:%s:%s:text' % (key, how), '%s via %s: print_trace / print_vcd text differs from '
                 'Simulation although the traces are equal' % (cls, how), dict(rep, simulator=cls, entry_point=how))


def guarded(ctx, what, rep, exprs, meta, fn, *args):
    """run one channel; a crash is reported (with the case that provoked it) and the other streams go on"""
    ne, nm_ = len(exprs), len(meta)
    try:
        return fn(*args)
    except Exception as e:
        del exprs[ne:]
        del meta[nm_:]
        import traceback
        viol(ctx, 'channel-crashed:%s:%s' % (what, type(e).__name__),
             'the %s observations could not be completed: %r' % (what, e),
             dict(rep, traceback=traceback.format_exc()[-1500:]))
        return None


# ------------------------------------------------------------------ main
def run(ctx):
    _SIG_COUNT.clear()
    ndesigns = 36 if ctx.tier == 'quick' else 300
    nassert = 30 if ctx.tier == 'quick' else 200
    nio = 20 if ctx.tier == 'quick' else 150
    # ---- T14 gate
    probs = genfrag_C15.step_multiple_identity(REPO)
    for p in probs:
        ctx.model_mismatch('step_multiple copies diverge: %s' % p, {'gate': 'T14', 'problem': p})
    try:
        src = genfrag_C15.step_multiple_source(REPO)
        if src.strip() != FROZEN_STEP_MULTIPLE.strip():
            import difflib
            diff = '\n'.join(list(difflib.unified_diff(FROZEN_STEP_MULTIPLE.strip().split('\n'),
                                                       src.strip().split('\n'), lineterm=''))[:40])
            ctx.model_mismatch('Simulation.step_multiple differs from the text Sim/Trace.v was modelled on '
                               '(re-audit the model)', {'gate': 'T14-frozen', 'diff': diff})
    except Exception as e:
        ctx.model_mismatch('cannot read step_multiple source: %r' % e, {'gate': 'T14-frozen'})
    ctx.case(('T14', len(probs)), nontrivial=True)

    exprs, meta, guard_pairs = [], [], []
    for i in range(ndesigns):
        try:
            c = build(ctx, i)
        except Exception as e:      # the generator, not PyRTL's observation channels: note it and go on
            ctx.notes.append('design %d could not be generated: %r' % (i, e))
            ctx.count('design_generation_failed', type(e).__name__)
            continue
        coq_sim = i % 3
        ctx.count('cycles', c.ncyc)
        ctx.count('odd_names', len(c.odd))
        ctx.count('track', c.track)
        for si, (key, cls, guard) in enumerate(SIMS):
            try:
                ref = reference_trace(c, cls) if c.track in ('partial', 'repeats') else None
                sim, tracer = channel_inspect(ctx, c, key, cls, ref)
            except Exception as e:
                viol(ctx, 'simulator-failed:%s' % key, '%s failed on an API-built design: %r' % (cls, e),
                                   {'seed': ctx.seed, 'design': c.i, 'simulator': cls})
                continue
            trA = trace_dict(tracer)
            varying = sum(1 for nm in trA if len(set(trA[nm])) > 1)
            ctx.case(('inspect', c.i, key, hashlib.sha1(repr(sorted(trA.items())).encode()).hexdigest()),
                     nontrivial=c.ncyc >= 2 and varying >= 1,
                     sample={'design': c.i, 'simulator': cls, 'channel': 'inspect-vs-trace',
                             'inputs': c.inputs[:2], 'traced': sorted(trA)[:10]} if c.i == 0 else None)
            ctx.count('traced_wires', min(len(trA) // 5 * 5, 40))
            for nm in trA:
                w = tracer._wires[nm].bitwidth
                ctx.count('traced_widths', w if w <= 8 else ('9-64' if w <= 64 else '65+'))
            grep_ = {'seed': ctx.seed, 'design': c.i, 'simulator': cls, 'inputs': c.inputs,
                     'wires_to_track': c.partial if c.track in ('partial', 'repeats') else c.track}
            if ref is not None:
                # expected_outputs may name wires the tracer does not track (inspect still works), except
                # under CompiledSimulation, whose inspect reads the trace
                pool = list(trA) if key == 'compiled' else list(ref)
                guarded(ctx, 'step_multiple:' + key, grep_, exprs, meta,
                        channel_step_multiple, ctx, c, key, cls, guard, ref, exprs, meta, pool)
            else:
                guarded(ctx, 'step_multiple:' + key, grep_, exprs, meta,
                        channel_step_multiple, ctx, c, key, cls, guard, trA, exprs, meta)
            guarded(ctx, 'text:' + key, grep_, exprs, meta,
                    channel_text, ctx, c, key, cls, tracer, si == coq_sim, exprs, meta)
            guarded(ctx, 'illegal-inputs:' + key, grep_, exprs, meta,
                    channel_illegal, ctx, c, key, cls, sim, tracer, guard_pairs)
            guarded(ctx, 'entry-points:' + key, grep_, exprs, meta,
                    channel_entry_points, ctx, c, key, cls, ref if ref is not None else trA)
    for j in range(nassert):
        guarded(ctx, 'rtl_assert', {'seed': ctx.seed, 'assert_design': j}, exprs, meta,
                channel_assert, ctx, j, exprs, meta)
    for j in range(nio):
        guarded(ctx, 'io-shape', {'seed': ctx.seed, 'io_design': j}, exprs, meta, channel_io_shapes, ctx, j)
    guarded(ctx, 'directed-names', {'seed': ctx.seed}, exprs, meta, directed_prefix_names, ctx, exprs, meta)

    # translated guards vs behaviour vs specification on every tried (value, width)
    gp_index = {}
    for key, v, w, outcome, rep in guard_pairs:
        gp_index.setdefault((v, w), len(gp_index))
    gp_list = sorted(gp_index, key=lambda p: gp_index[p])
    for v, w in gp_list:
        exprs.append('guard_case %s %d' % (zt(v), w))
        meta.append(('guard', v, w))
    exprs.append('[compiled_guard_neg_ok]')
    meta.append(('flag',))

    try:
        results = ctx.coq_eval(exprs, IMPORTS, tag='c15', shard=24 if ctx.tier == 'quick' else 60, jobs=12)
    except Exception as e:
        ctx.model_mismatch('the Coq model (Sim/TraceHarness.v) could not be evaluated: %s' % str(e)[-800:], {})
        return
    guard_verdict = {}
    for m, r in zip(meta, results):
        if m[0] == 'guard':
            guard_verdict[(m[1], m[2])] = r
        elif m[0] == 'flag':
            ctx.notes.append('translated CompiledSimulation guard rejects -1: %s (defect F6 %s)'
                             % (bool(r[0]), 'absent' if r[0] else 'PRESENT in the source'))
        elif m[0] == 'sorted':
            _, i, key, order, rep = m
            if [from_codes(x) for x in r] != order:
                ctx.model_mismatch('Sim/Trace.v sort_names orders the traced wires differently from the implementation',
                                   dict(rep, model=[from_codes(x) for x in r]))
        elif m[0] == 'vcd':
            _, i, key, vals, decl, clock, rep = m
            same, dec, dvars, mtext = r
            if dec != vals:
                ctx.model_mismatch('IO/Vcd.v decode_vcd of the real print_vcd text differs from tracer.trace',
                                   dict(rep, decoded=dec))
            want = ([('clk', 1)] if clock else []) + decl
            if [(from_codes(a), b) for a, b in dvars] != want:
                ctx.model_mismatch('IO/Vcd.v decode_vars of the real print_vcd text differs from the declarations',
                                   dict(rep, decoded=str(dvars)))
            if not same:
                ctx.model_mismatch('IO/Vcd.v print_vcd differs from the real text',
                                   dict(rep, model_text=from_codes(mtext)))
        elif m[0] == 'ptrace':
            _, i, key, rows, (base, compact, single), rep = m
            same, dec, mtext = r
            if not same:
                ctx.model_mismatch('IO/Vcd.v print_trace differs from the real text (base %d, compact %s)'
                                   % (base, compact), dict(rep, model_text=from_codes(mtext)))
            if not compact or single:
                got = None if dec is None else [(from_codes(a), list(b)) for a, b in dec]
                if got != rows:
                    ctx.model_mismatch('IO/Vcd.v decode_trace of the real print_trace text differs from tracer.trace',
                                       dict(rep, decoded=str(got)))
        elif m[0] == 'sm':
            _, i, key, real, rep = m
            kind, idx, rows, tlen, mtext = r
            model = (kind, idx, [(a, from_codes(b), c_, d_) for (a, b, c_, d_) in rows], tlen, from_codes(mtext))
            if real[2] is None or model != (real[0], real[1], list(real[2]), real[3], real[4]):
                ctx.model_mismatch('Sim/Trace.v step_multiple disagrees with the implementation (%s)' % key,
                                   dict(rep, model=str(model), real=str(real)))
        elif m[0] == 'assert':
            _, j, key, real, rep = m
            k, (oc, an), tlen, pred = r
            model = (k, (oc, from_codes(an)), tlen, None if pred is None else (pred[0], from_codes(pred[1])))
            if model != real:
                ctx.model_mismatch('Sim/Trace.v run/first_assert_failure disagrees with the implementation (%s)' % key,
                                   dict(rep, model=str(model), real=str(real)))
    col = {'simulation': 0, 'fast': 1, 'compiled': 2}
    for key, v, w, outcome, rep in guard_pairs:
        gv = guard_verdict.get((v, w))
        if gv is None or outcome.startswith('other'):
            continue
        model_rejects = bool(gv[col[key]])
        if model_rejects != (outcome == 'rejected'):
            ctx.model_mismatch('Gen/InputGuards.v guard_%s says %s but the simulator %s value %d at width %d'
                               % (key, 'reject' if model_rejects else 'accept', outcome, v, w), rep)
        if bool(gv[3]) != (not (0 <= v < (1 << w))):
            ctx.model_mismatch('reject_spec disagrees with the range definition', rep)


def replay(ctx, data):
    print(data)
    run(ctx)
