"""C05: the Verilog module and testbench written by output_to_verilog /
output_verilog_testbench reproduce the simulation.

Per random design and add_reset option the REAL emitter's text is parsed by
py/verilog_reader.py into the Coq AST of IO/VerilogSyn.v and
 (a) tie:    IO/VerilogEmit.v `emit_checks` (declarations, one assign per net with
             the per-op expression the model predicts, register block, memory
             blocks, ROM initial blocks) must all hold of the parsed text -- then
             theorem C05_module_refines_spec applies to that very module;
 (b) search: the parsed module is run under IO/VerilogSem.v (Coq, vm_compute) on
             a random input sequence / initial memory and compared with
             pyrtl.Simulation's trace and with the reference semantics (spec_case).
Testbench: traces of Simulation / FastSimulation / CompiledSimulation are exported,
parsed, and IO/VerilogTestbench.v decides whether the `block.r = v` /
`block.mem[a] = v` lines rebuild the simulator's initial state and the per-cycle
drives equal the traced inputs."""
import contextlib
import hashlib
import io
import re

import pyrtl
import gen_designs
import nlx
import verilog_reader as vr

RULE = ('random API-built designs from gen_designs without nand (15 primitive ops, widths 1..130, '
        'registers with/without reset values, multi-port memories, ROMs; ~40% of the designs get some '
        'wires renamed to reserved words / clk / non-identifiers / 1025-character names) x add_reset in '
        '{False, True, asynchronous}: the emitted text is parsed, structurally tied to the Coq emitter '
        'model and executed under the Coq Verilog semantics on a random input sequence + initial memory; '
        'every wire on every cycle and the final memory are compared with pyrtl.Simulation and Sem.  A case '
        'is one (design, option, stimulus); non-trivial when at least one Output takes two values.  '
        'Testbench: (design, simulator, option) with random register_value_map / memory_value_map.  '
        'History: a subset of designs is exported (module under the three options + testbench, each twice: '
        'identical text required), then EXTENDED IN PLACE (new Input, Register, Outputs, read ports, sometimes a '
        'new written memory) and only the export of the extended block goes through tie + search + testbench.  '
        'Variants: blocks NOT built directly -- copy_block, copy of a copy, optimize (copy and in place), synthesize '
        '(+optimize) results -- and designs whose memories all share one name with different initial contents go '
        'through the same module tie + search + testbench checks.  '
        'Wide constants: designs with 33..130-bit constants (boundary values, incl. value = width) in every '
        'position a constant can take.  Own names: user registers / wires / constants / inputs / outputs named like '
        'the identifiers the emitted texts declare themselves (rst, clk, tb_iter, block, mem_<id>, _ver_out_tmp_<k>, '
        'toplevel, tb ...) under every add_reset option: either PyrtlError or text that passes all checks.  '
        'Translator tie: the statement tables of the emitter model are regenerated from the source on every run '
        '(Gen/C05Emit.v) and proved equal to the tables emitted_ok is built from.  '
        'Value kinds: every testbench case gives the simulator its inputs / register_value_map / memory_value_map '
        'as mixed Integral kinds (bool, int subclass with non-numeric str(), IntEnum).  Process history: designs with '
        'wires named after Verilog-only keywords, Python-only keywords, keywords of both, names legal in both / '
        'neither are first run through the OTHER name-sanitising consumers (FastSimulation, print_vcd, '
        'output_to_verilog, output_verilog_testbench; each first in some cases) and only then exported.  '
        'Sanitizer: per design the Coq sanitizer model (parameters regenerated from the source) is evaluated on '
        'the wire names and compared with the identifiers read off the emitted text.  '
        'Targeted: every IEEE 1364-2001 keyword as a wire name; sanitizer-prefix, mem_<id> and '
        'testbench-identifier name collisions.')
IMPORTS = ('From PyRTL Require Import Netlist.Sem Netlist.WFDefs Netlist.SpecHarness IO.VerilogHarness.')
IMPORTS_SAN = ('From Coq Require Import List ZArith.\nFrom PyRTL Require Import IO.VerilogSanitizerSrc.\n'
               'Import ListNotations.\nOpen Scope Z_scope.')
COQ_TARGETS = ['theories/Netlist/SpecHarness.vo', 'theories/IO/VerilogHarness.vo',
               'theories/IO/VerilogSanitizerSrc.vo']
PROPS_FILES = ['theories/Props/C05.v', 'theories/Props/C05Sanitizer.v']
TRUSTED = ['IO/VerilogSyn.v + IO/VerilogSem.v: hand-written formalisation of the IEEE 1364-2001 subset the '
           'emitter writes (expression sizing, continuous assignment, non-blocking assignment at posedge)',
           'IO/VerilogTestbench.v: reading of the testbench `initial` block',
           'IO/VerilogSanitizer.v legal_ident / ieee_keywords: what a legal identifier of the emitted texts is',
           'py/verilog_reader.py: parser of exactly that subset (fails closed), incl. the IEEE 1364-2001 '
           'keyword table',
           'py/genfrag_C05.py: (a) sanitizer parameters read from _VerilogSanitizer; (b) symbolic execution of the '
           'loop bodies of _to_verilog_combinational/_sequential/_memories per op character -> Gen/C05Emit.v '
           '(varname(dests[0]) -> D, varname(args[k]) -> A<k>; the printed statement is parsed with the reader\'s '
           'expression parser; the two list comprehensions of concat/select are matched by AST identity); fails '
           'closed.  NO LONGER hand-tied: the statement tables of the emitter model (per-op assign expression, '
           'constant literal, register reset/update statements, memory write/read statements) are proved equal to '
           'the regenerated ones (C05_model_tables_match_source), and C05_assign_correct is stated over the '
           'regenerated table']
ASSUMPTIONS = [
    'unsized decimal literals (constants, reset values) >= 2^31 are given their mathematical value; the '
    'standard only guarantees an implementation-defined width of at least 32 bits for them (observation, '
    'counted in distribution table "unsized_literals")',
    'registers start at reset_value (0 if none) and memories at the given contents: the property\'s '
    'hypothesis; Verilog x/z values are not modelled',
    'two enabled writes to the same address of one memory in the same cycle are not generated (PyRTL '
    'leaves their order to set iteration)',
    'ROM contents are tabulated at dump time (RomBlock._get_read_data evaluated per address)',
    'the identifier <-> wire correspondence is read off the text (kept names map to themselves, the k-th '
    'unkept wire in block.wirevector_set order to _ver_out_tmp_k) and then VERIFIED by the structural tie',
]

MODES = [(False, 'RNone', 'none'), (True, 'RSync', 'sync'), ('asynchronous', 'RAsync', 'async')]

WEIRD = ['always', 'wire', 'reg', 'module', 'input', 'output', 'begin', 'end', 'assign', 'signed', 'or',
         'and', 'not', 'xor', 'if', 'else', 'for', 'initial', 'posedge', 'integer', 'clk', 'a b', 'x[3]',
         'a.b', '9lives', 'sig-1', 'café', '$x', 'ok$name', '_under', 'A', 'L' * 1025, 'M' * 1024,
         'rcmos', 'noshowcancelled', 'pulsestyle_onevent', 'tb', 'toplevel',
         'w/3', 'out put', '{c}', 'a,b', 'endmodule', 'case']

_reported = {}


def report_once(ctx, sig, what, rep, limit=2):
    _reported[sig] = _reported.get(sig, 0) + 1
    if _reported[sig] <= limit:
        ctx.spec_violation(sig, what, rep)


def safe_eval(ctx, exprs, imports, tag, shard, per_shard_timeout=None, single_timeout=None):
    """ctx.coq_eval that never raises and never waits long: a shard that fails or times out is re-run one
    expression per file; an expression that still fails yields None"""
    import concurrent.futures
    import coqrun
    if not exprs:
        return []
    # bounded either way; the thorough tier has 12-cycle wide designs (~10 s of coqc each on an idle core)
    per_shard_timeout = per_shard_timeout or (90 if ctx.tier == 'quick' else 400)
    single_timeout = single_timeout or (45 if ctx.tier == 'quick' else 240)
    shards = [(k, exprs[k:k + shard]) for k in range(0, len(exprs), shard)]
    out = [None] * len(exprs)

    def run_shard(job):
        k, es = job
        try:
            return k, coqrun.eval_exprs(es, imports, ctx.workdir, '%s_%d' % (tag, k), shard=len(es), jobs=1,
                                        timeout=per_shard_timeout)
        except Exception as e:
            return k, e
    with concurrent.futures.ThreadPoolExecutor(max_workers=12) as ex:
        results = list(ex.map(run_shard, shards))
    retry = []
    for (k, es), (_, r) in zip(shards, results):
        if isinstance(r, Exception):
            retry += [(k + j, [e]) for j, e in enumerate(es)]
        else:
            out[k:k + len(es)] = r

    def run_one(job):
        k, es = job
        try:
            return k, coqrun.eval_exprs(es, imports, ctx.workdir, '%s_r%d' % (tag, k), shard=1, jobs=1,
                                        timeout=single_timeout)[0]
        except Exception as e:
            return k, e
    if retry:
        with concurrent.futures.ThreadPoolExecutor(max_workers=12) as ex:
            for k, r in ex.map(run_one, retry):
                if isinstance(r, Exception):
                    ctx.count('evaluator', 'failed:' + tag)
                    ctx.notes.append('%s expression %d could not be evaluated: %s' % (tag, k, str(r)[-300:]))
                else:
                    out[k] = r
    return out


def export(block, add_reset):
    f = io.StringIO()
    pyrtl.output_to_verilog(f, add_reset=add_reset, block=block)
    return f.getvalue()


def export_tb(block, tracer, add_reset):
    f = io.StringIO()
    pyrtl.output_verilog_testbench(f, simulation_trace=tracer, vcd=None, cmd=None,
                                   add_reset=add_reset, block=block)
    return f.getvalue()


def rename_some(rng, d):
    """give a few wires names that need sanitising (or look like they might)"""
    block = d.block
    cands = sorted(block.wirevector_set, key=lambda w: w.name)
    cands = [w for w in cands if not isinstance(w, pyrtl.Const)]
    k = rng.randint(1, min(5, len(cands)))
    names = rng.sample(WEIRD, k)
    renamed = []
    for w, nm in zip(rng.sample(cands, k), names):
        if isinstance(w, (pyrtl.Input, pyrtl.Output)) and nm.startswith('tmp'):
            continue
        w.name = nm
        renamed.append(nm)
    return renamed


def ident_map(block, wid, mod):
    """identifier -> (wire id, wire): a HINT that the structural tie then verifies.  Kept names map to
    themselves; the wires whose names were not kept are matched with _ver_out_tmp_k in one of the candidate
    numbering orders (sorted by name / set iteration); the first candidate consistent with the declared
    widths and with the operands of every assign in the text is used."""
    declared = mod.declared()
    uses = {}
    for lhs, e in mod.assigns + mod.updates:
        acc = set()
        mod.idents_in(e, acc)
        uses[lhs] = acc
    for lhs, _, a in mod.memrds:
        uses[lhs] = {a}
    first = None
    for prefix_is_generated in (True, False):
        r = _ident_map_try(block, wid, declared, uses, prefix_is_generated)
        if r[2]:
            return r[0], r[1]
        first = first or r
    return first[0], first[1]


def _ident_map_try(block, wid, declared, uses, prefix_is_generated):
    def is_kept(w):
        return w.name in declared and not (prefix_is_generated and w.name.startswith('_ver_out_tmp_'))
    kept = [w for w in block.wirevector_set if is_kept(w)]
    pending = [w for w in block.wirevector_set if not is_kept(w)]
    first = None
    for order in (sorted(pending, key=lambda w: w.name), pending):
        idmap = {w.name: wid[w] for w in kept}
        rev = {w.name: w for w in kept}
        clash = False
        for k, w in enumerate(order):
            nm = '_ver_out_tmp_%d' % k
            clash = clash or nm in idmap
            idmap[nm] = wid[w]
            rev[nm] = w
        if first is None:
            first = (idmap, rev, False)
        if clash:
            continue
        name_of = {id(w): nm for nm, w in rev.items()}
        ok = all(declared.get(nm) == w.bitwidth for nm, w in rev.items())
        for n in block.logic:
            if not ok:
                break
            if n.op != '@' and uses.get(name_of.get(id(n.dests[0]))) != {name_of.get(id(a)) for a in n.args}:
                ok = False
        if ok:
            return idmap, rev, True
    return first


def net_order(block, mod, rev):
    """combinational nets in dependency order, then 'r' nets and '@' nets in the order of the text"""
    nets = list(block)
    comb = [n for n in nets if n.op not in 'r@']
    rnets = {n.dests[0]: n for n in nets if n.op == 'r'}
    out_r = []
    for lhs, _ in mod.updates:
        n = rnets.pop(rev.get(lhs), None)
        if n is not None:
            out_r.append(n)
    out_r += sorted(rnets.values(), key=str)
    wnets = [n for n in nets if n.op == '@']
    out_w = []
    for mid, ws in mod.memwrs:
        for en, a, dta in ws:
            for n in list(wnets):
                if n.op_param[0] == mid and all(x is y for x, y in zip((rev.get(a), rev.get(dta), rev.get(en)), n.args)):
                    wnets = [x for x in wnets if x is not n]
                    out_w.append(n)
                    break
    out_w += sorted(wnets, key=str)
    return comb + out_r + out_w


class TaggedInt(int):
    """an int subclass whose str()/repr() is not a number (like enum members, numpy-free)"""
    def __str__(self):
        return 'TaggedInt<%d>' % int(self)
    __repr__ = __str__


def as_enum(v):
    import enum
    return enum.IntEnum('Lvl', {'V': v}).V


def retype(rng, v):
    """the same number as another numbers.Integral kind, wherever an int is legal"""
    r = rng.random()
    if r < 0.35:
        return v
    if v in (0, 1) and r < 0.75:
        return bool(v)
    return TaggedInt(v) if r < 0.9 else as_enum(v)


def retype_stimulus(rng, regmap, memmap, inputs):
    return ({r: retype(rng, v) for r, v in regmap.items()},
            {m: {a: retype(rng, v) for a, v in c.items()} for m, c in memmap.items()},
            [{k: retype(rng, v) for k, v in step.items()} for step in inputs])


def plain(x):
    return {k: int(v) for k, v in x.items()}


def simulate(cls, d, regmap, memmap, inputs, dflt):
    block = d.block
    tracer = pyrtl.SimulationTrace(wires_to_track='all' if cls is pyrtl.Simulation else None, block=block)
    with contextlib.redirect_stdout(io.StringIO()):
        # Simulation looks a PostSynthBlock's memories up through block.mem_map (keys = the original MemBlocks)
        orig = getattr(d, 'orig_mem', {}) if cls is pyrtl.Simulation else {}
        sim = cls(tracer=tracer, register_value_map=dict(regmap),
                  memory_value_map={orig.get(m, m): dict(c) for m, c in memmap.items()},
                  default_value=dflt, block=block)
        for step in inputs:
            sim.step(dict(step))
    return sim, tracer


def driver_op(block, wname):
    for n in block.logic:
        if n.dests and n.dests[0].name == wname:
            return n.op
    return '?'


def short(nm):
    return nm if len(nm) <= 40 else nm[:20] + '..(%d chars)' % len(nm)


def design_replay(ctx, i, d, extra):
    rep = {'seed': ctx.seed, 'tier': ctx.tier, 'design': i,
           'nets': [short(str(n)) for n in sorted(d.block.logic, key=str)][:80],
           'registers': {short(r.name): r.reset_value for r in d.regs}}
    rep.update(extra)
    return rep


def make_case(ctx, i):
    rng = ctx.sub_rng('design', i)
    wide = 0.08 if (i if isinstance(i, int) else i[1]) % 4 else 0.35
    ops = make_case.ops
    d = gen_designs.make_design(rng, wide_prob=wide, ops_subset=ops,
                                n_ops=rng.randint(3, 14 if ctx.tier == 'quick' else 20))
    renamed = rename_some(rng, d) if rng.random() < 0.4 else []
    ncycles = rng.randint(2, 6 if ctx.tier == 'quick' else 12)
    regmap, memmap, inputs = gen_designs.make_stimulus(rng, d, ncycles)
    return d, renamed, regmap, memmap, inputs


make_case.ops = ['&', '|', '^', '~', '+', '-', '*', '<', '>', '==', '!=', '<=', '>=', 'mux', 'concat', 'slice',
                 'index', 'const', 'trunc', 'zext', 'sext', 'memrd', 'romrd', 'select']


# ---------------------------------------------------------------- module: tie + search

def design_of_block(block):
    """Design record (inputs, registers, memories ...) read off an arbitrary block"""
    d = gen_designs.Design(block)
    byname = lambda w: w.name
    d.inputs = sorted(block.wirevector_subset(pyrtl.Input), key=byname)
    d.outputs = sorted(block.wirevector_subset(pyrtl.Output), key=byname)
    d.regs = sorted(block.wirevector_subset(pyrtl.Register), key=byname)
    mems = sorted({n.op_param[1] for n in block.logic_subset('m@')}, key=lambda m: m.id)
    d.mems = [m for m in mems if not isinstance(m, pyrtl.RomBlock)]
    d.roms = [m for m in mems if isinstance(m, pyrtl.RomBlock)]
    d.ops = [{'s': 'select', 'c': 'concat', 'm': 'memrd', '@': 'memwr', 'x': 'mux'}.get(n.op, n.op)
             for n in block.logic if n.op not in 'wr']
    return d


DERIVATIONS = ['copy_block', 'optimize-copy', 'optimize-inplace', 'synthesize-copy', 'copy-of-copy',
               'synthesize+optimize']


def derive_block(how, d):
    """a block that was NOT built directly through the construction API: the result of a pass / copy"""
    b = d.block
    with pyrtl.set_working_block(b, no_sanity_check=True):
        if how == 'copy_block':
            nb = pyrtl.copy_block(b)
        elif how == 'copy-of-copy':
            nb = pyrtl.copy_block(pyrtl.copy_block(b))
        elif how == 'optimize-copy':
            nb = pyrtl.optimize(update_working_block=False, block=b)
        elif how == 'optimize-inplace':
            pyrtl.optimize(block=b)
            nb = b
        elif how == 'synthesize-copy':
            nb = pyrtl.synthesize(update_working_block=False, block=b)
        else:
            nb = pyrtl.synthesize(update_working_block=False, block=b)
            pyrtl.optimize(block=nb)
    nb.sanity_check()
    nd = design_of_block(nb)
    if isinstance(nb, pyrtl.PostSynthBlock):
        nd.orig_mem = {new: old for old, new in nb.mem_map.items()}
    return nd


WIDE = [33, 34, 40, 48, 63, 64, 65, 96, 127, 128, 129, 130]


def wide_value(rng, w):
    top = (1 << w) - 1
    cands = [1 << 31, (1 << 32) - 1, 1 << 32, (1 << 32) + 1, top, 1 << (w - 1), (1 << (w - 1)) - 1, w, w + 1, 1,
             (1 << 63) % (top + 1), ((1 << 64) - 1) & top]
    return rng.choice(cands) if rng.random() < 0.6 else rng.getrandbits(w)


def wide_const(rng, w=None):
    w = w or rng.choice(WIDE)
    v = wide_value(rng, w)
    k = rng.random()
    if k < 0.6:
        return pyrtl.Const(v, bitwidth=w)
    if k < 0.8:
        return pyrtl.Const("%d'd%d" % (w, v))
    return pyrtl.Const("%d'h%x" % (w, v))


def wide_const_design(rng):
    """a small design with constants of 33..130 bits (boundary values) in every position a constant can take:
    either operand of every binary op, ~, mux select data, concat parts, sliced / indexed, driving an Output
    directly, register next value and reset value, memory write data / address / enable, ROM words"""
    fit = gen_designs.fit
    pyrtl.reset_working_block()
    d = gen_designs.Design(pyrtl.working_block())
    d.inputs = [pyrtl.Input(rng.choice(WIDE + [1, 3, 8]), 'in%d' % k) for k in range(rng.randint(2, 3))]
    pick = lambda: rng.choice(d.inputs)
    bit = lambda: pick()[rng.randrange(2)] if len(d.inputs[0]) > 1 else pick()[0]
    sel = lambda: (lambda w: w[rng.randrange(len(w))])(pick())
    outs = []
    positions = ['binop'] * 4 + ['not', 'mux', 'mux', 'concat', 'slice', 'index', 'direct', 'reg', 'memwr', 'rom',
                                 'narrow-dest', 'const-addr']
    for pos in rng.sample(positions, rng.randint(6, 9)):
        c = wide_const(rng)
        w = len(c)
        a = fit(rng, pick(), w)
        d.ops.append('wide:' + pos)
        if pos == 'binop':
            op = rng.choice(['+', '-', '*', '&', '|', '^', '<', '>', '=='])
            x, y = (c, a) if rng.random() < 0.5 else (a, c)
            if rng.random() < 0.2:
                y = wide_const(rng, w)      # both operands constant
                x = c
            if op == '*' and w > 70:
                op = '-'
            outs.append({'+': lambda: x + y, '-': lambda: x - y, '*': lambda: x * y, '&': lambda: x & y,
                         '|': lambda: x | y, '^': lambda: x ^ y, '<': lambda: x < y, '>': lambda: x > y,
                         '==': lambda: x == y}[op]())
        elif pos == 'not':
            outs.append(~c)
        elif pos == 'mux':
            outs.append(pyrtl.select(sel(), c, wide_const(rng, w) if rng.random() < 0.5 else a))
        elif pos == 'concat':
            outs.append(pyrtl.concat(c, pick()) if rng.random() < 0.5 else pyrtl.concat(pick(), c, wide_const(rng)))
        elif pos == 'slice':
            lo = rng.randrange(w - 1)
            outs.append(c[lo:rng.randint(lo + 1, w)])
        elif pos == 'index':
            outs.append(c[rng.choice([0, 31, 32, w - 1])])
        elif pos == 'direct':
            outs.append(c)
        elif pos == 'narrow-dest':
            outs.append((c + a).truncate(rng.choice([1, 32, 33, w - 1])))
        elif pos == 'reg':
            r = pyrtl.Register(w, 'r%d' % len(d.regs), reset_value=wide_value(rng, w) if rng.random() < 0.8 else None)
            r.next <<= pyrtl.select(sel(), c, r + a)
            d.regs.append(r)
            outs.append(r)
        elif pos == 'memwr':
            m = pyrtl.MemBlock(bitwidth=w, addrwidth=2, name='wmem%d' % len(d.mems), max_read_ports=None,
                               max_write_ports=None, asynchronous=True)
            m[fit(rng, pick(), 2)] <<= pyrtl.MemBlock.EnabledWrite(c, sel())
            outs.append(pyrtl.as_wires(m[fit(rng, pick(), 2)]))
            d.mems.append(m)
        elif pos == 'const-addr':
            m = pyrtl.MemBlock(bitwidth=w, addrwidth=3, name='amem%d' % len(d.mems), max_read_ports=None,
                               max_write_ports=None, asynchronous=True)
            m[pyrtl.Const(rng.randrange(8), bitwidth=3)] <<= pyrtl.MemBlock.EnabledWrite(a, pyrtl.Const(1, bitwidth=1))
            outs.append(pyrtl.as_wires(m[pyrtl.Const(rng.randrange(8), bitwidth=3)]))
            d.mems.append(m)
        elif pos == 'rom':
            vals = [wide_value(rng, w) for _ in range(4)]
            rom = pyrtl.RomBlock(bitwidth=w, addrwidth=2, romdata=vals, name='wrom%d' % len(d.roms),
                                 max_read_ports=None, asynchronous=True)
            outs.append(pyrtl.as_wires(rom[fit(rng, pick(), 2)]))
            d.roms.append(rom)
    for k, w in enumerate(outs + [i for i in d.inputs]):
        o = pyrtl.Output(len(w), 'out%d' % k)
        o <<= w
        d.outputs.append(o)
    return d


# identifiers the exporter and the testbench generate or reserve for themselves
OWN_NAMES = ['clk', 'tb_iter', 'block', '_ver_out_tmp_0', 'mem_N', '_ver_out_tmp_1', 'toplevel', 'tb', 'mem_0',
             '_ver_out_tmp_', 'mem_', 'tb_iter0', 'rst0']
KINDS = ['register', 'wire', 'const', 'input', 'output']


def own_name_design(ctx, rng, k):
    """user wires of every kind named like what the emitted texts declare themselves; design k < 5 has a wire of
    kind k named `rst` (only add_reset=False may accept it), the others carry four other own names"""
    for attempt in range(40):
        d = gen_designs.make_design(rng, wide_prob=0.05, n_ops=rng.randint(5, 10), ops_subset=make_case.ops)
        consts = sorted(d.block.wirevector_subset(pyrtl.Const), key=lambda w: w.name)
        if d.regs and consts:
            break
    plain = sorted((w for w in d.block.wirevector_set if type(w) is pyrtl.WireVector), key=lambda w: w.name)
    by_kind = {'register': list(d.regs), 'wire': plain, 'const': consts, 'input': list(d.inputs),
               'output': list(d.outputs)}
    memid = (d.mems + d.roms)[0].id if (d.mems or d.roms) else 0
    rot = OWN_NAMES[k % len(OWN_NAMES):] + OWN_NAMES[:k % len(OWN_NAMES)]
    names = (['rst'] if k < 5 else []) + rot[:4 if k >= 5 else 3]
    done = []
    for j, nm in enumerate(names):
        kind = KINDS[(k + j) % 5]
        if not by_kind[kind]:
            continue
        w = by_kind[kind].pop(rng.randrange(len(by_kind[kind])))
        w.name = nm.replace('mem_N', 'mem_%d' % memid)
        done.append('%s %s' % (kind, w.name))
    return d, done


def name_classes():
    import keyword
    vk, pk = set(vr.KEYWORDS), set(keyword.kwlist)
    ident = lambda w: re.match(r'[A-Za-z_][A-Za-z0-9_]*$', w) is not None
    return {'verilog-keyword-only': sorted(w for w in vk - pk if ident(w)) + ['clk', 'tb_iter', 'block', 'mem_0'],
            'python-keyword-only': sorted(w for w in pk - vk if ident(w)),
            'keyword-in-both': sorted(vk & pk),
            'legal-in-both': ['plain_name', 'Q', 'x1', '_u'],
            'legal-in-neither': ['a b', '9x', 'p-q']}


CONSUMERS = ['fast', 'vcd', 'verilog', 'testbench']


def run_consumers(ctx, d, order, memmap, inputs):
    """the other name-sanitising consumers of the same design, in the given order, BEFORE the exports under test"""
    block = d.block
    tracer = None
    for c in order:
        try:
            with contextlib.redirect_stdout(io.StringIO()):
                if c == 'fast':
                    simulate(pyrtl.FastSimulation, d, {}, memmap, inputs, 0)
                elif c == 'verilog':
                    export(block, False)
                else:
                    if tracer is None:
                        _, tracer = simulate(pyrtl.Simulation, d, {}, memmap, inputs, 0)
                    if c == 'vcd':
                        tracer.print_vcd(io.StringIO())
                    else:
                        export_tb(block, tracer, False)
            ctx.count('process_history', c + ':ran')
        except (pyrtl.PyrtlError, pyrtl.PyrtlInternalError) as e:
            ctx.count('process_history', '%s:rejected' % c)
        except Exception as e:
            report_once(ctx, 'consumer-crash:%s:%s' % (c, type(e).__name__), '%s raised %s: %s on a sane design' % (
                c, type(e).__name__, str(e)[:200]), design_replay(ctx, 'p', d, {'consumer': c}))


def process_history_design(ctx, rng, k):
    d = gen_designs.make_design(rng, wide_prob=0.05, n_ops=rng.randint(4, 9), ops_subset=make_case.ops)
    cands = sorted((w for w in d.block.wirevector_set if not isinstance(w, pyrtl.Const)), key=lambda w: w.name)
    rng.shuffle(cands)
    done = []
    for cls, pool in sorted(name_classes().items()):
        for _ in range(2 if cls.endswith('only') else 1):
            if not cands:
                break
            w = cands.pop()
            nm = rng.choice([n for n in pool if n not in [x.split('=')[1] for x in done]] or pool)
            if isinstance(w, (pyrtl.Input, pyrtl.Output)) and nm.startswith('tmp'):
                continue
            w.name = nm
            done.append('%s=%s' % (cls, nm))
    order = CONSUMERS[k % 4:] + CONSUMERS[:k % 4]
    if k >= 4:
        order = order[:1] + rng.sample(order[1:], rng.randint(0, 3))
    return d, done, order


def make_variant(ctx, i):
    """('d', k): a derived block (pass / copy);  ('n', k): a design whose memories all carry ONE name (legal:
    memories are told apart by id) and start from different contents;  ('c', k): wide constants in every
    position;  ('r', k): user wires named like the identifiers the emitted texts declare themselves"""
    kind, k = i
    if kind in 'crp':
        rng = ctx.sub_rng('variant', i)
        order = None
        if kind == 'c':
            d, note = wide_const_design(rng), 'wide constants'
        elif kind == 'r':
            d, done = own_name_design(ctx, rng, k)
            note = 'own names: ' + ', '.join(done)
        else:
            d, done, order = process_history_design(ctx, rng, k)
            note = 'earlier in this process, on this design: %s; names: %s' % (' then '.join(order), ', '.join(done))
        regmap, memmap, inputs = gen_designs.make_stimulus(rng, d, rng.randint(2, 4))
        if order:
            run_consumers(ctx, d, order, memmap, inputs)
        return d, note, regmap, memmap, inputs
    for attempt in range(60):
        rng = ctx.sub_rng('variant', i, attempt)
        small = kind == 'd' and DERIVATIONS[k % len(DERIVATIONS)].startswith('synthesize')
        d = gen_designs.make_design(rng, wide_prob=0.0 if small else 0.08, max_width=4 if small else None,
                                    n_ops=rng.randint(3, 7 if small else 12),
                                    ops_subset=[o for o in make_case.ops if not (small and o == '*')])
        if kind == 'n' and len(d.mems) < 2:
            continue
        if kind == 'd' and k % 2 == 0 and not (d.mems or d.roms):
            continue
        break
    note = ''
    if kind == 'n':
        for m in d.mems:
            m.name = 'shared_name'
        note = '%d memories named shared_name' % len(d.mems)
    else:
        how = DERIVATIONS[k % len(DERIVATIONS)]
        d = derive_block(how, d)
        note = how
        if len(d.block.logic) > (260 if ctx.tier == 'quick' else 500):
            return None
    ncycles = rng.randint(2, 5)
    regmap, memmap, inputs = gen_designs.make_stimulus(rng, d, ncycles)
    if kind == 'n':
        for m in d.mems:   # every memory starts from its own non-default contents
            memmap[m] = {a: gen_designs.boundary_value(rng, m.bitwidth) | 1 for a in range(1 << m.addrwidth)
                         if a == 0 or rng.random() < 0.6}
    return d, note, regmap, memmap, inputs


def extend_in_place(rng, d):
    """add logic to the SAME Block object after it has been exported once: a new Input, a new Register, new
    Outputs driven by existing wires, a new read port on an existing memory/ROM, a new written memory"""
    block = d.block
    added = []
    with pyrtl.set_working_block(block, no_sanity_check=True):
        pool = sorted((w for w in block.wirevector_set
                       if not isinstance(w, (pyrtl.Output, pyrtl.Const))), key=lambda w: w.name)
        pick = lambda: rng.choice(pool)
        a, b = pick(), pick()
        hin = pyrtl.Input(rng.choice([1, 2, 3, 5]), 'hist_in0')
        d.inputs.append(hin)
        o0 = pyrtl.Output(name='hist_out0')
        o0 <<= a + b
        added.append('output=a+b')
        hr = pyrtl.Register(len(a), 'hist_r0', reset_value=gen_designs.boundary_value(rng, len(a)))
        hr.next <<= a ^ gen_designs.fit(rng, hin, len(a))
        d.regs.append(hr)
        o1 = pyrtl.Output(name='hist_out1')
        o1 <<= pyrtl.concat(hr, hin)
        added.append('register+input')
        for k, m in enumerate(d.mems + d.roms):
            if rng.random() < 0.7:
                o = pyrtl.Output(name='hist_rd%d' % k)
                o <<= pyrtl.as_wires(m[gen_designs.fit(rng, pick(), m.addrwidth)])
                added.append('read-port')
        if rng.random() < 0.5:
            hm = pyrtl.MemBlock(bitwidth=rng.choice([1, 3, 4]), addrwidth=2, name='hist_mem',
                                max_read_ports=None, max_write_ports=None, asynchronous=True)
            hm[gen_designs.fit(rng, pick(), 2)] <<= pyrtl.MemBlock.EnabledWrite(
                gen_designs.fit(rng, pick(), hm.bitwidth), hin[0])
            o = pyrtl.Output(name='hist_memrd')
            o <<= pyrtl.as_wires(hm[gen_designs.fit(rng, hr, 2)])
            d.mems.append(hm)
            added.append('new-memory')
    d.outputs = sorted(block.wirevector_subset(pyrtl.Output), key=lambda w: w.name)
    return added


def history_prefix(ctx, i, d, memmap, inputs):
    """export the block (module under the three options + a testbench), export it again unchanged and require
    identical text; returns False if the second export differs"""
    block = d.block
    same = True
    try:
        _, tracer = simulate(pyrtl.Simulation, d, {}, memmap, inputs, 0)
        for add_reset, _, mname in MODES:
            t1, t2 = export(block, add_reset), export(block, add_reset)
            b1, b2 = export_tb(block, tracer, add_reset), export_tb(block, tracer, add_reset)
            if t1 != t2 or b1 != b2:
                same = False
                report_once(ctx, 'verilog:unstable-text', 'two exports of the same unchanged block differ (design %r, '
                            'add_reset=%r, %s)' % (i, add_reset, 'module' if t1 != t2 else 'testbench'),
                            design_replay(ctx, i, d, {'add_reset': add_reset, 'history': 'export twice'}))
    except (pyrtl.PyrtlError, pyrtl.PyrtlInternalError) as e:
        ctx.count('export', 'rejected:' + str(e)[:40])
    ctx.count('history', 'same-text' if same else 'text-differs')
    ctx.case(('hist-same', i), nontrivial=True)
    return same


def module_cases(ctx, n, n_hist, n_derived=0, n_samename=0, n_wide=0, n_own=0, n_proc=0):
    """n fresh designs exported once; n_hist designs with a history: exported (module + testbench, twice,
    identical text required), EXTENDED IN PLACE, and only then put through the same tie + search; n_derived
    blocks produced by copy_block / optimize / synthesize; n_samename designs whose memories share a name"""
    exprs, meta, expr_of = [], [], {}
    san_exprs, san_meta = [], []
    tb_jobs = []
    plan = [(i, False) for i in range(n)] + [(('h', k), True) for k in range(n_hist)] + \
           [(('d', k), False) for k in range(n_derived)] + [(('n', k), False) for k in range(n_samename)] + \
           [(('c', k), False) for k in range(n_wide)] + [(('r', k), False) for k in range(n_own)] + \
           [(('p', k), False) for k in range(n_proc)]
    for i, hist in plan:
        try:
            variant = ''
            if isinstance(i, tuple) and i[0] in 'dncrp':
                try:
                    made = make_variant(ctx, i)
                except (pyrtl.PyrtlError, pyrtl.PyrtlInternalError) as e:
                    ctx.count('variants', 'rejected:%s:%s:%s' % (i[0], i[1], type(e).__name__))
                    continue
                if made is None:
                    ctx.count('variants', 'too-large')
                    continue
                d, variant, regmap, memmap, inputs = made
                renamed = []
                ctx.count('variants', variant if i[0] == 'd' else {'n': 'same-name-memories', 'c': 'wide-constants',
                                                                   'r': 'own-names', 'p': 'process-history'}[i[0]])
            else:
                d, renamed, regmap, memmap, inputs = make_case(ctx, i)
            history = []
            if hist:
                rng = ctx.sub_rng('history', i)
                history_prefix(ctx, i, d, memmap, inputs)
                try:
                    history = extend_in_place(rng, d)
                except (pyrtl.PyrtlError, pyrtl.PyrtlInternalError) as e:
                    ctx.count('history', 'extension-rejected:' + type(e).__name__)
                    continue
                regmap, memmap, inputs = gen_designs.make_stimulus(rng, d, len(inputs))
                for h in history:
                    ctx.count('history', h)
            block = d.block
            wid0 = nlx.Dump(block).wid
            try:
                sim, tracer = simulate(pyrtl.Simulation, d, {}, memmap, inputs, 0)
            except pyrtl.PyrtlError as e:
                ctx.model_mismatch('Simulation rejected an API-built design: %s' % e, {'design': i})
                continue
            dump = None
            # quick tier: the continuous assigns are the same text under the three options, so only one (seeded)
            # option replays the whole stimulus; the other two replay its first two cycles
            full_mode = ctx.sub_rng('fullmode', i).randrange(3) if ctx.tier == 'quick' else None
            for mode_k, (add_reset, coq_mode, mname) in enumerate(MODES):
                ins_mode = inputs if full_mode in (None, mode_k) else inputs[:2]
                try:
                    text = export(block, add_reset)
                except (pyrtl.PyrtlError, pyrtl.PyrtlInternalError) as e:
                    ctx.count('export', 'rejected:' + str(e)[:40])
                    continue
                except Exception as e:   # not a PyRTL rejection: the exporter crashed on a sane block
                    report_once(ctx, 'verilog:export-crash:%s' % type(e).__name__,
                                'output_to_verilog raised %s (%s) on a block that passes sanity_check (design %r%s, '
                                'add_reset=%r)' % (type(e).__name__, str(e)[:200], i, ' ' + variant if variant else '',
                                                   add_reset),
                                design_replay(ctx, i, d, {'add_reset': add_reset, 'variant': variant}))
                    continue
                rep = design_replay(ctx, i, d, {'add_reset': add_reset, 'renamed': [short(x) for x in renamed],
                                               'inputs': [{short(k): v for k, v in s.items()} for s in inputs]})
                if variant:
                    rep['variant'] = variant
                    rep['text'] = text[:3000]
                if hist:
                    rep['history'] = ('exported module+testbench under all options, then extended in place with %s, '
                                      'then exported again (this text)' % history)
                    rep['text'] = text[:3000]
                try:
                    mod = vr.parse_module(text, reset_port=bool(add_reset))
                    idmap, rev = ident_map(block, wid0, mod)
                except vr.ReaderError as e:
                    sig = 'verilog:unreadable:' + re.sub(r'[^a-z ]', '', str(e).split(':')[0].lower())[:40].strip()
                    if hist:
                        sig = 'verilog:stale-after-extension'
                    report_once(ctx, sig, 'emitted module is not in the Verilog-2001 subset / not legal: %s%s' % (
                        e, ' (second export of a block extended after its first export)' if hist else ''),
                                dict(rep, text=text[:3000]))
                    continue
                except Exception as e:   # the reader itself must never take the run down
                    report_once(ctx, 'verilog:unreadable:reader gave up', 'the reader could not process the emitted module: '
                                '%s: %s' % (type(e).__name__, str(e)[:200]), dict(rep, text=text[:3000]))
                    continue
                stale = set(w.name for w in block.wirevector_set) - set(rev[nm].name for nm in rev)
                if hist and (stale or len(mod.declared()) != len(block.wirevector_set)):
                    report_once(ctx, 'verilog:stale-after-extension',
                                'second export of a block extended in place after its first export does not declare the '
                                'wires added since: %s (design %r, add_reset=%r)' % (
                                    sorted(short(x) for x in stale)[:8], i, add_reset), rep)
                    continue
                if dump is None:
                    dump = nlx.Dump(block, net_order=net_order(block, mod, rev))
                    probes = [(m.id, a) for m in d.mems for a in range(1 << m.addrwidth)]
                    order = [dump.wid[w] for w in dump.wires if isinstance(w, pyrtl.Const)] + \
                            [dump.wid[n.dests[0]] for n in dump.nets if n.op not in 'r@']
                    # ONE expression per design: netlist, stimulus and (if the texts agree field by field) the module
                    # are written once and shared by the reference run and the runs under each add_reset option
                    mod0, runs = None, []
                    # (a beta-redex, not let-in: Coq elaborates `let x := <big term> in` pathologically slowly)
                    design_args = [dump.coq(), nlx.zlist(order), dump.memmap(memmap), dump.inputs(inputs),
                                   nlx.pairs(probes)]
                try:
                    if mod0 is None:
                        mod0, m0term = mod, mod.coq(idmap)
                        mterm = 'm0'
                    elif mod.same_but_reset(mod0):
                        mterm = '(set_mode m0 %s %s)' % mod.coq(idmap, only_mode_resets=True)
                    else:
                        mterm = mod.coq(idmap)
                except KeyError as e:
                    ctx.model_mismatch('identifier %s of the emitted text cannot be attributed to a wire' % e, rep)
                    continue
                runs.append('verilog_case nl %s %s order mm %s pr' % (
                    coq_mode, mterm, 'ins' if len(ins_mode) == len(inputs) else '(firstn %d ins)' % len(ins_mode)))
                names = dump.names()
                meta.append(dict(i=i, mode=mname, add_reset=add_reset, names=names, rep=rep, block=block, hist=hist, text=text,
                                 pos=len(runs),
                                 impl_trace=[[tracer.trace[nm][t] for nm in names] for t in range(len(ins_mode))],
                                 full=len(ins_mode) == len(inputs),
                                 impl_mem=[sim.memvalue[mid].get(a, 0) for (mid, a) in probes],
                                 outputs=[k for k, w in enumerate(dump.wires) if isinstance(w, pyrtl.Output)],
                                 topo={dump.wid[n.dests[0]] - 1: pos for pos, n in enumerate(dump.nets) if n.dests},
                                 regs=[(nm, getattr(rev[nm], 'reset_value', None) or 0) for nm, _ in mod.regs],
                                 ncyc=len(ins_mode), mod=mod, d=d))
                for _, e in mod.assigns + mod.resets:
                    if e[0] == 'dec':
                        ctx.count('unsized_literals', '>=2^31' if e[1] >= (1 << 31) else '<2^31')
            if dump is not None and runs:
                exprs.append('(fun nl order mm ins pr m0 => [spec_case nl 0 [] mm ins pr; %s]) %s' % (
                    '; '.join(runs), ' '.join(design_args + [m0term])))
                expr_of[i] = len(exprs) - 1
            if dump is not None:
                for o in d.ops:
                    ctx.count('ops', o)
                for w in dump.wires:
                    ctx.count('widths', w.bitwidth if w.bitwidth <= 8 else ('9-64' if w.bitwidth <= 64 else '65+'))
                ctx.count('registers', len(d.regs))
                ctx.count('memories', len(d.mems))
                ctx.count('roms', len(d.roms))
                ctx.count('renamed_wires', len(renamed))
                # sanitizer tie: the identifiers the real emitter used vs the Coq model on the same names
                ident_of = {id(w): nm for nm, w in rev.items()}
                san_exprs.append('sanitizer_case [%s]' % '; '.join(
                    nlx.zlist(list(w.name.encode('utf-8'))) for w in dump.wires))
                san_meta.append((i, [(w.name, ident_of.get(id(w))) for w in dump.wires]))
                small = len(dump.wires) <= (90 if isinstance(i, tuple) else 60)
                if small and (hist or isinstance(i, tuple) or i < (20 if ctx.tier == 'quick' else 80)):
                    tb_jobs.append((i, d, idmap, dump, regmap, memmap, inputs))
        except Exception as e:   # one case must never abort the run
            ctx.model_mismatch('harness error (module case): %s: %s' % (type(e).__name__, str(e)[:300]), {'case': repr(i)})
    shard = 12 if ctx.tier == 'quick' else 40
    res = safe_eval(ctx, exprs, IMPORTS, 'c05ver', 4 if ctx.tier == 'quick' else 6)   # small shards: a whole shard stays
    # far below its time limit even on a heavily loaded machine (thorough designs cost up to ~10 s of coqc each)
    for c in meta:
        R = res[expr_of[c['i']]] if c['i'] in expr_of else None
        if R is None:
            ctx.model_mismatch('the Coq evaluator failed or timed out on design %r add_reset=%r' % (
                c['i'], c['add_reset']), dict(c['rep'], text=c.get('text', '')[:3000]))
            continue
        spec_r, r = R[0], R[c['pos']]
        try:
            judge_module(ctx, c, r, spec_r)
        except Exception as e:   # never let one case take the run down
            ctx.model_mismatch('harness error while judging design %r: %s: %s' % (c['i'], type(e).__name__, e), c['rep'])
    san = safe_eval(ctx, san_exprs, IMPORTS_SAN, 'c05san', shard)
    for (i, pairs), r in zip(san_meta, san):
        if r is None:   # Gen/C05Sanitizer.v untranslatable or the model no longer builds
            ctx.model_mismatch('sanitizer model could not be evaluated on design %r' % (i,), {})
            continue
        model, flags = r[:-1], r[-1]
        bad = []
        for (name, used), m, ok in zip(pairs, model, flags):
            predicted = name if m == [] else bytes(m).decode('utf-8', 'replace')
            ctx.count('sanitizer', 'kept' if ok else 'replaced')
            if predicted != used:
                bad.append((short(name), used, short(predicted)))
        ctx.case(('san', i, tuple(n for n, _ in pairs)), nontrivial=any(f == 0 for f in flags))
        if bad:
            ctx.model_mismatch('IO/VerilogSanitizer.v predicts other identifiers than the emitter used (design %r): '
                               '(name, emitted, model) = %s' % (i, bad[:5]), {'design': i, 'differences': bad[:20]})
    return tb_jobs


def judge_module(ctx, c, r, spec):
    checks, rst_row, vmem, rows = r[0], r[1], r[2], r[3:]
    rep = c['rep']
    spec_mem, spec_trace = spec[1], spec[2:]
    if spec[0][0] != 1:
        ctx.model_mismatch('wfb is false on an API-built design', rep)
    bad_checks = [k for k, b in enumerate(checks) if b != 1]
    if bad_checks:
        ctx.model_mismatch('emitted text does not have the structure IO/VerilogEmit.v predicts '
                           '(emit_checks %s false), design %r add_reset=%r' % (bad_checks, c['i'], c['add_reset']),
                           dict(rep, failing_checks=bad_checks))
    ctx.count('structural_tie', 'ok' if not bad_checks else 'broken')
    if any(row[0] != 1 for row in rows):
        ctx.model_mismatch('continuous assignments do not settle (combinational loop / double driver in the text)', rep)
    vtrace = [row[1:] for row in rows]
    nw = len(c['names'])
    diffs = [[k for k in range(nw) if not (vtrace[t][k] == c['impl_trace'][t][k] == spec_trace[t][k])]
             for t in range(c['ncyc'])]
    out_differs = any(k in c['outputs'] for dt in diffs for k in dt)
    mem_differs = c['full'] and not (vmem == c['impl_mem'] == spec_mem)
    varying = any(len({row[k] for row in c['impl_trace']}) > 1 for k in c['outputs'])
    key = (c['i'], c['mode'], hashlib.sha1(repr(c['impl_trace']).encode()).hexdigest()[:12])
    sample = None
    if c['i'] in (0, 1, ('h', 0)) and c['mode'] == 'sync':
        sample = {'design': c['i'], 'add_reset': c['add_reset'], 'assigns': [
            '%s = %s' % (short(l), short(repr(e))) for l, e in c['mod'].assigns if e[0] != 'dec'][:6],
            'always': {'mode': c['mod'].mode, 'resets': [(short(l), e[1]) for l, e in c['mod'].resets[:3]]},
            'outputs_cycle0': {short(c['names'][k]): c['impl_trace'][0][k] for k in c['outputs'][:4]}}
    ctx.case(key, nontrivial=varying, sample=sample)
    ctx.count('cycles', c['ncyc'])
    if any(diffs):
        t = next(t for t in range(c['ncyc']) if diffs[t])
        # the culprit is the differing wire that comes first in dependency order
        k = min(diffs[t], key=lambda k: c['topo'].get(k, -1))
        nm = c['names'][k]
        op = driver_op(c['block'], nm)
        what = ('design %r add_reset=%r cycle %d wire %s (driven by op %r): Verilog semantics gives %d, '
                'pyrtl.Simulation %d, Sem %d' % (c['i'], c['add_reset'], t, short(nm), op, vtrace[t][k],
                                                 c['impl_trace'][t][k], spec_trace[t][k]))
        rep2 = dict(rep, first_difference={'cycle': t, 'wire': short(nm), 'verilog': vtrace[t][k],
                                           'simulation': c['impl_trace'][t][k], 'spec': spec_trace[t][k]})
        if all(vtrace[tt][kk] == spec_trace[tt][kk] for tt in range(c['ncyc']) for kk in diffs[tt]):
            # Simulation itself is off (C01's business); the emitted text agrees with the spec
            ctx.count('notes', 'simulation-differs-from-spec')
        elif out_differs:
            report_once(ctx, 'verilog-vs-sim:op=%s' % op, what, rep2)
        else:
            ctx.model_mismatch('an internal wire differs under the Verilog semantics but no Output does: ' + what, rep2)
    elif mem_differs:
        report_once(ctx, 'verilog-vs-sim:memory', 'final memory contents differ: verilog %s simulation %s spec %s' % (
            vmem, c['impl_mem'], spec_mem), rep)
    if c['mode'] != 'none':
        got = rst_row
        want = [v for _, v in c['regs']]
        if got != want:
            report_once(ctx, 'verilog:reset-value', 'one edge with rst high loads %s, reset values are %s (design %r, %s)' % (
                got, want, c['i'], c['mode']), rep)


# ---------------------------------------------------------------- testbench

SIMS = [('sim', pyrtl.Simulation), ('fast', pyrtl.FastSimulation), ('compiled', pyrtl.CompiledSimulation)]


def testbench_cases(ctx, jobs):
    exprs, meta = [], []
    for (i, d, idmap, dump, regmap, memmap, inputs) in jobs:
        try:
            rng = ctx.sub_rng('tb', i)
            block = d.block
            for sname, cls in SIMS:
                if sname == 'compiled' and (isinstance(i, tuple) or i >= (8 if ctx.tier == 'quick' else 30)):
                    continue
                dflt = 0 if (sname == 'compiled' or rng.random() < 0.7) else 1
                add_reset, _, mname = MODES[rng.randrange(3)]
                # the stimulus reaches the simulator as mixed Integral kinds (bool, int subclass, IntEnum);
                # the reference side (Coq) gets the same numbers as plain ints
                t_regmap, t_memmap, t_inputs = retype_stimulus(rng, regmap, memmap, inputs)
                try:
                    sim, tracer = simulate(cls, d, t_regmap, t_memmap, t_inputs, dflt)
                    ctx.count('value_kinds', 'typed-stimulus-accepted:' + sname)
                except Exception as e:
                    ctx.count('testbench', 'simulator-error:%s:%s' % (sname, type(e).__name__))
                    try:
                        sim, tracer = simulate(cls, d, regmap, memmap, inputs, dflt)
                    except Exception as e2:
                        ctx.count('testbench', 'simulator-error-plain:%s:%s' % (sname, type(e2).__name__))
                        continue
                rep = design_replay(ctx, i, d, {
                    'simulator': sname, 'add_reset': add_reset, 'default_value': dflt,
                    'register_value_map': {short(r.name): v for r, v in regmap.items()},
                    'memory_value_map': {'mem_%d (%s)' % (m.id, m.name): c for m, c in memmap.items()},
                    'inputs': [{short(k): v for k, v in s.items()} for s in inputs]})
                try:
                    text = export_tb(block, tracer, add_reset)
                except (pyrtl.PyrtlError, pyrtl.PyrtlInternalError) as e:
                    ctx.count('testbench', 'rejected:' + str(e)[:40])
                    continue
                except Exception as e:
                    report_once(ctx, 'testbench:export-error:%s' % sname,
                                'output_verilog_testbench raised %s: %s' % (type(e).__name__, e), rep)
                    continue
                try:
                    tb = vr.parse_testbench(text, reset_port=bool(add_reset))
                    term = tb.coq(idmap)
                except (vr.ReaderError, KeyError) as e:
                    report_once(ctx, 'testbench:unreadable', 'testbench text outside the subset / illegal: %s' % e,
                                dict(rep, text=text[:2000]))
                    continue
                traced = [plain({nm: tracer.trace[nm][t] for nm in inputs[0]}) for t in range(len(inputs))]
                exprs.append('tb_case %s %d %s %s %s %s' % (dump.coq(), dflt, dump.regmap(regmap),
                                                           dump.memmap(memmap), dump.inputs(traced), term))
                # what the simulation started from (for the message only; the verdict is Coq's)
                want_regs = {r.name: regmap.get(r, r.reset_value if r.reset_value is not None else dflt)
                             for r in d.regs}
                meta.append(dict(i=i, sim=sname, rep=rep, tb=tb, want_regs=want_regs, d=d, memmap=memmap,
                                 dflt=dflt, traced=traced, inputs=inputs,
                                 nontrivial=bool(regmap) or any(memmap.values())))
                romids = {m.id for m in d.roms}
                hit = [t for t in tb.init if t[0] in ('fill', 'mem') and t[1] in romids]
                if hit:
                    report_once(ctx, 'testbench:rom-overwritten',
                                'the testbench initial block assigns ROM mem_%d (%s) although the module\'s own initial '
                                'block holds the ROM data: the two initial blocks race and the ROM may read %d' % (
                                    hit[0][1], hit[0], hit[0][-1]), dict(rep, text=text[:1500]), limit=1)
        except Exception as e:   # one case must never abort the run
            ctx.model_mismatch('harness error (testbench case): %s: %s' % (type(e).__name__, str(e)[:300]), {'case': repr(i)})
    res = safe_eval(ctx, exprs, IMPORTS, 'c05tb', 10 if ctx.tier == 'quick' else 30)
    for c, r in zip(meta, res):
        if r is None:
            ctx.model_mismatch('the Coq evaluator failed on the testbench of design %r (%s)' % (c['i'], c['sim']), c['rep'])
            continue
        regs_ok, mems_ok, drives_ok = r
        ctx.case(('tb', c['i'], c['sim']), nontrivial=c['nontrivial'],
                 sample={'testbench_of': c['sim'], 'design': c['i'], 'reg_init': c['tb'].reg_init[:3],
                         'cycle0': c['tb'].cycles[0][:2] if c['tb'].cycles else []} if c['i'] == 0 else None)
        ctx.count('testbench', '%s:%s' % (c['sim'], 'ok' if regs_ok and mems_ok and drives_ok else 'differs'))
        if c['traced'] != c['inputs']:
            report_once(ctx, 'trace:inputs:%s' % c['sim'], 'traced inputs differ from the inputs given', c['rep'])
        if not drives_ok:
            report_once(ctx, 'testbench:inputs:%s' % c['sim'],
                        'per-cycle input drives differ from the traced inputs', dict(c['rep'], cycles=c['tb'].cycles[:3]))
        if not regs_ok or not mems_ok:
            got_regs = dict(c['tb'].reg_init)
            what = []
            if not regs_ok:
                what.append('registers: testbench %s, simulation started from %s' % (
                    {short(k): v for k, v in got_regs.items()}, {short(k): v for k, v in c['want_regs'].items()}))
            if not mems_ok:
                what.append('memories: testbench fill %s + words %s, simulation started from %s (default %d)' % (
                    c['tb'].mem_fill, c['tb'].mem_init[:8], {m.id: cc for m, cc in c['memmap'].items()}, c['dflt']))
            report_once(ctx, 'testbench:init-lost:%s' % c['sim'],
                        'testbench from a %s trace does not reconstruct the initial state; %s' % (
                            c['sim'], '; '.join(what)), c['rep'])


# ---------------------------------------------------------------- targeted name checks

def targeted(ctx):
    # every IEEE 1364-2001 keyword as the name of an Input (finite table, swept completely)
    bad = []
    for kw in sorted(vr.KEYWORDS):
        pyrtl.reset_working_block()
        a = pyrtl.Input(2, kw)
        o = pyrtl.Output(2, 'o')
        o <<= ~a
        try:
            text = export(pyrtl.working_block(), False)
        except pyrtl.PyrtlError:
            ctx.count('keywords', 'rejected')
            continue
        try:
            vr.parse_module(text)
            ctx.count('keywords', 'sanitised')
        except vr.ReaderError:
            bad.append(kw)
            ctx.count('keywords', 'emitted-verbatim')
        ctx.case(('kw', kw), nontrivial=True)
    if bad:
        ctx.spec_violation('verilog:keyword-not-sanitised',
                           'wires named after the Verilog-2001 keywords %s are emitted verbatim (the reserved-word '
                           'table of _VerilogSanitizer misspells them)' % bad,
                           {'keywords': bad, 'repro': "a = pyrtl.Input(2, %r); o = pyrtl.Output(2, 'o'); o <<= ~a; "
                                                      "pyrtl.output_to_verilog(sys.stdout)" % bad[0]})
    # a legal user name equal to a name the sanitizer generates
    pyrtl.reset_working_block()
    a = pyrtl.Input(2, '_ver_out_tmp_0')
    b = pyrtl.Input(2, 'a b')
    o = pyrtl.Output(3, 'o')
    o <<= a + b
    collide(ctx, 'verilog:name-collision:sanitizer-prefix',
            "Input '_ver_out_tmp_0' and Input 'a b' (sanitised to _ver_out_tmp_0)")
    # Python's `$` accepts a trailing newline: 'a' and 'a\\n' would both be written as identifier a
    pyrtl.reset_working_block()
    a = pyrtl.Input(2, 'a')
    b = pyrtl.Input(2, 'a\n')
    o = pyrtl.Output(3, 'o')
    o <<= a + b
    collide(ctx, 'verilog:name-trailing-newline', "Input 'a' and Input 'a\\n' (kept verbatim: re.match with $)")
    # a wire named like the memory array
    pyrtl.reset_working_block()
    m = pyrtl.MemBlock(4, 2, 'm', asynchronous=True)
    a = pyrtl.Input(2, 'mem_%d' % m.id)
    o = pyrtl.Output(4, 'o')
    o <<= m[a]
    collide(ctx, 'verilog:name-collision:mem', "Input 'mem_<id>' and the array of MemBlock <id>")
    # inputs named like the testbench's own identifiers
    pyrtl.reset_working_block()
    a = pyrtl.Input(2, 'tb_iter')
    o = pyrtl.Output(2, 'block')
    o <<= ~a
    tracer = pyrtl.SimulationTrace()
    sim = pyrtl.Simulation(tracer=tracer)
    sim.step({'tb_iter': 1})
    ctx.case(('collide', 'tb'), nontrivial=True)
    try:
        vr.parse_testbench(export_tb(pyrtl.working_block(), tracer, False))
    except vr.ReaderError as e:
        ctx.spec_violation('testbench:name-collision',
                           "Input 'tb_iter' / Output 'block' collide with the testbench's own integer/instance: %s" % e,
                           {'repro': "a = pyrtl.Input(2, 'tb_iter'); o = pyrtl.Output(2, 'block'); o <<= ~a; simulate; "
                                     "output_verilog_testbench"})


def collide(ctx, sig, what):
    ctx.case(('collide', sig), nontrivial=True)
    try:
        text = export(pyrtl.working_block(), False)
    except pyrtl.PyrtlError:
        return   # rejected: fine
    try:
        vr.parse_module(text)
    except vr.ReaderError as e:
        ctx.spec_violation(sig, '%s: accepted by output_to_verilog but the module is illegal (%s)' % (what, e),
                           {'text': text[:1500]})


def run(ctx):
    _reported.clear()
    sizes = (24, 6, 12, 6, 8, 10, 8) if ctx.tier == "quick" else (500, 40, 80, 30, 40, 40, 40)
    tb_jobs = module_cases(ctx, *sizes)
    testbench_cases(ctx, tb_jobs)
    try:
        targeted(ctx)
    except Exception as e:
        ctx.model_mismatch('harness error (targeted name cases): %s: %s' % (type(e).__name__, str(e)[:300]), {})


def replay(ctx, data):
    print(data)
    run(ctx)
