"""C20: exports are deterministic across SCHEDULES (hash seed x allocation order)
and export / visualisation / analysis calls are read-only w.r.t. behaviour.

 (a) tie of the ordering / sanitizer model (coq IO/NatSort.v, IO/Determinism.v, Gen/C20Src.v):
     thousands of generated names through the real _natural_sort_key, _trace_sort_key,
     _name_sorted, _VerilogSanitizer vs the Coq functions (and vs an independent Python
     specification of "natural order" / "Verilog identifier");
 (b) structural tie of the emitters: for (design, schedule) pairs the sequence of identifiers
     the real output_to_verilog / output_verilog_testbench / print_trace / print_vcd text
     mentions, section by section, must be what the Coq `export_text` / `trace_text` /
     `vcd_text` model computes from the observed set-iteration order;
 (c) search: each design is built in fresh subprocesses under PYTHONHASHSEED x allocation
     noise (py/c20_worker.py) and the sha256 of every exporter's text and of the simulation
     trace are compared across configurations; passes are compared behaviourally;
 (d) read-only: structural fingerprint + Output trace before/after each export /
     visualisation / analysis call."""
import collections
import concurrent.futures
import hashlib
import io
import json
import os
import random
import re
import subprocess
import sys

import pyrtl
from pyrtl import importexport as ie
from pyrtl import simulation as psim

HERE = os.path.dirname(os.path.abspath(__file__))
sys.path.insert(0, os.path.dirname(HERE))
import c20_worker as W  # noqa: E402   (name pools + specification predicates only)

RULE = ('schedules: each seeded API-built design (gen_designs + renaming through the public name property from pools '
        'of plain names / names needing Verilog sanitising / leading-zero families x1,x01,x001 / two write ports '
        'sharing one enable / wire names that look like generated identifiers / conditional_assignment blocks with defaults= for none, one or several targets; plus designs built by input_from_blif (generated BLIF with 2-3 multi-bit vectors, latches) and input_from_iscas_bench) is rebuilt in fresh subprocesses under PYTHONHASHSEED x allocation-noise configurations; '
        'sha256 of output_to_verilog, output_verilog_testbench, print_vcd, print_trace text and of the Simulation and '
        'FastSimulation traces compared across configurations (address-space randomisation off, so a configuration replays); 9 pass pipelines compared by Output traces; 23 export/analysis calls '
        'checked read-only by fingerprint + Output trace under Simulation and FastSimulation (ROM-only designs with list / dict / function romdata: every ROM address swept, output_to_firrtl called with rom_blocks=); designs of class samename carry distinct memories with EQUAL names (build_new_roms clones, duplicate MemBlock / RomBlock names). A case = (design, configuration, exporter|pipeline|call); '
        'distinct by (design, observed wirevector_set order, exporter); non-trivial when the design has >= 8 wires '
        'and the configuration produced a set order not seen before for that design. Model tie: generated names '
        '(digit runs with/without leading zeros, reserved words, punctuation, 1024/1025-char names) through the real '
        'key functions / sanitizer vs Coq, the identifier sequence of each real Verilog / testbench text vs the Coq emitter '
        'model, and the real print_trace / print_vcd text vs IO/DeterminismTrace.v BYTE FOR BYTE (trace dict in the '
        'order the schedule produced it, all bases / compact / include_clock options).')
IMPORTS = ('From Coq Require Import String Ascii List NArith ZArith Bool.\n'
           'From PyRTL Require Import IO.NatSort IO.Determinism Gen.C20Src IO.DeterminismHarness.\n'
           'Import ListNotations.\nOpen Scope Z_scope.\n')
COQ_TARGETS = ['theories/IO/DeterminismHarness.vo', 'theories/IO/DeterminismTraceHarness.vo']
ASSUMPTIONS = ['names are ASCII (Python \\d / str.isdigit on non-ASCII digits is out of the model)',
               'which set orders CPython realises is explored (hash seeds x allocator perturbation x exporter call '
               'order), not proved; the theorems quantify over ALL orders',
               'print_trace / print_vcd: no abstraction left -- the theorems C20_print_trace_bytes_perm_invariant / '
               'C20_print_vcd_bytes_perm_invariant are about the BYTES (IO/DeterminismTrace.v), and the real text is '
               'compared with them byte for byte on every sampled (design, schedule)',
               'output_to_verilog / output_verilog_testbench are modelled as "sanitize in presentation order, then per '
               'section filter / sort by key / render"; their line renderers are abstract in the theorems and tied '
               'through the identifier sequence of the real text',
               'output_to_verilog cannot render nand nets: exported designs avoid the nand op',
               'pass pipelines and read-only calls are checked behaviourally only (their correctness proofs belong to '
               'C03/C04/C09)']
TRUSTED = ['IO/NatSort.v natural_key / lex_cmp / sort_by (hand model of re.split + int + list comparison + sorted), '
           'IO/Determinism.v sanitize_from / export_text (hand model of the sanitizer and of the Verilog emitters\' '
           'ordering skeleton); IO/Vcd.v print_trace / print_vcd row layout (C15\'s hand model, here tied byte for byte); '
           'py/genfrag_C20.py shape recognition; c20_worker.needs_sanitising / strip_zeros / duplicate_identifiers as '
           'the specification of "needs sanitising" / "ties under natural order" / "declared twice"']

def _no_aslr():
    import platform
    import shutil
    exe = shutil.which('setarch')
    if not exe:
        return []
    cmd = [exe, platform.machine(), '-R']
    try:
        if subprocess.run(cmd + ['true'], capture_output=True, timeout=20).returncode == 0:
            return cmd
    except Exception:
        pass
    return []


NO_ASLR = _no_aslr()
BATCH_PREFIX = {}    # design key -> the designs built before it (and itself) in its worker process
EXPORTERS = ['output_to_verilog', 'output_verilog_testbench', 'print_vcd', 'print_trace', 'simulation_trace',
             'fastsim_trace',
             # the same exporters on a copy_block() copy of the design
             'copy:output_to_verilog', 'copy:output_verilog_testbench', 'copy:print_vcd', 'copy:print_trace',
             'copy:simulation_trace',
             # on a CompiledSimulation trace (designs flagged 'compiled')
             'compiled:print_vcd', 'compiled:print_trace', 'compiled:output_verilog_testbench',
             'compiled:simulation_trace']
KINDCODE = {'Input': 0, 'Output': 1, 'Register': 2, 'Const': 3}


# ------------------------------------------------------------------ helpers

def codes(s):
    return '[%s]' % '; '.join(str(ord(c)) for c in s)


def clist(items):
    return '[%s]' % '; '.join(items)


def decode(zs):
    return ''.join(chr(z) for z in zs)


def enc_real_key(k):
    """encode what the real key function returned the way Gen/C20Src.v's *_codes does"""
    raw = None
    if isinstance(k, tuple):
        k, raw = k
    out = []
    for e in k:
        if isinstance(e, int):
            out.append([1, e])
        else:
            out.append([0] + [ord(c) for c in e])
    if raw is not None:
        out.append([2] + [ord(c) for c in raw])
    return out


def spec_natural_cmp_key(name):
    """independent specification of natural order: maximal digit runs compare as integers,
    everything else character by character; returned as a canonical tuple"""
    out = []
    i = 0
    n = len(name)
    while i < n:
        j = i
        if name[i] in '0123456789':
            while j < n and name[j] in '0123456789':
                j += 1
            out.append((1, int(name[i:j]), ''))
        else:
            while j < n and name[j] not in '0123456789':
                j += 1
            out.append((0, 0, name[i:j]))
        i = j
    return tuple(out)


def gen_names(rng, n):
    alpha = 'abcxyzXYZ_$'
    punct = " .-'[]+#~"
    out = []
    specials = ['', 'clk', 'rst', 'x', '0', '00', '007', '7', 'a0', 'a00', 'tmp4', 'tmp18', 'tmp018',
                'x' * 1024, 'y' * 1025, 'wire', 'reg', 'module', 'always', 'xor', 'Wire', 'abc\n', 'ab c\n',
                'abc\n\n', '\n', '_', '$', '_$', '9z', 'const_0_3\'d5', 'a1b2', 'a01b2', 'a1b02', 'a1b2c',
                'data', 'DATA', 'Data', 'q1', 'Q1', 'q01', 'Q01', 'x_7a', 'X_7A', 'x_07A']
    out.extend(specials)
    reserved = sorted(W._RESERVED)
    while len(out) < n:
        r = rng.random()
        if r < 0.08:
            out.append(rng.choice(reserved))
            continue
        parts = []
        for _ in range(rng.randint(1, 4)):
            k = rng.random()
            if k < 0.45:
                parts.append(''.join(rng.choice(alpha) for _ in range(rng.randint(1, 3))))
            elif k < 0.85:
                d = str(rng.choice([0, 1, 2, 7, 9, 10, 12, 99, 100, 123, 2 ** 40 + 5]))
                parts.append('0' * rng.choice([0, 0, 0, 1, 2, 3]) + d)
            else:
                parts.append(rng.choice(punct))
        out.append(''.join(parts))
    return out


# ------------------------------------------------------------------ (a) model tie on names

def tie_names(ctx):
    n = 800 if ctx.tier == 'quick' else 12000
    rng = ctx.sub_rng('names')
    names = gen_names(rng, n)
    exprs = []
    meta = []
    CHK = 40
    for k in range(0, len(names), CHK):
        chunk = names[k:k + CHK]
        exprs.append('map natkey_case %s' % clist(codes(x) for x in chunk))
        meta.append(('natkey', chunk))
        exprs.append('map tracekey_case %s' % clist(codes(x) for x in chunk))
        meta.append(('tracekey', chunk))
    # validity of every name
    CH = 100
    for k in range(0, len(names), CH):
        chunk = names[k:k + CH]
        exprs.append('valid_case %s %s' % (codes('_p_'), clist(codes(x) for x in chunk)))
        meta.append(('valid', chunk))
    # sorting lists (with duplicates removed: a dict / set of names has none) and sanitizer runs
    nlists = 40 if ctx.tier == 'quick' else 400
    short = [x for x in names if len(x) < 40 and '\n' not in x]
    for i in range(nlists):
        r = ctx.sub_rng('namelist', i)
        k = r.randint(2, 40)
        if r.random() < 0.5:     # rich in ties
            base = r.sample(short, min(len(short), max(2, k // 3)))
            lst = list(base)
            for b in base:
                for _ in range(r.randint(0, 2)):
                    v = re.sub(r'\d+', lambda m: '0' * r.randint(0, 2) + m.group(0), b)
                    if r.random() < 0.5:     # differ in letter case (only, or together with leading zeros)
                        v = r.choice([v.upper(), v.lower(), v.swapcase(), v.capitalize()])
                    lst.append(v)
                if r.random() < 0.3:
                    lst.append(b.swapcase())
        else:
            lst = r.sample(short, k)
        lst = list(dict.fromkeys(lst))
        r.shuffle(lst)
        exprs.append('natsort_case %s' % clist(codes(x) for x in lst))
        meta.append(('natsort', lst))
        exprs.append('tracesort_case %s' % clist(codes(x) for x in lst))
        meta.append(('tracesort', lst))
        pre = r.choice(['_ver_out_tmp_', '_vcd_tmp_'])
        exprs.append('sanitize_case %s %s' % (codes(pre), clist(codes(x) for x in lst)))
        meta.append(('sanitize', (pre, lst)))
    results = ctx.coq_eval(exprs, IMPORTS, tag='c20names', shard=20, jobs=12)

    class Obj(object):
        def __init__(self, name):
            self.name = name

    for m, r in zip(meta, results):
        kind = m[0]
        if kind in ('natkey', 'tracekey'):
            fn = ie._natural_sort_key if kind == 'natkey' else psim._trace_sort_key
            for nm, rk in zip(m[1], r):
                try:
                    real = enc_real_key(fn(nm))
                except Exception as e:
                    ctx.spec_violation('key-function-raises:%s' % type(e).__name__,
                                       '%s(%r) raised %r' % (fn.__name__, nm, e), {'name': nm})
                    continue
                ctx.case((kind, nm), nontrivial=any(c.isdigit() for c in nm),
                         sample={'name': nm, 'key': repr(fn(nm))[:80]}
                         if nm in ('tmp018', 'a01b2') and kind == 'natkey' else None)
                ctx.count('name_shape', 'leading-zero run' if W.strip_zeros(nm) != nm else
                          ('digits' if any(c.isdigit() for c in nm) else 'no digits'))
                if real != [list(x) for x in rk]:
                    ctx.model_mismatch('%s(%r): Coq model %r != real %r' % (fn.__name__, nm, rk, real),
                                       {'name': nm, 'model': rk, 'real': real})
        elif kind == 'valid':
            san = ie._VerilogSanitizer('_p_')
            for nm, mv in zip(m[1], r):
                real = bool(san.is_valid_str(nm))
                spec = not W.needs_sanitising(nm)
                ctx.case(('valid', nm), nontrivial=True)
                ctx.count('identifier', 'valid' if real else 'needs sanitising')
                if real and spec is False and not nm.endswith('\n'):
                    # one-way: a name that is not a legal Verilog identifier must be renamed (renaming more is harmless)
                    ctx.spec_violation('sanitizer-validity', '_VerilogSanitizer.is_valid_str(%r) is true but %r is not a '
                                       'legal Verilog identifier' % (nm, nm), {'name': nm})
                if real != bool(mv):
                    ctx.model_mismatch('is_valid_str(%r): model %s real %s' % (nm, mv, real), {'name': nm})
        elif kind in ('natsort', 'tracesort'):
            lst = m[1]
            keyf = ie._natural_sort_key if kind == 'natsort' else psim._trace_sort_key
            if kind == 'natsort':
                objs = [Obj(x) for x in lst]
                real = [objs.index(o) for o in ie._name_sorted(objs)]
            else:
                real = sorted(range(len(lst)), key=lambda i: keyf(lst[i]))
            ctx.case((kind, tuple(lst)), nontrivial=len(lst) >= 4)
            if real != list(r):
                ctx.model_mismatch('%s order: model %r real %r on %r' % (kind, r, real, lst),
                                   {'names': lst, 'model': r, 'real': real})
            # specification (determinism): the sorted sequence must not depend on the order in which the
            # collection is presented
            r2 = random.Random(repr(lst))
            lst2 = list(lst)
            r2.shuffle(lst2)
            if kind == 'natsort':
                a = [o.name for o in ie._name_sorted([Obj(x) for x in lst])]
                b = [o.name for o in ie._name_sorted([Obj(x) for x in lst2])]
            else:
                a, b = sorted(lst, key=keyf), sorted(lst2, key=keyf)
            if a != b:
                fn = '_name_sorted' if kind == 'natsort' else 'sorted(key=_trace_sort_key)'
                ties = len({W.strip_zeros(x) for x in lst}) < len(lst)
                if not ties and len({W.strip_zeros(x).lower() for x in lst}) < len(lst):
                    ties = 'case'
                ctx.spec_violation('nondeterministic:%s%s' % (fn, ':case-tie' if ties == 'case' else
                                                               (':natural-key-tie' if ties else '')),
                                   '%s of one collection of names presented in two orders gives two results%s: %r vs %r'
                                   % (fn, ' (names differing only by leading zeros tie)' if ties else '', a[:8], b[:8]),
                                   {'names': lst, 'names_reordered': lst2, 'result_a': a, 'result_b': b})
        elif kind == 'sanitize':
            pre, lst = m[1]
            san = ie._VerilogSanitizer(pre)
            for x in lst:
                san.make_valid_string(x)
            real = [san[x] for x in lst]
            model = [decode(z) for z in r]
            ctx.case(('sanitize', pre, tuple(lst)), nontrivial=sum(map(W.needs_sanitising, lst)) >= 2)
            if real != model:
                ctx.model_mismatch('sanitizer map: model %r real %r' % (model, real), {'names': lst, 'prefix': pre})
            # specification: injective on the presented names, valid identifiers out, valid names unchanged
            if len(set(real)) != len(real) and not any(x.startswith(pre) for x in lst):
                ctx.spec_violation('sanitizer-collision', 'two names map to one identifier: %r -> %r' % (lst, real),
                                   {'names': lst, 'prefix': pre})


# ------------------------------------------------------------------ subprocess fan-out

def run_workers(ctx, mode, specs, configs, batch, tag):
    """-> {config: {design key: result}}"""
    wd = os.path.join(ctx.workdir, 'jobs')
    textdir = os.path.join(ctx.workdir, 'texts')
    os.makedirs(wd, exist_ok=True)
    os.makedirs(textdir, exist_ok=True)
    jobs = []
    for ci, cfg_ in enumerate(configs):
        hs, noise = cfg_[0], cfg_[1]
        order = cfg_[2] if len(cfg_) > 2 else 0
        for b in range(0, len(specs), batch):
            jf = os.path.join(wd, '%s_%d_%d.job.json' % (tag, ci, b))
            of = os.path.join(wd, '%s_%d_%d.out.json' % (tag, ci, b))
            with open(jf, 'w') as f:
                json.dump({'noise': noise, 'order': order, 'textdir': textdir, 'designs': specs[b:b + batch],
                           'mode': mode}, f)
            jobs.append((tuple(cfg_), jf, of))

    def one(job):
        cfg_, jf, of = job
        env = dict(os.environ, PYTHONHASHSEED=str(cfg_[0]))
        # address-space randomisation off: object addresses (hence id()-hashed set orders) become a
        # function of (hash seed, allocation noise) alone, so a configuration replays exactly
        p = subprocess.run(NO_ASLR + [sys.executable, os.path.join(os.path.dirname(HERE), 'c20_worker.py'), jf, of],
                           env=env, capture_output=True, text=True, timeout=3000)
        if p.returncode != 0 or not os.path.exists(of):
            # one retry (transient: killed under memory pressure, ...); then every design of the batch is
            # reported as a worker error instead of aborting the whole run
            p = subprocess.run(NO_ASLR + [sys.executable, os.path.join(os.path.dirname(HERE), 'c20_worker.py'), jf, of],
                               env=env, capture_output=True, text=True, timeout=3000)
        if p.returncode != 0 or not os.path.exists(of):
            with open(jf) as f:
                job_ = json.load(f)
            out = {'results': [{'key': sp['key'], 'worker_error': 'worker process failed twice (rc=%s): %s'
                                % (p.returncode, p.stderr[-400:])} for sp in job_['designs']]}
            return cfg_, out
        with open(of) as f:
            out = json.load(f)
        os.remove(jf)
        os.remove(of)
        return cfg_, out

    for b in range(0, len(specs), batch):
        for j, sp in enumerate(specs[b:b + batch]):
            BATCH_PREFIX[sp['key']] = specs[b:b + j + 1]
    res = collections.defaultdict(dict)
    with concurrent.futures.ThreadPoolExecutor(max_workers=12) as ex:
        for cfg, out in ex.map(one, jobs):
            for r in out['results']:
                res[cfg][r['key']] = r
    return res, textdir


def load_text(textdir, key, exporter, h):
    p = os.path.join(textdir, re.sub(r'[^A-Za-z0-9_.-]', '_', key + '.' + exporter), h + '.txt')
    with open(p, encoding='utf-8', errors='surrogatepass') as f:
        return f.read()


def make_specs(ctx, n, tag, classes):
    # 'compiled': also run CompiledSimulation (gcc, ~0.3 s) -- designs whose Inputs/Outputs carry names
    # needing sanitising, and a few others
    return [{'key': '%s%d' % (tag, i), 'seed': 'C20:%d:%s:%d' % (ctx.seed, tag, i), 'cls': classes[i % len(classes)],
             'max_ops': 18, 'compiled': classes[i % len(classes)] in ('sani', 'both', 'genlike') or i % 11 == 0}
            for i in range(n)]


def make_configs(ctx, nseeds, noises):
    rng = ctx.sub_rng('configs')
    seeds = list(range(min(nseeds, 4))) + [rng.randrange(5, 2 ** 32 - 1) for _ in range(max(0, nseeds - 4))]
    return [(hs, nz) for hs in seeds for nz in noises]


def with_orders(configs):
    """third coordinate: the order in which the exporters are called inside the process"""
    return [(hs, nz, i % len(W.ORDERS)) for i, (hs, nz) in enumerate(configs)]


# ------------------------------------------------------------------ classification of a text difference

TMP_RE = re.compile(r'_(?:ver_out|vcd)_tmp_\d+')
IDENT_RE = re.compile(r'[A-Za-z_$][A-Za-z_$0-9]*|\d+')


def explain_difference(t1, t2, names, n_invalid, shared_enable):
    """-> set of explanations among {'sanitizer-order','natural-key-tie','shared-write-enable-tie'}
    or None when the difference is not explained by those three mechanisms."""
    l1, l2 = t1.split('\n'), t2.split('\n')
    if len(l1) != len(l2):
        return None
    fam = collections.defaultdict(list)
    for nm in names:
        fam[W.strip_zeros(nm)].append(nm)
    tie_names_ = {nm for f in fam.values() if len(f) > 1 for nm in f}

    def mask(s):
        # numbering masked; lines that list several identifiers (module header, instantiation) are
        # compared as multisets of their items
        s = TMP_RE.sub('_tmp_#', s)
        return ' '.join(sorted(re.split(r'[(),;\s]+', s))) if ', ' in s else s

    if sorted(map(mask, l1)) != sorted(map(mask, l2)):
        return None

    def is_tmp(s):
        return TMP_RE.search(s) is not None

    def is_tie(s):
        return any(nm in s for nm in tie_names_)

    def is_memwrite(s):
        return s.startswith('        if (') or ('mem_' in s and '<=' in s) or s.strip() == 'end'

    why = set()
    rest1 = [s for s in l1 if not (is_tmp(s) or is_tie(s) or (shared_enable and is_memwrite(s)))]
    rest2 = [s for s in l2 if not (is_tmp(s) or is_tie(s) or (shared_enable and is_memwrite(s)))]
    if rest1 != rest2:
        return None
    if [s for s in l1 if is_tmp(s)] != [s for s in l2 if is_tmp(s)]:
        if n_invalid < 2:
            return None
        why.add('sanitizer-order')
    if [s for s in l1 if is_tie(s) and not is_tmp(s)] != [s for s in l2 if is_tie(s) and not is_tmp(s)]:
        if not tie_names_:
            return None
        why.add('natural-key-tie')
    if shared_enable and [s for s in l1 if is_memwrite(s) and not is_tmp(s) and not is_tie(s)] != \
            [s for s in l2 if is_memwrite(s) and not is_tmp(s) and not is_tie(s)]:
        why.add('shared-write-enable-tie')
    if not why:
        # the differing lines are both tmp and tie lines: attribute to whichever mechanism exists
        if n_invalid >= 2:
            why.add('sanitizer-order')
        if tie_names_:
            why.add('natural-key-tie')
    return why or None


# ------------------------------------------------------------------ (b) projection of the real texts

def canon_ties(seq):
    """names with equal natural keys are adjacent; their relative order follows the iteration order of a
    temporary subset the exporter builds internally (not observable): order each run by raw name"""
    out = []
    i = 0
    while i < len(seq):
        j = i
        while j < len(seq) and W.strip_zeros(seq[j]) == W.strip_zeros(seq[i]):
            j += 1
        out.extend(sorted(seq[i:j]))
        i = j
    return out


def project_verilog(text, n_in, n_out, n_const, add_reset):
    lines = text.split('\n')
    secs = []
    m = [re.match(r'module toplevel\((.*)\);$', s) for s in lines]
    io_ = [x for x in m if x][0].group(1).split(', ')
    io_ = io_[2:] if add_reset else io_[1:]
    secs.append(io_[:n_in])
    secs.append(io_[n_in:])

    def decl(kw):
        out = []
        for s in lines:
            mm = re.match(r'    %s(\[\d+:0\])? (\S+);$' % kw, s)
            if mm and mm.group(2) not in ('clk', 'rst'):
                out.append(mm.group(2))
        return out
    for kw in ('input', 'output', 'reg', 'wire'):
        secs.append(decl(kw))

    def block_after(marker):
        out = []
        on = False
        for s in lines:
            if s.startswith(marker):
                on = True
                continue
            if on and s == '':
                break
            if on:
                out.append(s)
        return out
    comb = [re.match(r'    assign (\S+) = ', s).group(1) for s in block_after('    // Combinational')
            if s.startswith('    assign ')]
    secs.append(comb[:n_const])
    secs.append(comb[n_const:])
    regs = [re.match(r'            (\S+) <= ', s).group(1) for s in block_after('    // Registers')
            if re.match(r'            (\S+) <= ', s)]
    if add_reset:
        secs.append(regs[:len(regs) // 2])
        secs.append(regs[len(regs) // 2:])
    else:
        secs.append(regs)
    mems = collections.OrderedDict()
    cur = None
    for s in lines:
        mm = re.match(r'    // Memory mem_(\d+): ', s)
        if mm:
            cur = int(mm.group(1))
            mems[cur] = ([], [])
            continue
        if cur is not None:
            mw = re.match(r'        if \((\S+)\) begin$', s)
            if mw:
                mems[cur][0].append(mw.group(1))
            mr = re.match(r'    assign (\S+) = mem_', s)
            if mr:
                mems[cur][1].append(mr.group(1))
    for mid, (wr, rd) in mems.items():
        secs.append(wr)
        secs.append(rd)
    return secs, list(mems)


def verilog_model_expr(r, add_reset):
    ws = clist('(%s, %d)' % (codes(nm), KINDCODE.get(k, 4)) for nm, k in zip(r['set_order'], r['kinds']))
    nets = []
    for op, dest, memid, we_str, we_name, addr_str, data_str in r['nets']:
        if op == '@':
            nets.append('([%s; %s; %s], true, %d, [%s])' % (codes(we_str), codes(addr_str), codes(data_str),
                                                          1000 + memid, codes(we_name)))
        elif op == 'm':
            nets.append('([%s], false, %d, [])' % (codes(dest), 2000 + memid))
        elif op == 'r':
            nets.append('([%s], false, 1, [])' % codes(dest))
        else:
            nets.append('([%s], false, 0, [])' % codes(dest))
    memids = sorted({n[2] for n in r['nets'] if n[0] in 'm@'})
    wsecs = '[[0]; [1]; [0]; [1]; [2]; [3; 4]; [3]]'
    nsecs = [0] + ([1, 1] if add_reset else [1])
    for mid in memids:
        nsecs += [1000 + mid, 2000 + mid]
    return 'verilog_case %s %s %s %s' % (wsecs, clist(map(str, nsecs)), ws, clist(nets)), memids


def split_model(zs):
    txt = decode(zs)
    secs = txt.split('#')[1:]
    return [[x for x in s.split('\n') if x != ''] for s in secs]


def pack(s):
    b = s.encode('latin-1')
    return '0x' + (b.hex() or '0')


def pack_text(t, chunk=24):
    b = t.encode('latin-1')
    return clist('0x' + b[i:i + chunk].hex() for i in range(0, len(b), chunk))


def trace_items_expr(r):
    return clist('(%s, %d, %s)' % (pack(nm), w, clist('0x%x' % v for v in vals)) for nm, w, vals in r['trace_items'])


IMPORTS_BYTES = IMPORTS + 'From PyRTL Require Import IO.DeterminismTrace IO.DeterminismTraceHarness.\n'


def tie_trace_bytes(ctx, exp_res, textdir, specs, per_design):
    """print_trace / print_vcd: the real text must be, BYTE FOR BYTE, what IO/DeterminismTrace.v computes from
    the trace dict in the order this schedule produced it"""
    exprs, meta = [], []
    for spec in specs:
        key = spec['key']
        seen = set()
        for cfg in sorted(exp_res):
            r = exp_res[cfg].get(key)
            if r is None or 'worker_error' in r or 'trace_items' not in r:
                continue
            order = tuple(r['trace_keys'])
            if order in seen or len(seen) >= per_design or (ctx.tier == 'quick' and int(key[1:]) % 3 == 2):
                continue
            seen.add(order)
            if any(ord(c) > 255 or c == '\0' for nm, _, _ in r['trace_items'] for c in nm) or not r['trace_items']:
                continue
            items = trace_items_expr(r)
            tt = load_text(textdir, key, 'print_trace', r['sha']['print_trace'])
            tv = load_text(textdir, key, 'print_vcd', r['sha']['print_vcd'])
            if tt.startswith('ERR ') or tv.startswith('ERR '):
                continue
            exprs.append('trace_bytes_case %s %s %s %s' % (r['opts']['base'], r['opts']['compact'].lower(), items,
                                                        pack_text(tt)))
            meta.append(('print_trace', key, cfg, r, len(tt)))
            exprs.append('vcd_bytes_case %s %s %s' % (r['opts']['include_clock'].lower(), items, pack_text(tv)))
            meta.append(('print_vcd', key, cfg, r, len(tv)))
    results = ctx.coq_eval(exprs, IMPORTS_BYTES, tag='c20bytes', shard=6, jobs=12)
    for (ex, key, cfg, r, n), res in zip(meta, results):
        ctx.count('byte_exact_tie', ex)
        ctx.count('byte_exact_tie_bytes', ex, n)
        ctx.case(('bytes', ex, key, tuple(r['trace_keys'])), nontrivial=len(r['trace_items']) >= 4)
        if list(res) != [1]:
            ctx.model_mismatch('%s text of design %s differs from IO/DeterminismTrace.v at byte %s (model %s, real %s)'
                               % (ex, key, res[1], res[2], res[3]),
                               {'design': r['key'], 'config': list(cfg), 'exporter': ex, 'opts': r['opts'],
                                'first_difference': list(res), 'trace_keys': r['trace_keys'][:20]})


def tie_emitters(ctx, exp_res, textdir, specs, per_design):
    exprs, meta = [], []
    for spec in specs:
        key = spec['key']
        seen_orders = set()
        picked = 0
        for cfg in sorted(exp_res):
            r = exp_res[cfg].get(key)
            if r is None or 'worker_error' in r:
                continue
            so = tuple(r['set_order'])
            if so in seen_orders:
                continue
            seen_orders.add(so)
            if picked >= per_design or (per_design == 1 and int(key[1:]) % 3 == 2):
                continue
            picked += 1
            add_reset = r['opts']['add_reset'] != 'False'
            e, memids = verilog_model_expr(r, add_reset)
            exprs.append(e)
            meta.append(('verilog', key, cfg, r, add_reset, memids))
            ws = clist('(%s, %d)' % (codes(nm), KINDCODE.get(k, 4)) for nm, k in zip(r['set_order'], r['kinds']))
            exprs.append('testbench_case [[0]; [1]; [2]] %s' % ws)
            meta.append(('testbench', key, cfg, r))
            tr = clist(codes(x) for x in r.get('trace_keys', r['tracked_order']))
            exprs.append('trace_case %s' % tr)
            meta.append(('trace', key, cfg, r))
            exprs.append('vcd_case %s %s' % (tr, tr))
            meta.append(('vcd', key, cfg, r))
    results = ctx.coq_eval(exprs, IMPORTS, tag='c20emit', shard=16, jobs=12)
    for m, zs in zip(meta, results):
        kind, key, cfg, r = m[0], m[1], m[2], m[3]
        rep = {'design': key, 'seed': ctx.seed, 'config': list(cfg), 'exporter': kind}
        try:
            if kind == 'verilog':
                add_reset, memids = m[4], m[5]
                text = load_text(textdir, key, 'output_to_verilog', r['sha']['output_to_verilog'])
                kinds = r['kinds']
                real, real_mems = project_verilog(text, kinds.count('Input'), kinds.count('Output'),
                                                  kinds.count('Const'), add_reset)
                model = split_model(zs)
                if real_mems != memids:
                    ctx.model_mismatch('memories emitted %r, expected ids %r' % (real_mems, memids), rep)
            elif kind == 'testbench':
                text = load_text(textdir, key, 'output_verilog_testbench', r['sha']['output_verilog_testbench'])
                lines = text.split('\n')
                ins = [mm.group(2) for mm in (re.match(r'    reg(\[\d+:0\])? (\S+);$', s) for s in lines)
                       if mm and mm.group(2) not in ('clk', 'rst')]
                outs = [mm.group(2) for mm in (re.match(r'    wire(\[\d+:0\])? (\S+);$', s) for s in lines) if mm]
                regs = [mm.group(1) for mm in (re.match(r'        block\.(\S+) = ', s) for s in lines)
                        if mm and not mm.group(1).startswith('mem_')]
                real = [ins, outs, regs]
                model = split_model(zs)
            elif kind == 'trace':
                text = load_text(textdir, key, 'print_trace', r['sha']['print_trace'])
                lines = [s for s in text.split('\n') if s != '']
                il = max(len(x) for x in r['tracked_order'])
                if r['opts']['compact'] == 'True':
                    real = [[s[:il].lstrip(' ') for s in lines]]
                else:
                    real = [[s[:il + 1].rstrip(' ') for s in lines[1:]]]
                model = [[x for x in decode(zs).split('\n') if x != '']]
            else:
                text = load_text(textdir, key, 'print_vcd', r['sha']['print_vcd'])
                real = [[s.split(' ')[3] for s in text.split('\n') if s.startswith('$var wire') and ' clk clk ' not in s]]
                model = [[x for x in decode(zs).split('\n') if x != '']]
        except Exception as e:
            ctx.model_mismatch('could not project the %s text of %s: %r' % (kind, key, e), rep)
            continue
        ctx.count('emitter_tie', kind)
        if [canon_ties(s) for s in real] != [canon_ties(s) for s in model]:
            bad = [(i, a, b) for i, (a, b) in enumerate(zip(real, model)) if canon_ties(a) != canon_ties(b)][:1]
            ctx.model_mismatch('identifier sequence of the real %s text differs from the Coq emitter model in section %r'
                               % (kind, bad), dict(rep, set_order=r['set_order']))


# ------------------------------------------------------------------ (c) search over schedules

def search_exports(ctx, exp_res, textdir, specs):
    for spec in specs:
        key = spec['key']
        runs = [(cfg, exp_res[cfg][key]) for cfg in sorted(exp_res) if key in exp_res[cfg]]
        errs = [(cfg, r) for cfg, r in runs if 'worker_error' in r]
        if errs and 'worker process failed twice' in errs[0][1]['worker_error']:
            ctx.model_mismatch('harness: %s' % errs[0][1]['worker_error'][:300], {'design': spec, 'config': list(errs[0][0])})
            continue
        if errs:
            ctx.spec_violation('export-raises', 'building / exporting design %s raised: %s' % (key, errs[0][1]['worker_error'][-400:]),
                               {'design': spec, 'config': list(errs[0][0])})
            continue
        fps = {r['fp'] for _, r in runs}
        if len(fps) != 1 and spec['cls'] in ('blif', 'iscas'):
            imp = 'input_from_blif' if spec['cls'] == 'blif' else 'input_from_iscas_bench'
            byfp = collections.OrderedDict()
            for cfg, r in runs:
                byfp.setdefault(r['fp'], (cfg, r))
            (ca, ra), (cb, rb) = list(byfp.values())[:2]
            ctx.spec_violation('nondeterministic:%s' % imp,
                               '%s builds structurally different blocks (wire names / nets) from one text under schedules '
                               '%s and %s (%d distinct structures over %d configurations), so every export of the imported '
                               'design differs' % (imp, list(ca), list(cb), len(byfp), len(runs)),
                               {'design': spec, 'batch_prefix': BATCH_PREFIX.get(key, [spec]), 'seed': ctx.seed,
                                'config_a': list(ca), 'config_b': list(cb),
                                'names_only_in_a': sorted(set(ra['set_order']) - set(rb['set_order']))[:8],
                                'names_only_in_b': sorted(set(rb['set_order']) - set(ra['set_order']))[:8],
                                'verilog_sha_a': ra['sha']['output_to_verilog'], 'verilog_sha_b': rb['sha']['output_to_verilog']})
            continue
        if len(fps) != 1:
            # the build script is a pure function of the seed (lists only): a structural difference comes
            # from the construction API itself (e.g. helper nets / tmp names created in set order)
            byfp = collections.OrderedDict()
            for cfg, r in runs:
                byfp.setdefault(r['fp'], (cfg, r))
            (ca, ra), (cb, rb) = list(byfp.values())[:2]
            ctx.spec_violation('nondeterministic:design-construction:%s' % spec['cls'],
                               'the same construction script (class %s) builds structurally different blocks (wire names / '
                               'nets) under schedules %s and %s (%d distinct structures over %d configurations), so '
                               'output_to_verilog / print_vcd / print_trace texts of the design differ between processes'
                               % (spec['cls'], list(ca), list(cb), len(byfp), len(runs)),
                               {'design': spec, 'batch_prefix': BATCH_PREFIX.get(key, [spec]), 'seed': ctx.seed,
                                'config_a': list(ca), 'config_b': list(cb),
                                'nets_differ': sorted(set(map(json.dumps, ra['nets'])) ^ set(map(json.dumps, rb['nets'])))[:6],
                                'verilog_sha_a': ra['sha']['output_to_verilog'], 'verilog_sha_b': rb['sha']['output_to_verilog'],
                                'first_differing_lines': _first_diff(
                                    load_text(textdir, key, 'output_to_verilog', ra['sha']['output_to_verilog']),
                                    load_text(textdir, key, 'output_to_verilog', rb['sha']['output_to_verilog']))})
            continue
        r0 = runs[0][1]
        names = r0['set_order']
        orders = {}
        for cfg, r in runs:
            orders.setdefault(tuple(r['set_order']), cfg)
        ctx.count('distinct_set_orders_per_design', len(orders))
        ctx.count('design_class', spec['cls'])
        ctx.count('invalid_names_per_design', min(r0['n_invalid'], 6))
        fam = collections.Counter(W.strip_zeros(nm) for nm in names)
        has_tie = any(v > 1 for v in fam.values())
        we = collections.Counter((n[2], n[3]) for n in r0['nets'] if n[0] == '@')
        shared = any(v > 1 for v in we.values())
        seen = set()
        for cfg, r in runs:
            new_order = tuple(r['set_order']) not in seen
            seen.add(tuple(r['set_order']))
            for ex in EXPORTERS:
                if ex not in r['sha']:
                    continue
                ctx.case((key, tuple(r['set_order']), ex), nontrivial=(r['nwires'] >= 8 and new_order),
                         sample={'design': spec, 'config': list(cfg), 'exporter': ex, 'wires': r['nwires'],
                                 'set_order_head': r['set_order'][:6], 'sha': r['sha'][ex]}
                         if (key.endswith('1') and ex == 'output_to_verilog' and len(seen) <= 1) else None)
        # observations made inside each process
        for cfg, r in runs:
            rep0 = {'design': spec, 'batch_prefix': BATCH_PREFIX.get(key, [spec]), 'seed': ctx.seed, 'config': list(cfg)}
            for ex in r.get('changed_on_second_call', []):
                ctx.spec_violation('export-changes-later-export:%s' % ex.split(':')[-1],
                                   '%s printed a different text when called a second time in the same process (after the '
                                   'other exporters had run, call order %s) on design %s: an export call is not read-only '
                                   'with respect to later exports' % (ex, r.get('order'), key), dict(rep0, exporter=ex))
            for ex, dups in r.get('duplicate_identifiers', {}).items():
                ctx.spec_violation('duplicate-identifier:%s' % ex.split(':')[-1],
                                   '%s text of design %s declares identifier(s) %s more than once (exporter call order %s)'
                                   % (ex, key, dups[:4], r.get('order')), dict(rep0, exporter=ex, duplicates=dups))
            for ex, err in r.get('export_errors', {}).items():
                ctx.spec_violation('export-raises:%s:%s' % (ex.split(':')[-1], err.split(':')[0].replace('ERR ', '')),
                                   '%s raised on design %s: %s' % (ex, key, err), dict(rep0, exporter=ex))
        for ex in EXPORTERS:
            if any(ex not in r['sha'] for _, r in runs):
                continue
            base = ex.split(':')[-1]
            byhash = collections.OrderedDict()
            by_order = collections.defaultdict(set)
            for cfg, r in runs:
                byhash.setdefault(r['sha'][ex], cfg)
                by_order[cfg[2] if len(cfg) > 2 else 0].add(r['sha'][ex])
            ctx.count('distinct_texts:' + ex, len(byhash))
            if len(byhash) == 1:
                continue
            if len(by_order) > 1 and all(len(v) == 1 for v in by_order.values()):
                # identical under every schedule that calls the exporters in the same order, different
                # between call orders: the text depends on which exporter ran first in the process
                h0, h1 = list(byhash)[:2]
                ctx.spec_violation('export-order-dependent:%s' % base,
                                   '%s text of design %s depends on the order in which the exporters are called in one '
                                   'process (call orders %s vs %s), not on the schedule'
                                   % (ex, key, W.ORDERS[byhash[h0][2]], W.ORDERS[byhash[h1][2]]),
                                   {'design': spec, 'batch_prefix': BATCH_PREFIX.get(key, [spec]), 'seed': ctx.seed,
                                    'exporter': ex, 'config_a': list(byhash[h0]), 'config_b': list(byhash[h1]),
                                    'first_differing_lines': _first_diff(load_text(textdir, key, ex, h0),
                                                                         load_text(textdir, key, ex, h1))})
                continue
            hashes = list(byhash)
            t1 = load_text(textdir, key, ex, hashes[0])
            why_all = set()
            unexplained = None
            for h in hashes[1:]:
                t2 = load_text(textdir, key, ex, h)
                n_inv = r0['n_invalid_tracked'] if base == 'print_vcd' else r0['n_invalid']
                why = explain_difference(t1, t2, names, n_inv, shared) if not base.endswith('_trace') or base == 'print_trace' else None
                if why is None:
                    unexplained = h
                    break
                why_all |= why
            d1 = [l for l in t1.split('\n')]
            rep = {'design': spec, 'batch_prefix': BATCH_PREFIX.get(key, [spec]), 'seed': ctx.seed, 'exporter': ex,
                   'config_a': list(byhash[hashes[0]]), 'config_b': list(byhash[unexplained or hashes[1]]),
                   'sha_a': hashes[0], 'sha_b': unexplained or hashes[1], 'distinct_texts': len(byhash),
                   'configs': len(runs), 'names_needing_sanitising': r0['n_invalid'],
                   'leading_zero_families': sorted(k for k, v in fam.items() if v > 1)[:5],
                   'first_differing_lines': _first_diff(t1, load_text(textdir, key, ex, unexplained or hashes[1])),
                   'how': 'setarch -R env PYTHONPATH=/repo PYTHONHASHSEED=<config[0]> python py/c20_worker.py job.json out.json '
                          'with job = {"mode": "export", "noise": <config[1]>, "designs": <batch_prefix>, "textdir": ...}; '
                          'or ./check C20 --replay <this file>'}
            if unexplained is not None:
                ctx.spec_violation('nondeterministic:%s' % ex,
                                   '%s text of design %s differs between schedules %s and %s (%d distinct texts over %d '
                                   'configurations); not explained by sanitizer numbering / natural-key ties'
                                   % (ex, key, rep['config_a'], rep['config_b'], len(byhash), len(runs)), rep)
            else:
                for why in sorted(why_all):
                    ctx.spec_violation('nondeterministic:%s:%s' % (ex, why),
                                       '%s text depends on the schedule (%s): design %s gives %d distinct texts over %d '
                                       '(hash seed, allocation noise, call order) configurations'
                                       % (ex, why, key, len(byhash), len(runs)), rep)
        ctx.count('fastsim_equals_sim(informational, C02)', all(r.get('fast_equals_sim') for _, r in runs))
        if any(r.get('compiled_unavailable') for _, r in runs):
            ctx.count('compiled_simulation_unavailable', runs[0][1].get('compiled_unavailable', '')[:60])
        # informational: exporters outside the property's byte-identical list
        for ex in sorted(r0.get('extra_sha', {})):
            ctx.count('distinct_texts(informational):' + ex, len({r['extra_sha'][ex] for _, r in runs}))


def _first_diff(t1, t2):
    out = []
    for a, b in zip(t1.split('\n'), t2.split('\n')):
        if a != b:
            out.append([a[:120], b[:120]])
            if len(out) >= 3:
                break
    return out


def search_passes(ctx, res, specs):
    for spec in specs:
        key = spec['key']
        runs = [(cfg, res[cfg][key]) for cfg in sorted(res) if key in res[cfg]]
        errs = [(cfg, r) for cfg, r in runs if 'worker_error' in r]
        if errs:
            ctx.model_mismatch('harness: pass run of %s raised %s' % (key, errs[0][1]['worker_error'][-300:]), {'design': spec})
            continue
        if len({r['fp'] for _, r in runs}) != 1 or len({json.dumps(r['reference'], sort_keys=True) for _, r in runs}) != 1:
            ctx.spec_violation('nondeterministic:simulation', 'reference Output trace of design %s differs between schedules' % key,
                               {'design': spec})
            continue
        for pname in runs[0][1]['pipelines']:
            outs = collections.OrderedDict()
            fps = set()
            for cfg, r in runs:
                p = r['pipelines'][pname]
                outs.setdefault(json.dumps(p.get('outputs', p.get('error')), sort_keys=True), cfg)
                fps.add(p.get('fp_after'))
                ctx.case((key, pname, p.get('fp_after'), cfg), nontrivial=p.get('nnets', 0) >= 4,
                         sample={'design': spec, 'pipeline': pname, 'config': list(cfg), 'nets_after': p.get('nnets')}
                         if key.endswith('0') and pname == 'synthesize+optimize' and cfg == runs[0][0] else None)
            ctx.count('pass_distinct_structures:' + pname, len(fps))
            ref = json.dumps(runs[0][1]['reference'], sort_keys=True)
            ctx.count('pass_vs_untransformed:' + pname, 'same' if list(outs)[0] == ref else 'differs(C03/C04/C09)')
            if len(outs) > 1:
                cfgs = list(outs.values())
                ctx.spec_violation('pass-behaviour-differs:%s' % pname,
                                   'Output traces after %s on design %s differ between schedules %s and %s'
                                   % (pname, key, list(cfgs[0]), list(cfgs[1])),
                                   {'design': spec, 'batch_prefix': BATCH_PREFIX.get(key, [spec]), 'pipeline': pname,
                                    'config_a': list(cfgs[0]), 'config_b': list(cfgs[1]),
                                    'outputs_a': json.loads(list(outs)[0]), 'outputs_b': json.loads(list(outs)[1])})


def search_readonly(ctx, res, specs):
    for spec in specs:
        key = spec['key']
        for cfg in sorted(res):
            r = res[cfg].get(key)
            if r is None:
                continue
            if 'worker_error' in r:
                ctx.model_mismatch('harness: read-only run of %s raised %s' % (key, r['worker_error'][-300:]), {'design': spec})
                continue
            ctx.count('readonly_design_class', spec['cls'])
            ctx.count('fastsim_equals_sim_readonly(informational, C02)', r.get('fast_equals_sim'))
            for c in r['calls']:
                ctx.case((key, cfg, c['call']), nontrivial=True,
                         sample={'design': spec, 'call': c['call'], 'config': list(cfg), 'fingerprint_same': c.get('fp_same'),
                                 'behaviour_same': c.get('beh_same')} if key.endswith('0') and c['call'] == 'output_to_firrtl' and cfg == sorted(res)[0] else None)
                ctx.count('readonly_calls', c['call'])
                rep = {'design': spec, 'batch_prefix': BATCH_PREFIX.get(key, [spec]), 'config': list(cfg),
                       'call': c['call'], 'detail': c}
                if 'error' in c:
                    ctx.count('readonly_call_errors', '%s: %s' % (c['call'], c['error'][:60]))
                if 'post_error' in c:
                    ctx.spec_violation('export-mutates:%s' % c['call'],
                                       'after %s the block no longer simulates: %s' % (c['call'], c['post_error']), rep)
                    continue
                if c['call'].startswith('output_to_firrtl(rom_blocks'):
                    ctx.count('firrtl_rom_blocks_romdata', ','.join(r.get('rom_kinds', [])))
                if c.get('beh_same') is False or c.get('beh_same_fast') is False:
                    which = 'Simulation' if c.get('beh_same') is False else 'FastSimulation'
                    ctx.spec_violation('export-mutates:%s' % c['call'],
                                       '%s changed the behaviour of the block it read (Output traces under %s differ: %s)'
                                       % (c['call'], which, json.dumps(c.get('diff') or c.get('diff_fast'))[:300]), rep)
                elif False:
                    ctx.spec_violation('export-mutates:%s' % c['call'],
                                       '%s changed the behaviour of the block it read (Output traces differ: %s)'
                                       % (c['call'], json.dumps(c.get('diff'))[:300]), rep)
                elif c.get('fp_same') is False:
                    ctx.spec_violation('export-mutates-structure:%s' % c['call'],
                                       '%s changed the structure (wires/nets) of the block it read' % c['call'], rep)


# ------------------------------------------------------------------ entry points

def run(ctx):
    import time
    quick = ctx.tier == 'quick'
    t0 = time.time()

    def tie_phase(name, fn, *args, **kw):
        # The tie phases evaluate the Coq model (Gen/C20Src.v included).  When the translator refuses the
        # source or the model does not build, the proof step has already reported that; the implementation-only
        # searches below must still run so that a concrete schedule pair is found when one exists.
        try:
            fn(*args, **kw)
        except Exception as e:
            import traceback
            ctx.count('tie_phase_unavailable', name)
            ctx.model_mismatch('tie phase %s could not be evaluated (model unavailable): %s' % (name, str(e)[-300:]),
                               {'phase': name, 'error': traceback.format_exc()[-1500:]})
    tie_phase('tie_names', tie_names, ctx)
    ctx.notes.append('tie_names %.1fs' % (time.time() - t0))
    classes = ['plain', 'sani', 'zeros', 'both', 'memtie', 'samename', 'case', 'blif', 'iscas', 'genlike', 'cond',
               'blif', 'cond']
    specs = make_specs(ctx, 78 if quick else 247, 'e', classes)
    configs = with_orders(make_configs(ctx, 4 if quick else 8, [0, 2, 5] if quick else [0, 1, 3, 7]))
    exp_res, textdir = run_workers(ctx, 'export', specs, configs, batch=39 if quick else 62, tag='exp')
    ctx.notes.append('export workers done at %.1fs' % (time.time() - t0))
    search_exports(ctx, exp_res, textdir, specs)
    ctx.notes.append('search_exports done at %.1fs' % (time.time() - t0))
    tie_phase('tie_emitters', tie_emitters, ctx, exp_res, textdir, specs, per_design=1 if quick else 2)
    ctx.notes.append('tie_emitters done at %.1fs' % (time.time() - t0))
    tie_phase('tie_trace_bytes', tie_trace_bytes, ctx, exp_res, textdir, specs, per_design=1 if quick else 2)
    ctx.notes.append('tie_trace_bytes done at %.1fs' % (time.time() - t0))
    pspecs = make_specs(ctx, 9 if quick else 60, 'p', ['plain', 'zeros', 'sani'])
    pconfigs = make_configs(ctx, 2 if quick else 4, [0, 4])
    for s in pspecs:
        s['max_ops'] = 10
    pres, _ = run_workers(ctx, 'passes', pspecs, pconfigs, batch=3 if quick else 20, tag='pass')
    search_passes(ctx, pres, pspecs)
    ctx.notes.append('passes done at %.1fs' % (time.time() - t0))
    rspecs = make_specs(ctx, 24 if quick else 120, 'r', ['plain', 'romonly', 'memtie', 'romonly', 'both', 'samename'])
    rconfigs = make_configs(ctx, 2 if quick else 4, [0, 3])
    rres, _ = run_workers(ctx, 'readonly', rspecs, rconfigs, batch=12 if quick else 30, tag='ro')
    search_readonly(ctx, rres, rspecs)
    ctx.notes.append('readonly done at %.1fs' % (time.time() - t0))
    ctx.extra_cov['schedule_configurations'] = {'export': len(configs), 'passes': len(pconfigs), 'readonly': len(rconfigs)}
    ctx.extra_cov['designs'] = {'export': len(specs), 'passes': len(pspecs), 'readonly': len(rspecs)}


def replay(ctx, data):
    rep = data.get('replay', data)
    spec = rep.get('design')
    print(json.dumps(rep, indent=1)[:3000])
    if not isinstance(spec, dict):
        return run(ctx)
    cfgs = [tuple(rep[k]) for k in ('config_a', 'config_b', 'config') if k in rep]
    # the schedule a configuration produces depends on everything allocated before in the same worker
    # process, so the whole batch prefix is rebuilt
    batch = rep.get('batch_prefix') or [spec]
    if 'pipeline' in rep:
        res, _ = run_workers(ctx, 'passes', batch, cfgs, batch=len(batch), tag='replay')
        search_passes(ctx, res, [spec])
    elif 'call' in rep:
        res, _ = run_workers(ctx, 'readonly', batch, cfgs, batch=len(batch), tag='replay')
        search_readonly(ctx, res, [spec])
    else:
        res, textdir = run_workers(ctx, 'export', batch, cfgs, batch=len(batch), tag='replay')
        search_exports(ctx, res, textdir, [spec])
